#!/usr/bin/env python3
"""Regenerates MANIFEST.json from the table below (keeps it schema-valid at all times)."""
import json, subprocess, sys
props = [json.loads(l) for l in open('properties.jsonl')]
ids = [p['id'] for p in props]
# id -> (level, technique, text, note, design_ref)
checks = {
 'C01': ('exploration', 'runtime monitor: semantic-tree-first generation + meaning-preserving factorizer; canonical dump through public accessors compared with the tree the generator started from and across spellings; aliasing and parent-linkage scan',
         'A generated semantic tree (containers, lists, choices/cases, leaves, actions/notifications with stated or inherited config, mandatory, defaults, min/max, when/must) is rendered inline and then re-factored by PRNG-chosen meaning-preserving steps (groupings local / module / submodule / imported, nested and repeated uses with refines, uses-level and module-level augments in textual order, moves into submodules, decoys under disabled features); every spelling is loaded and its walker dump must equal the semantic tree; clones must not alias each other and Parent() must lead back.',
         'trusts the factorizer legality rules (scope, suffix, augment ordering); bounded tree size', 'DESIGN.md 3/C01'),
 'C02': ('exploration', 'runtime monitor: generator-computed effective type (RFC 7950 derivation) vs the type read through public accessors on every expansion of every generated leaf',
         'Typedef chains of depth 0..4 over all restrictable built-ins with each level in a PRNG-chosen scope (module, own prefix, local, submodule, imported), restrictions / default / units stated at any subset of levels and on the leaf, sibling leaves deriving from the same typedef, enumerations and bits with mixed stated/automatic values, unions, leafrefs (relative, forward, absolute, chained, typedef, imported), identity DAGs over import chains of up to 4 modules with shared prefixes, lexical-scope decoys in both modules; the leaf sits in a grouping used 0..4 times and every expansion is compared field by field.',
         'trusts the generator-side derivation (about 60 lines); patterns of derived types: see known finding', 'DESIGN.md 3/C02'),
 'C11': ('exploration', 'runtime monitor: independent recursive-descent if-feature evaluator, exhaustive over expressions x assignments x configuration style; dump diff for deviations',
         'Every if-feature expression with <= 3 (thorough: <= 4) operators over 3 features is loaded under all 8 assignments with allow-list, deny-list and default configuration; each guardable statement kind and features of an imported module are covered; malformed expressions must be load errors; for deviations the canonical dumps with and without the deviation may differ in exactly the named paths (incl. several deviate kinds in one deviation).',
         'exhaustive for the stated expression bound only; deviations are a fixed catalog of 30', 'DESIGN.md 3/C11'),
 'C20': ('exploration', 'Go race detector on a -race build of the harness + determinism oracle (byte equality with sequential baseline) + reflection fingerprint of the compiled module',
         'Each case runs in a fresh -race worker process: concurrent loads as the first action of the process, concurrent use of one shared module from separate browsers/stores (incl. concurrent FIRST use of a fresh module with union/leafref/enum leaves), and both mixed, for G in {2,8,32} and GOMAXPROCS in {2,4,16}; every other client also sends requests that are refused; the module exported as data and the copy overwritten must leave the module as it was. Race reports are collected from the detector logs and de-duplicated by innermost library frame pair; overlap of operations is measured with a logical clock and reported in the evidence.',
         'happens-before detection only sees the interleavings that occurred; overlap counts are in the evidence file; loads also go through one source.EmbedDir opener shared by all goroutines (modules stored as name@revision.yang); the first-use module has unions of identityrefs whose first member has three bases', 'DESIGN.md 3/C20'),
 'C05': ('exploration', 'runtime monitor: independent membership evaluator (math/big intervals, code-point lengths, anchored patterns) vs error result and store content on 5 write paths',
         'For generated restriction chains (base type x up to 3 typedef levels; ranges with alternatives, open ends, min/max, 64-bit and decimal64 bounds; lengths; patterns incl. invert-match; enum/bits/identityref) every boundary candidate is written through Set, SetValue, JSON, XML and node sources; a value outside the effective type must be rejected and leave the stored value unchanged; no check may panic. Over-rejections are counted, not alarmed.',
         'trusts the evaluator (regexp anchored, math/big); typed Set of enum/bits/identity labels is not asserted (conversion decides membership); leaf-list candidates are written alone, next to one member and between the lowest and highest member', 'DESIGN.md 3/C05'),
 'C06': ('exploration', 'runtime monitor: renderer-recorded denotations vs canonical dump through public accessors; dump equality across repeated loads and across worker processes',
         'Generated module texts cover the statement kinds and 6 quoting styles; the renderer records, for every argument, the exact string it denotes and where it must be read back; each expectation is looked up in the canonical dump. The same text is loaded 5 times in-process and in two different worker processes and the dumps must be identical.',
         'trusts the renderer inverse (string escaping rules of RFC 7950 6.1.3); constructs the grammar rejects (empty bodies of statements with mandatory sub-statements, concatenation where the grammar takes a single token) are outside the generator domain; two directed modules: conditions of the copies of a grouping node, sibling order under 13-40 augments', 'DESIGN.md 3/C06'),
 'C07': ('exploration', 'runtime monitor: model projection of the unconstrained tree vs token-decoded JSON of the constrained read (leaf path/value sets); store immutability; invalid values must error',
         'content, depth, fields, fc.xfields, with-defaults=trim, fc.range and fc.max-node-count singly, in pairs and triples, in one query or applied stepwise to an already constrained selection, on root / container / list / entry targets; the set of (path,value) leaves of the answer must equal the model projection; reads must not modify the store; invalid parameter values must be errors.',
         'trusts the projection model (c07params.project); empty containers compared at info level; window convention [a,b); fc.range windows the named list only; invalid values also through Constrain; state data also inside cases of configuration choices', 'DESIGN.md 3/C07'),
 'C13': ('exploration', 'crash/hang monitor: recovered panics, worker death, per-input cpu+rss watchdog; store read-back after every request',
         'Hostile request content against valid schemas: JSON shape mismatches at every document position x 10 kinds, missing/duplicate keys, all truncations and single-character mutations of documents, paths and queries, grammar-fuzz catalogs for paths, queries and XPath, XML shape mismatches, SetValue with every Go kind; any panic, fatal error or cpu/memory overrun is a violation; read-only requests must leave the store unchanged and the store must stay exportable.',
         'workers are separate processes; watchdog thresholds 20 s cpu / 3 GiB rss per input; targets: reference store and the reflection nodes over Go values (one in three nodeutil.Node stores with pass-through callbacks); lists without a key with the odd entry at every position', 'DESIGN.md 3/C13'),
 'C14': ('exploration', 'crash/hang monitor over corpus prefixes, token mutations, pathological shapes, reference cycles and opener faults; walker over every successful load',
         'Every byte prefix of every repository YANG file <= 2 KiB (token-boundary prefixes otherwise), sampled single/double token mutations, pathological nesting / concatenation / argument sizes, typedef / grouping / identity / import cycles and faulty openers are loaded in worker processes under panic recovery, fatal-error attribution and a per-input cpu/rss watchdog; every module that loads is walked through all public accessors.',
         'exhaustive only in truncation points per corpus text; mutations sampled; two product families: deviation target x deviate form x sub-statement, extension body x host statement', 'DESIGN.md 3/C14'),
 'C16': ('exploration', 'runtime monitor: truth oracle (math/big, code-point order, enum value) for leaf OP literal vs visibility in reads, edits, where rows and filtered notification events; differential run without the condition',
         'All 6 operators x 12 operand types x catalog values straddling the literal x {set, unset, unset with default} x placement {when on container, leaf, leaf-list, list (per entry), uses (incl. nested uses), augment; operands behind paths of 2-3 segments and parent (..) steps; own + inherited conditions stacked; where on top-level and nested lists; filter on a scripted notification stream; when during an edit}.',
         'literals inside the operand type; context node as the library documents (container: itself, leaf: parent); no absolute paths (not in the library grammar); paths through a list whose entries have a when of their own (every list of up to three entries over visible/hidden x satisfies/does not)', 'DESIGN.md 3/C16'),
 'C19': ('exploration', 'runtime monitor: encoding/xml strict parse of writer output vs model tree; ReadXMLDoc round trip into a capture store; sibling interleavings of reference documents',
         'Both XML writers (and pretty printing) on generated trees with an XML-hostile text catalog, whitespace family, all leaf types, second-module namespaces, submodule nodes, a namespace URI with reserved characters, documents starting below the root; output must be a single-root well-formed document denoting the tree; importing it must reproduce the tree; 5 random sibling interleavings of a reference encoding must import to the same tree.',
         'trusts encoding/xml; characters outside XML 1.0 excluded; namespace of grouping-derived nodes accepted as defining or using module; strings also reached through unions and unions inside unions', 'DESIGN.md 3/C19'),
 'C08': ('exploration', 'runtime monitor: model lookup oracle over every addressable node x path spelling x store; store immutability check',
         'For every container, list, entry and leaf of generated trees, Find with plain / module-qualified / trailing-slash / fully percent-encoded spellings, ../ paths from the node itself and paths with query parameters must select exactly the model node (schema identity, structured path chain, key values, exported content), the rendered path must lead back, absent keys select nothing, unknown names and names qualified with an unknown module are not-found errors.',
         'trusts the model tree and net/url escaping; stores: reference store, JSON reader, XML document (key texts also in non-canonical spellings), nodeutil.Reflect / nodeutil.Node over Go maps, slices and structs; schemas with an augmenting module, a submodule, a prefix that differs from the module name; enumeration keys whose names hold / , + % = and spaces', 'DESIGN.md 3/C08'),
 'C09': ('exploration', 'runtime monitor: invariant scan of the target store after every step of an upsert history + reference model (SwitchCase)',
         'After every upsert of histories of 2..12 steps that alternate cases (nested choices, shorthand cases, cases with leaves/leaf-lists/containers/lists, choices in lists) the store is scanned for choices holding data of two cases, compared with the model and exported.',
         'trusts dp.Apply/clearOtherCases (model); targets: reference store (also one that hands out nodes for containers holding nothing yet, and one whose new nodes hold data of a case already), nodeutil.Reflect and nodeutil.Node over Go maps (read back with package reflect)', 'DESIGN.md 3/C09'),
 'C12': ('fault_enumeration', 'runtime monitor: recorded callback trace + offline trace checker; every fault position k of every scenario enumerated',
         'Each scenario (operation x entry point x trees) is run once fault-free to measure its callback trace, then once per callback position with that callback failing on the source or target side; the offline checker verifies begin/end pairing per node identity, the set of notified nodes (none but edited nodes and the ancestors of the edit root, and each of those ancestors), wrapping of the injected error and absence of writes after the failure. Exhaustive in k per scenario; scenarios are sampled.',
         'trusts the recording wrapper (pass-through) and the reference store', 'DESIGN.md 3/C12'),
 'C18': ('exploration', 'runtime monitor: reference model (delete/replace) vs store read directly after every step + key-uniqueness scan + Find probes',
         'Histories of 3..15 delete / replace / insert / upsert operations (first, middle, last, only entry; whole list; container; delete-then-reinsert; several deletes through one held list selection; payloads stating another key than that of the addressed entry) are replayed against model and library; after each step the store equals the model, no list holds a duplicate key, the removed node is no longer found and remaining nodes are.',
         'trusts dp.DeleteAt/Apply (model); stores: reference store, nodeutil.Reflect / nodeutil.Node over Go maps, slices and reflect.StructOf structs (zero value = unset in struct shape); one in three nodeutil.Node stores carries pass-through callbacks (all, or a single On* field)', 'DESIGN.md 3/C18'),
 'C03': ('exploration', 'runtime monitor: executable reference model (keyed deep merge) vs target store read directly; error class via errors.Is',
         'Every edit call on a generated (schema, target, source, strategy, entry point, direction, source implementation) tuple and on histories of up to 6 such calls is compared with an executable model written from the statement; the target is a harness store read without any library read path. Held on the executions observed.',
         'trusts the model dp.Apply (60 lines); targets: reference store and the reflection nodes over Go maps / slices / structs, sources also JSON / XML readers and map-shaped reflection nodes; every third schema has choices (the model ends the data of the other cases for every strategy); half of the JSON sources use RFC 7951 qualified names; domain: no when, key-preserving edits', 'DESIGN.md 3/C03'),
 'C04': ('exploration', 'runtime monitor: write-logging capture store + encoding/json token-stream decoder vs model tree; round trip through the library reader',
         'Exports of generated trees (all leaf types, nested/compound-key lists, choices, augmenting module) are captured by a store that logs every write (exactly-once, schema order) and JSON output is decoded token by token with the standard library and compared with the model; the writer output is fed back through ReadJSON and exported again.',
         'trusts encoding/json and the model tree; decimal64 compared at float64 precision; every fourth case also exports from a reflection node over Go values (one in three nodeutil.Node stores with pass-through callbacks), and reads a slice-backed list through a held selection after a keyed request (slice order)', 'DESIGN.md 3/C04'),
 'C10': ('exploration', 'runtime monitor: denotation oracle (math/big) over the product target format x source kind x boundary catalog',
         'Every val.Conv result for ~30k (format, source) pairs per run is compared with the arbitrary-precision denotation of the source: error, or exactly the same number/text/truth value/sequence; in-range natural sources must convert.',
         'trusts math/big and strconv; decimal64 exactness is float64-nearest (documented representation); sources include named Go types over every scalar kind', 'DESIGN.md 3/C10'),
 'C15': ('exploration', 'runtime monitor: encoding/json token-stream oracle on writer output + failing io.Writer fault injection at byte positions',
         'Writer output for 8 configurations x start selections (root, container, list, entry, leaf) over trees (augmenting module, submodule nodes) with a JSON-hostile string catalog and nesting up to 70 is parsed by the standard library and compared with the model (names, RFC 7951 qualification, typing, string decoding, pretty==compact tokens); a failing stream is injected at boundary byte positions and must surface as an error.',
         'trusts encoding/json; int64/uint64/decimal64 accepted as number or string of the same digits', 'DESIGN.md 3/C15'),
 'C17': ('exploration', 'runtime monitor: law checking of Compare/Equal against math/big denotations + keyed-lookup differential vs model list',
         'All 65536 pairs of both 8-bit formats and all pairs/triples over boundary sets of every other comparable format are checked against an arbitrary-precision denotation on every run; lookups on slice/map stores (all integer widths, string, boolean, composite tuples, binary, decimal64, enumeration and union keys) are compared with a model list. Held-on-what-was-observed, exhaustive only for the 8-bit tables.',
         'trusts math/big, strings.Compare and the harness model list; wider formats are sampled at boundaries + seeded random values; unions of enumerations as keys; user-made Go maps whose key kind differs from that of the leaf (absent keys the map type cannot represent)', 'DESIGN.md 3/C17'),
}
not_impl_reason = 'check not implemented yet in this revision of /verif (see DESIGN.md for the planned monitor)'
m = {
 'version': 1,
 'setup_cmd': './check.sh --setup',
 'hooks': {
   'guard': 'verif',
   'enable': 'go build -tags verif (harness module replaces github.com/freeconf/yang => /repo); no guarded source exists in /repo',
   'baseline_off_cmd': 'cd /repo && GOFLAGS=-mod=mod GOPROXY=off GOSUMDB=off GOTOOLCHAIN=local go test -json -vet=off -count=1 -timeout 25m ./...',
   'source_commits': [],
   'add_only': True,
 },
 'engines': [{'name': 'vcheck', 'path': 'harness/cmd/vcheck', 'serves_properties': sorted(checks), 'kind_free_text': 'Go supervisor/worker runtime-monitoring harness: real library run in worker processes under recording, differential and crash/hang monitors; -race build for C20'}],
 'checks': [],
 'not_applicable': [],
 'notes': 'Runtime monitoring only. Verdicts are "held on the executions observed"; see DESIGN.md. known_findings.json lists recorded defects and fix commits.',
}
for i in ids:
    if i in checks:
        lvl, tech, text, note, ref = checks[i]
        m['checks'].append({
          'property_id': i, 'quick_cmd': f'./check.sh {i} quick', 'thorough_cmd': f'./check.sh {i} thorough',
          'evidence_file': f'evidence/{i}.json', 'replay_cmd_template': './check.sh --replay {path}', 'engine': 'vcheck',
          'level_claimed': {'category': lvl, 'text': text, 'design_ref': ref}, 'level_note': note, 'technique': tech})
    else:
        m['not_applicable'].append({'property_id': i, 'reason': not_impl_reason})
json.dump(m, open('MANIFEST.json', 'w'), indent=1)
try:
    import jsonschema
    jsonschema.validate(m, json.load(open('/root/.vp/MANIFEST.schema.json')))
    print('MANIFEST.json valid;', len(m['checks']), 'checks')
except ImportError:
    print('jsonschema not available; not validated')
