#!/bin/bash
# check.sh <Cxx> <quick|thorough>   run one property check against /repo's current working tree
# check.sh --setup                  warm the build cache (plain and -race)
# check.sh --replay <file>          re-run the case recorded in a replay file
set -u
cd "$(dirname "$0")"
export VERIF_ROOT="$PWD"
export GOFLAGS=-mod=mod GOPROXY=off GOSUMDB=off GOTOOLCHAIN=local
WORK="$VERIF_ROOT/.work/$$"
mkdir -p "$WORK"
trap 'rm -rf "$WORK"' EXIT

build() { # $1 = output, $2.. = extra flags
  local out="$1"; shift
  (cd harness && go build -tags verif "$@" -o "$out" ./cmd/vcheck) || { echo "harness error: build failed" >&2; exit 3; }
}

case "${1:-}" in
  --setup)
    build "$WORK/vcheck" && build "$WORK/vcheck-race" -race
    echo "setup ok"; exit 0 ;;
  --replay)
    f="${2:?replay file}"
    prop=$(python3 -c 'import json,sys; print(json.load(open(sys.argv[1]))["property"])' "$f") || exit 2
    if [ "$prop" = "C20" ]; then build "$WORK/vcheck" -race; export VERIF_RACE=1; else build "$WORK/vcheck"; fi
    "$WORK/vcheck" replay "$f"; exit $? ;;
  C[0-9][0-9])
    prop="$1"; tier="${2:-quick}"
    if [ "$prop" = "C20" ]; then build "$WORK/vcheck" -race; export VERIF_RACE=1; else build "$WORK/vcheck"; fi
    "$WORK/vcheck" run "$prop" --tier "$tier"; exit $? ;;
  *)
    echo "usage: $0 Cxx quick|thorough | --setup | --replay <file>" >&2; exit 2 ;;
esac
