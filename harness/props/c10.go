package props

import (
	"encoding/base64"
	"fmt"
	"math"
	"math/big"
	"reflect"
	"regexp"
	"strconv"
	"strings"

	"github.com/freeconf/yang/val"

	"verif/core"
)

// C10 — value conversion is exact or fails.
// Oracle: denotation of the source (big.Rat / string / bool / sequence) vs denotation of the result
// read back through Value() and String(). Deterministic; no library code in the expected side.

type c10 struct{}

func init() { core.Register(c10{}) }

func (c10) ID() string    { return "C10" }
func (c10) Level() string { return "exploration" }
func (c10) Rule() string {
	return "full product target format x source Go kind x boundary catalog through val.Conv / val.ConvOneOf, and schema-aware conversions " +
		"(enum, bits, identityref, union, leafref, and list forms) through node.NewValue / NewValuesByString on compiled types; result must be an " +
		"error or denote exactly the source (math/big). A shape is distinct per (target format, source kind, outcome class, magnitude class of the " +
		"source); trivial = nil source"
}
func (c10) Exhaustive(string) bool { return false }
func (c10) MinEvals(string) int    { return 20000 }

var c10scalarTargets = []val.Format{val.FmtInt8, val.FmtUInt8, val.FmtInt16, val.FmtUInt16, val.FmtInt32, val.FmtUInt32, val.FmtInt64, val.FmtUInt64,
	val.FmtDecimal64, val.FmtString, val.FmtBool, val.FmtBinary, val.FmtEmpty, val.FmtAny}

func (c10) NumCases(tier string, seed int64) int {
	n := len(c10scalarTargets) * 2 // scalar + list form
	n += c10SchemaCases()
	if tier == "thorough" {
		n += 40
	} else {
		n += 4
	}
	return n
}

func fmtRange(f val.Format) (lo, hi *big.Rat, ok bool) {
	mk := func(a int64, b uint64) (*big.Rat, *big.Rat, bool) {
		return new(big.Rat).SetInt64(a), new(big.Rat).SetInt(new(big.Int).SetUint64(b)), true
	}
	switch f.Single() {
	case val.FmtInt8:
		return mk(math.MinInt8, math.MaxInt8)
	case val.FmtInt16:
		return mk(math.MinInt16, math.MaxInt16)
	case val.FmtInt32:
		return mk(math.MinInt32, math.MaxInt32)
	case val.FmtInt64:
		return mk(math.MinInt64, math.MaxInt64)
	case val.FmtUInt8:
		return mk(0, math.MaxUint8)
	case val.FmtUInt16:
		return mk(0, math.MaxUint16)
	case val.FmtUInt32:
		return mk(0, math.MaxUint32)
	case val.FmtUInt64:
		return mk(0, math.MaxUint64)
	}
	return nil, nil, false
}

var numStr = regexp.MustCompile(`^[+-]?(\d+\.?\d*|\.\d+)([eE][+-]?\d+)?$`)
var goUnderscore = regexp.MustCompile(`^[+-]?\d+(_\d+)+$`)
var intStr = regexp.MustCompile(`^[+-]?\d+$`)
var plainUint = regexp.MustCompile(`^\d+$`)
var plainInt = regexp.MustCompile(`^-?\d+$`)

// srcDen: what number/text/bool a scalar source denotes.
type srcDen struct {
	kind string   // go kind name
	num  *big.Rat // nil if not a number
	nan  bool     // NaN / Inf float
	str  *string  // text denotation when source is a string
	b    *bool
}

func denoteSrc(v interface{}) srcDen {
	d := srcDen{kind: fmt.Sprintf("%T", v)}
	switch x := v.(type) {
	case string:
		d.str = &x
		// strconv accepts Go literal syntax: digit-separating underscores denote the same number
		y := x
		if goUnderscore.MatchString(x) {
			y = strings.ReplaceAll(x, "_", "")
		}
		if numStr.MatchString(y) {
			if r, ok := new(big.Rat).SetString(y); ok {
				d.num = r
			}
		}
	case bool:
		d.b = &x
	case float32:
		if math.IsNaN(float64(x)) || math.IsInf(float64(x), 0) {
			d.nan = true
		} else {
			d.num = new(big.Rat).SetFloat64(float64(x))
		}
	case float64:
		if math.IsNaN(x) || math.IsInf(x, 0) {
			d.nan = true
		} else {
			d.num = new(big.Rat).SetFloat64(x)
		}
	default:
		d.num = bigOf(v)
		if d.num == nil && v != nil {
			// a named Go type (type Count int) denotes what its underlying kind denotes
			switch rv := reflect.ValueOf(v); rv.Kind() {
			case reflect.Int, reflect.Int8, reflect.Int16, reflect.Int32, reflect.Int64:
				d.num = new(big.Rat).SetInt64(rv.Int())
			case reflect.Uint, reflect.Uint8, reflect.Uint16, reflect.Uint32, reflect.Uint64:
				d.num = new(big.Rat).SetInt(new(big.Int).SetUint64(rv.Uint()))
			case reflect.Float32, reflect.Float64:
				if f := rv.Float(); math.IsNaN(f) || math.IsInf(f, 0) {
					d.nan = true
				} else {
					d.num = new(big.Rat).SetFloat64(f)
				}
			case reflect.String:
				return denoteSrcAs(d.kind, rv.String())
			case reflect.Bool:
				b := rv.Bool()
				d.b = &b
			}
		}
	}
	return d
}

func denoteSrcAs(kind string, text string) srcDen {
	d := denoteSrc(text)
	d.kind = kind
	return d
}

// named Go types over the scalar kinds: sources a caller's own data structures hand to the conversion
type (
	c10Int   int
	c10Int8  int8
	c10Int64 int64
	c10Uint  uint
	c10U16   uint16
	c10U64   uint64
	c10F64   float64
	c10Str   string
	c10Bool  bool
)

func c10namedSources() []interface{} {
	return []interface{}{c10Int(-1), c10Int(0), c10Int(5), c10Int(-129), c10Int(70000), c10Int(math.MinInt64), c10Int8(-128), c10Int8(-1), c10Int8(127), c10Int64(-1), c10Int64(math.MinInt64), c10Int64(math.MaxInt64),
		c10Int64(1 << 40), c10Uint(0), c10Uint(300), c10Uint(math.MaxUint64), c10U16(65535), c10U16(7), c10U64(1 << 63), c10U64(math.MaxUint64), c10U64(255), c10F64(-1), c10F64(2), c10F64(3e9), c10F64(1 << 60), // whole numbers: the text of a float64 with a fraction part is the known finding string<-float64

		c10Str("5"), c10Str("-1"), c10Str("x"), c10Str(""), c10Bool(true), c10Bool(false)}
}

func magClass(r *big.Rat) string {
	if r == nil {
		return "nan"
	}
	neg := r.Sign() < 0
	a := new(big.Rat).Abs(r)
	cls := "0"
	th := []struct {
		n string
		v *big.Rat
	}{{"<=2^7", big.NewRat(128, 1)}, {"<=2^8", big.NewRat(256, 1)}, {"<=2^15", big.NewRat(32768, 1)}, {"<=2^16", big.NewRat(65536, 1)},
		{"<=2^31", big.NewRat(1<<31, 1)}, {"<=2^32", big.NewRat(1<<32, 1)}, {"<=2^53", big.NewRat(1<<53, 1)},
		{"<=2^63", new(big.Rat).SetInt(new(big.Int).Lsh(big.NewInt(1), 63))}, {"<=2^64", new(big.Rat).SetInt(new(big.Int).Lsh(big.NewInt(1), 64))}}
	if a.Sign() != 0 {
		cls = ">2^64"
		for _, t := range th {
			if a.Cmp(t.v) <= 0 {
				cls = t.n
				break
			}
		}
	}
	if !r.IsInt() {
		cls += "frac"
	}
	if neg {
		cls = "-" + cls
	}
	return cls
}

func c10scalarSources() []interface{} {
	var out []interface{}
	for _, v := range i64b {
		out = append(out, v)
		if v >= math.MinInt8 && v <= math.MaxInt8 {
			out = append(out, int8(v))
		}
		if v >= math.MinInt16 && v <= math.MaxInt16 {
			out = append(out, int16(v))
		}
		if v >= math.MinInt32 && v <= math.MaxInt32 {
			out = append(out, int32(v))
		}
		out = append(out, int(v), strconv.FormatInt(v, 10), float64(v))
	}
	for _, v := range u64b {
		out = append(out, v, uint(v), strconv.FormatUint(v, 10), float64(v))
		if v <= math.MaxUint8 {
			out = append(out, uint8(v))
		}
		if v <= math.MaxUint16 {
			out = append(out, uint16(v))
		}
		if v <= math.MaxUint32 {
			out = append(out, uint32(v))
		}
	}
	for _, f := range []float64{0.5, 0.7, -0.5, 3.7, -3.7, 127.5, 255.5, 1e19, -1e19, 1e300, math.Copysign(0, -1), math.NaN(), math.Inf(1), math.Inf(-1), 2.5e9, 1.5e-7, 4294967296.5} {
		out = append(out, f, strconv.FormatFloat(f, 'g', -1, 64))
		if math.Abs(f) < 1e30 || math.IsNaN(f) || math.IsInf(f, 0) {
			out = append(out, float32(f))
		}
	}
	out = append(out, "", " ", " 5", "5 ", "+5", "05", "-0", "0x10", "1e2", "1_000", "５", "abc", "true", "false", "1", "0", "yes", "no", "np", "on", "off", "nope", "maybe", "TRUE", "1.0", "1.", ".5", "--1",
		"18446744073709551616", "-9223372036854775809", "340282366920938463463374607431768211456", true, false,
		"aGVsbG8=", "@@@", "aGVsbG8", []byte("hello"), []byte{}, []byte{0, 255, 10})
	out = append(out, c10namedSources()...)
	return out
}

func kindOf(v interface{}) string {
	if v == nil {
		return "nil"
	}
	return reflect.TypeOf(v).String()
}

func (p c10) Run(c *core.Ctx, idx int) {
	nScalar := len(c10scalarTargets)
	switch {
	case idx < nScalar:
		f := c10scalarTargets[idx]
		srcs := c10scalarSources()
		for _, s := range srcs {
			p.checkScalar(c, "Conv", f, s, func() (val.Value, error) { return val.Conv(f, s) })
		}
		// nil source: (nil, nil) is the documented convention
		c.Eval()
		if v, err := val.Conv(f, nil); v != nil || err != nil {
			c.Violate("nil-source/"+f.String(), "Conv(%s,nil) = %v,%v", f, v, err)
		}
		c.SetSample(fmt.Sprintf("val.Conv(%s, x) for %d sources, e.g. %#v, %#v, %#v", f, len(srcs), srcs[0], srcs[7], srcs[len(srcs)-20]))
	case idx < 2*nScalar:
		f := c10scalarTargets[idx-nScalar].List()
		p.lists(c, f)
	case idx < 2*nScalar+c10SchemaCases():
		c10Schema(c, idx-2*nScalar)
	default:
		p.random(c)
	}
}

// natural source kinds that every reader relies on: these must convert when in range.
func mustConvert(f val.Format, s interface{}, d srcDen) bool {
	lo, hi, isInt := fmtRange(f)
	switch {
	case isInt:
		if d.num == nil || !d.num.IsInt() || d.num.Cmp(lo) < 0 || d.num.Cmp(hi) > 0 {
			return false
		}
		switch x := s.(type) {
		case int, int8, int16, int32, int64, uint, uint8, uint16, uint32, uint64:
			return true
		case float64:
			return math.Abs(x) <= 1<<53
		case string:
			if lo.Sign() == 0 {
				return plainUint.MatchString(x)
			}
			return plainInt.MatchString(x)
		}
	case f == val.FmtDecimal64:
		if d.num == nil {
			return false
		}
		switch x := s.(type) {
		case int, int8, int16, int32, uint8, uint16, uint32, float64, float32:
			return true
		case int64:
			return x >= -(1<<53) && x <= 1<<53
		case uint64:
			return x <= 1<<53
		case uint:
			return x <= 1<<53
		case string:
			return true
		}
	case f == val.FmtString:
		switch s.(type) {
		case string:
			return true
		}
	case f == val.FmtBool:
		switch x := s.(type) {
		case bool:
			return true
		case string:
			return x == "true" || x == "false"
		}
	}
	return false
}

func (p c10) checkScalar(c *core.Ctx, api string, f val.Format, s interface{}, call func() (val.Value, error)) {
	c.Eval()
	d := denoteSrc(s)
	tag := f.String() + "<-" + kindOf(s)
	var v val.Value
	var err error
	pv, st := core.Try(func() { v, err = call() })
	if pv != nil {
		c.Violate("panic/"+tag, "%s(%s, %#v) panicked: %v\n%s", api, f, s, pv, core.TrimStack(st))
		return
	}
	outcome := "err"
	if err == nil {
		outcome = "ok"
	}
	c.Shape("%s/%s/%s", tag, outcome, magClass(d.num))
	c.Count("outcome_" + outcome)
	if err != nil {
		if mustConvert(f, s, d) {
			c.Violate("must-convert/"+tag, "%s(%s, %#v) failed: %v — an in-range source of a natural kind must convert", api, f, s, err)
		}
		if v != nil {
			c.Violate("value-with-error/"+tag, "%s(%s, %#v) returned both value %v and error %v", api, f, s, v, err)
		}
		return
	}
	if v == nil {
		c.Violate("nil-nil/"+tag, "%s(%s, %#v) returned (nil, nil) for a non-nil source", api, f, s)
		return
	}
	if v.Format() != f {
		c.Violate("wrong-format/"+tag, "%s(%s, %#v) returned format %s", api, f, s, v.Format())
		return
	}
	p.checkDenotes(c, api, tag, f, s, d, v)
}

func (p c10) checkDenotes(c *core.Ctx, api, tag string, f val.Format, s interface{}, d srcDen, v val.Value) {
	lo, hi, isInt := fmtRange(f)
	switch {
	case isInt:
		got := bigOf(v.Value())
		if got == nil {
			c.Violate("unreadable/"+tag, "%s(%s,%#v): Value() is %T", api, f, s, v.Value())
			return
		}
		if d.num == nil {
			c.Violate("inexact/"+tag+"/not-a-number", "%s(%s, %#v) = %v although the source denotes no number", api, f, s, v)
			return
		}
		if got.Cmp(d.num) != 0 {
			cls := "changed"
			switch {
			case !d.num.IsInt():
				cls = "fraction-dropped"
			case d.num.Cmp(lo) < 0 || d.num.Cmp(hi) > 0:
				cls = "out-of-range-wrapped"
			}
			c.Violate("inexact/"+tag+"/"+cls, "%s(%s, %#v) = %v, source denotes %s", api, f, s, v, d.num.RatString())
			return
		}
		// String() must read back the same integer
		if back, ok := new(big.Rat).SetString(v.String()); !ok || back.Cmp(d.num) != 0 {
			c.Violate("string-readback/"+f.String(), "%s(%s, %#v).String() = %q", api, f, s, v.String())
		}
	case f == val.FmtDecimal64:
		got, _ := v.Value().(float64)
		if d.num == nil {
			if d.nan || math.IsNaN(got) || math.IsInf(got, 0) {
				c.Violate("inexact/"+tag+"/non-finite", "%s(%s, %#v) = %v: not a decimal64 number", api, f, s, got)
			} else {
				c.Violate("inexact/"+tag+"/not-a-number", "%s(%s, %#v) = %v although the source denotes no number", api, f, s, got)
			}
			return
		}
		if math.IsNaN(got) || math.IsInf(got, 0) {
			c.Violate("inexact/"+tag+"/non-finite", "%s(%s, %#v) = %v", api, f, s, got)
			return
		}
		// representation is float64 (documented): the nearest float64 of the denoted number is exact enough
		want, _ := d.num.Float64()
		if got != want {
			c.Violate("inexact/"+tag+"/changed", "%s(%s, %#v) = %v, nearest float64 of source is %v", api, f, s, got, want)
		}
	case f == val.FmtString:
		got := v.Value().(string)
		switch {
		case d.str != nil:
			if got != *d.str {
				c.Violate("inexact/"+tag+"/text-changed", "%s(%s, %#v) = %q", api, f, s, got)
			}
		case d.b != nil:
			if got != strconv.FormatBool(*d.b) {
				c.Violate("inexact/"+tag+"/bool-text", "%s(%s, %#v) = %q", api, f, s, got)
			}
		case d.num != nil:
			back, ok := new(big.Rat).SetString(got)
			if !ok || back.Cmp(d.num) != 0 {
				// float32 sources print their shortest float32 repr: accept if it parses to the same float32
				if f32, is := s.(float32); is && ok {
					if b32, _ := back.Float32(); b32 == f32 {
						break
					}
				}
				c.Violate("inexact/"+tag+"/number-text-changed", "%s(%s, %#v) = %q which does not denote %s", api, f, s, got, d.num.RatString())
			}
		}
		if v.String() != got {
			c.Violate("string-readback/string", "String()=%q Value()=%q", v.String(), got)
		}
	case f == val.FmtBool:
		got := v.Value().(bool)
		if d.b != nil && got != *d.b {
			c.Violate("inexact/"+tag+"/truth-changed", "%s(%s, %#v) = %v", api, f, s, got)
		}
		if d.str != nil && ((*d.str == "true" && !got) || (*d.str == "false" && got)) {
			c.Violate("inexact/"+tag+"/truth-changed", "%s(%s, %#v) = %v", api, f, s, got)
		}
		if text, isText := s.(string); isText {
			// a text converts to a boolean only if it is a word for that truth value
			word := strings.ToLower(strings.TrimSpace(text))
			yes := map[string]bool{"true": true, "1": true, "yes": true, "y": true, "on": true, "t": true}
			no := map[string]bool{"false": true, "0": true, "no": true, "n": true, "off": true, "f": true}
			if (got && !yes[word]) || (!got && !no[word]) {
				c.Violate("inexact/"+tag+"/not-a-word-for-it", "%s(%s, %q) = %v: the text is no word for %v", api, f, text, got, got)
			}
		}
		if d.num != nil && d.str == nil {
			c.Violate("inexact/"+tag+"/number-as-bool", "%s(%s, %#v) = %v", api, f, s, got)
		}
	case f == val.FmtBinary:
		got, _ := v.Value().([]byte)
		switch x := s.(type) {
		case []byte:
			if string(got) != string(x) {
				c.Violate("inexact/"+tag+"/bytes-changed", "%s(%s, %#v).Value() = %#v", api, f, s, got)
			}
		case string:
			dec, derr := base64.StdEncoding.DecodeString(x)
			if derr != nil {
				c.Violate("inexact/"+tag+"/invalid-base64-accepted", "%s(%s, %q) succeeded; Value() reads back %#v", api, f, x, got)
			} else if string(dec) != string(got) {
				c.Violate("inexact/"+tag+"/bytes-changed", "%s(%s, %q).Value() = %#v want %#v", api, f, x, got, dec)
			}
		}
	case f == val.FmtEmpty:
		if v != val.NotEmpty {
			c.Violate("inexact/"+tag+"/empty", "%s(%s, %#v) = %#v", api, f, s, v)
		}
	case f == val.FmtAny:
		if !reflect.DeepEqual(v.Value(), s) && !(d.nan) {
			c.Violate("inexact/"+tag+"/any", "%s(%s, %#v).Value() = %#v", api, f, s, v.Value())
		}
	}
}

// list targets: element-wise exactness, length and order preserved.
func (p c10) lists(c *core.Ctx, f val.Format) {
	single := f.Single()
	scal := c10scalarSources()
	r := c.Rand
	pick := func(pred func(interface{}) bool, n int) []interface{} {
		var out []interface{}
		for tries := 0; len(out) < n && tries < 2000; tries++ {
			s := scal[r.Intn(len(scal))]
			if pred(s) {
				out = append(out, s)
			}
		}
		return out
	}
	isKind := func(k string) func(interface{}) bool { return func(s interface{}) bool { return kindOf(s) == k } }
	var srcs []interface{}
	for rep := 0; rep < 40; rep++ {
		n := r.Intn(4)
		var ifs []interface{}
		switch rep % 4 {
		case 0:
			ifs = pick(isKind("float64"), n)
		case 1:
			ifs = pick(isKind("string"), n)
		case 2:
			ifs = pick(isKind("int"), n)
		default:
			ifs = pick(func(interface{}) bool { return true }, n)
		}
		if ifs == nil {
			ifs = []interface{}{}
		}
		srcs = append(srcs, ifs)
		// typed slices
		var fl []float64
		var ss []string
		var is []int
		var i64s []int64
		var u64s []uint64
		var bs []bool
		for _, x := range pick(isKind("float64"), n) {
			fl = append(fl, x.(float64))
		}
		for _, x := range pick(isKind("string"), n) {
			ss = append(ss, x.(string))
		}
		for _, x := range pick(isKind("int"), n) {
			is = append(is, x.(int))
		}
		for _, x := range pick(isKind("int64"), n) {
			i64s = append(i64s, x.(int64))
		}
		for _, x := range pick(isKind("uint64"), n) {
			u64s = append(u64s, x.(uint64))
		}
		for _, x := range pick(isKind("bool"), n) {
			bs = append(bs, x.(bool))
		}
		srcs = append(srcs, fl, ss, is, i64s, u64s, bs)
	}
	srcs = append(srcs, []byte{0, 255, 10}, []byte{}, []uint16{7, 65535}, []int8{-128, 127}, []interface{}{"1", 2, 3.0, int64(4)}, []interface{}{nil})
	// a scalar given where a list is wanted: allowed to become a one element list
	for i := 0; i < 60; i++ {
		srcs = append(srcs, scal[r.Intn(len(scal))])
	}
	for _, s := range srcs {
		c.Eval()
		tag := f.String() + "<-" + kindOf(s)
		var v val.Value
		var err error
		pv, st := core.Try(func() { v, err = val.Conv(f, s) })
		if pv != nil {
			c.Violate("panic/"+tag, "Conv(%s, %#v) panicked: %v\n%s", f, s, pv, core.TrimStack(st))
			continue
		}
		rv := reflect.ValueOf(s)
		isSlice := rv.Kind() == reflect.Slice && !(kindOf(s) == "[]uint8" && single == val.FmtBinary)
		outcome := "ok"
		if err != nil {
			outcome = "err"
		}
		n := -1
		if isSlice {
			n = rv.Len()
		}
		c.Shape("%s/%s/len%d", tag, outcome, n)
		if err != nil {
			if v != nil {
				c.Violate("value-with-error/"+tag, "Conv(%s, %#v) returned both %v and %v", f, s, v, err)
			}
			continue
		}
		if v == nil {
			c.Violate("nil-nil/"+tag, "Conv(%s, %#v) returned (nil,nil)", f, s)
			continue
		}
		if single == val.FmtEmpty || single == val.FmtAny {
			continue
		}
		wantFmt := f
		if f == val.FmtBinaryList {
			wantFmt = val.FmtStringList // documented quirk: binary lists are carried as string lists
		}
		if v.Format() != wantFmt {
			c.Violate("wrong-format/"+tag, "Conv(%s, %#v) returned format %s", f, s, v.Format())
			continue
		}
		l, ok := v.(val.Listable)
		if !ok {
			c.Violate("not-listable/"+tag, "Conv(%s, %#v) = %T", f, s, v)
			continue
		}
		var elems []interface{}
		if isSlice {
			for i := 0; i < rv.Len(); i++ {
				elems = append(elems, rv.Index(i).Interface())
			}
		} else {
			elems = []interface{}{s}
		}
		if f == val.FmtBinaryList && kindOf(s) == "[]uint8" {
			continue // one binary value or a list of octets: ambiguous source, not asserted
		}
		if l.Len() != len(elems) {
			c.Violate("list-length/"+tag, "Conv(%s, %#v) has %d elements", f, s, l.Len())
			continue
		}
		for i, e := range elems {
			if f == val.FmtBinaryList {
				continue
			}
			item := l.Item(i)
			p.checkDenotes(c, "Conv[elem]", single.String()+"-list-elem<-"+kindOf(e), single, e, denoteSrc(e), item)
		}
	}
	c.SetSample(fmt.Sprintf("val.Conv(%s, x) for %d slice/scalar sources", f, len(srcs)))
}

func (p c10) random(c *core.Ctx) {
	r := c.Rand
	ints := []val.Format{val.FmtInt8, val.FmtUInt8, val.FmtInt16, val.FmtUInt16, val.FmtInt32, val.FmtUInt32, val.FmtInt64, val.FmtUInt64, val.FmtDecimal64, val.FmtString}
	for n := 0; n < 5000; n++ {
		f := ints[r.Intn(len(ints))]
		var s interface{}
		bits := uint(r.Intn(65))
		u := r.Uint64()
		if bits < 64 {
			u &= (1 << bits) - 1
		}
		switch r.Intn(9) {
		case 0:
			s = int64(u)
		case 1:
			s = u
		case 2:
			s = int(int64(u))
		case 3:
			s = float64(int64(u))
		case 4:
			s = float64(int64(u)) / 8
		case 5:
			s = strconv.FormatUint(u, 10)
		case 6:
			s = "-" + strconv.FormatUint(u, 10)
		case 7:
			s = int32(u)
		default:
			s = uint32(u)
		}
		p.checkScalar(c, "Conv", f, s, func() (val.Value, error) { return val.Conv(f, s) })
		if n%10 == 0 {
			// ConvOneOf picks the first format that converts; the result must denote the source in that format
			fs := []val.Format{ints[r.Intn(8)], ints[r.Intn(8)], val.FmtString}
			c.Eval()
			var v val.Value
			var got val.Format
			var err error
			pv, _ := core.Try(func() { v, got, err = val.ConvOneOf(fs, s) })
			if pv != nil {
				c.Violate("panic/ConvOneOf", "ConvOneOf(%v, %#v) panicked: %v", fs, s, pv)
			} else if err == nil {
				if v == nil || v.Format() != got {
					c.Violate("convoneof/format", "ConvOneOf(%v,%#v) = %v,%v", fs, s, v, got)
				} else {
					p.checkDenotes(c, "ConvOneOf", got.String()+"<-"+kindOf(s), got, s, denoteSrc(s), v)
				}
			}
		}
	}
	c.SetSample("5000 random integers of random bit width as int64/uint64/int/float64/string sources into random numeric/string targets")
}
