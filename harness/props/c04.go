package props

import (
	"encoding/json"
	"fmt"
	"sort"
	"strings"

	"github.com/freeconf/yang/node"
	"github.com/freeconf/yang/nodeutil"

	"verif/core"
	"verif/dp"
)

// C04 — export and JSON round trip reproduce exactly the data present.

type c04 struct{}

func init() { core.Register(c04{}) }

func (c04) ID() string    { return "C04" }
func (c04) Level() string { return "exploration" }
func (c04) Rule() string {
	return "generated schema (all leaf types, nested lists with single/compound keys, choices, augmenting module) + conforming tree; " +
		"monitors: (1) export through UpsertInto a write-logging capture store == model tree, each leaf/container/entry exactly once, schema order, " +
		"entries in source order; (2) WriteJSON parsed as encoding/json token stream == model tree; (3) ReadJSON(WriteJSON(t)) exported again == " +
		"export of t; (1b) every fourth case: the same tree held in Go maps / slices / reflect.StructOf structs and read by nodeutil.Reflect or " +
		"nodeutil.Node, export and WriteJSON == model tree. A shape = (tree shape fingerprint, source implementation, writer config); trivial = empty tree"
}
func (c04) MinEvals(string) int { return 300 }

func (c04) NumCases(tier string, seed int64) int {
	if tier == "thorough" {
		return 6000
	}
	return 600
}

func c04Gen(c *core.Ctx, idx int) (*dp.Schema, *dp.DNode, bool) {
	r := c.Rand
	o := dp.DefaultGen()
	o.Choices = idx%3 != 0
	o.NestedChoice = idx%6 == 1
	o.Aug = idx%5 == 2
	o.Sub = idx%5 == 4
	o.ListsOfAll = true
	o.NumericEnumNames = true
	o.Presence = true
	o.NonConfig = idx%2 == 0
	o.MaxDepth = 2 + r.Intn(3)
	if idx%7 == 3 {
		// one leaf type at a time, hostile values
		o.Types = []string{dp.AllTypes[(idx/7)%len(dp.AllTypes)]}
	}
	if gm := c04GoMode(idx); gm != nil {
		// a schema one of the library's reflection nodes can hold: it becomes a second export source
		dp.GoGen(&o, *gm)
		o.Choices = o.Choices && gm.Shape == "map"
		o.Aug = false
	}
	s := dp.GenSchema(r, o)
	if err := s.Compile(); err != nil {
		c.R.Inconclusive = "generated schema does not compile: " + head(err.Error(), 300)
		return nil, nil, false
	}
	do := dp.DefaultData()
	do.Hostile = idx%2 == 0
	do.MaxEntries = 1 + r.Intn(4)
	t := dp.GenTree(r, s, do)
	if gm := c04GoMode(idx); gm != nil && gm.Shape == "struct" {
		// an entry that is all zero values (key 0, nothing else set) ahead of the others: present like any other entry
		var zero func(d *dp.DNode)
		zero = func(d *dp.DNode) {
			for _, l := range d.Lists {
				if len(l.S.Keys) == 1 && r.Intn(2) == 0 {
					switch k := l.S.Child(l.S.Keys[0]); k.Type.Base {
					case "int8", "int16", "int32", "int64", "uint8", "uint16", "uint32", "uint64":
						if k.Type.Wrap == "" {
							if dup, _ := l.Find([]string{"0"}); dup == nil {
								e := dp.NewDNode(l.S)
								e.Leaves[k.Name] = &dp.LVal{V: []string{"0"}}
								l.Entries = append([]*dp.DNode{e}, l.Entries...)
							}
						}
					}
				}
				for _, e := range l.Entries {
					zero(e)
				}
			}
			for _, k := range d.Kids {
				zero(k)
			}
		}
		zero(t)
	}
	return s, t, true
}

// c04GoMode: every fourth case also exports from a reflection node over plain Go values
func c04GoMode(idx int) *dp.GoMode {
	if idx%4 != 1 {
		return nil
	}
	m := dp.GoModes[(idx/4)%len(dp.GoModes)]
	return &m
}

func head(s string, n int) string {
	if len(s) > n {
		return s[:n] + "..."
	}
	return s
}

// exportTo runs the library's export of sel into a fresh capture store.
func exportTo(c *core.Ctx, s *dp.Schema, sel *node.Selection) (*dp.Capture, error) {
	capt := dp.NewCapture(s)
	var err error
	err = sel.UpsertInto(capt.Node())
	return capt, err
}

func (p c04) Run(c *core.Ctx, idx int) {
	s, t, ok := c04Gen(c, idx)
	if !ok {
		return
	}
	leaves, conts, entries := t.Count()
	c.CountN("leaves", leaves)
	c.CountN("containers", conts)
	c.CountN("entries", entries)
	if leaves+conts+entries > 0 {
		c.Shape("%s", t.Shape())
	}
	c.SetSample(map[string]interface{}{"yang": s.Yang(), "tree": t.Dump(s)})
	wit := func() string { return "schema:\n" + s.Yang() + s.AugYang() + s.SubYang() + "tree:\n" + t.Dump(s) }

	// (1) export from the reference store
	src := dp.NewStore(s, t.Clone())
	b := src.Browser()
	c.Eval()
	capt, err := exportTo(c, s, b.Root())
	if err != nil {
		c.Violate("export/refstore/error", "UpsertInto(capture) failed: %v\n%s", err, wit())
		return
	}
	cmp := dp.CmpOpts{DefaultsMayAppear: true}
	if d := dp.Diff(s, t, capt.Root, cmp); d != "" {
		c.Violate("export/refstore/"+diffClass(d), "export differs from the data present:\n%s\n%s", d, wit())
	}
	for _, pr := range capt.OrderProblems() {
		c.Violate("export/refstore/"+strings.SplitN(pr, ":", 2)[0], "%s\n%s", pr, wit())
	}
	for _, pr := range capt.Problems {
		c.Violate("export/refstore/protocol", "%s\n%s", pr, wit())
	}
	if d := dp.Diff(s, t, src.Root, dp.CmpOpts{}); d != "" {
		c.Violate("export/modified-source", "reading changed the source:\n%s\n%s", d, wit())
	}

	// (1b) export and JSON from a reflection node over Go values the harness filled itself
	if gm := c04GoMode(idx); gm != nil && dp.GoSupports(s, *gm) == "" {
		g := dp.NewGoStore(c.Rand, s, *gm, t.Clone())
		want := t
		gcmp := dp.CmpOpts{DefaultsMayAppear: true, IgnoreListOrder: true, EmptyListIsAbsent: true}
		if gm.Shape == "struct" {
			// a struct field cannot say "unset": both sides without zero values
			want = dp.ZeroNormalize(t)
		}
		norm := func(d *dp.DNode) *dp.DNode {
			if gm.Shape == "struct" {
				return dp.ZeroNormalize(d)
			}
			return d
		}
		c.Eval()
		c.Count("source_" + gm.String())
		var gcapt *dp.Capture
		if !c.Guard("export from "+gm.String(), func() { gcapt, err = exportTo(c, s, g.Browser().Root()) }) {
			if err != nil {
				c.Violate("export/"+gm.String()+"/"+errClassText(err), "export from a %s source failed: %v\nlists: %v\n%s", gm, err, g.Repr, wit())
			} else if d := dp.Diff(s, want, norm(gcapt.Root), gcmp); d != "" {
				c.Violate("export/"+gm.String()+"/"+diffClass(d)+typeClass(s, d), "export from a %s source differs from the data present:\n%s\n%s", gm, d, wit())
			}
		}
		c.Eval()
		var js string
		if !c.Guard("JSON from "+gm.String(), func() { js, err = nodeutil.WriteJSON(g.Browser().Root()) }) {
			if err != nil {
				c.Violate("json/"+gm.String()+"/write-error", "WriteJSON from a %s source: %v\n%s", gm, err, wit())
			} else {
				jd := dp.DecodeJSON(s, nil, js, dp.JOpts{})
				if len(jd.Problems) > 0 {
					c.Violate("json/"+gm.String()+"/"+strings.SplitN(jd.Problems[0], ":", 2)[0], "WriteJSON from a %s source: %s\njson: %s\n%s", gm, jd.Problems[0], head(js, 1500), wit())
				} else if d := dp.Diff(s, want, norm(jd.Tree), gcmp); d != "" {
					c.Violate("json/"+gm.String()+"/"+diffClass(d)+typeClass(s, d), "WriteJSON from a %s source differs from the data present:\n%s\njson: %s\n%s", gm, d, head(js, 1500), wit())
				}
			}
		}
		// (1c) a list selection that is held across requests: a keyed request that finds an existing entry (an upsert of nothing but its key)
		// and then a read through the same selection. Lists kept in Go slices have an order of their own, the order of the slice, and the read
		// has to follow it whatever the node has looked up before.
		var names []string
		for name, ml := range t.Lists {
			if g.Repr[ml.S] != dp.ReprMap && len(ml.Entries) >= 2 {
				names = append(names, name)
			}
		}
		sort.Strings(names)
		for _, name := range names {
			ml := t.Lists[name]
			e := ml.Entries[c.Rand.Intn(len(ml.Entries))]
			keyOnly := dp.NewDNode(ml.S)
			for _, k := range ml.S.Keys {
				if l := e.Leaves[k]; l != nil {
					keyOnly.Leaves[k] = l.Clone()
				}
			}
			doc := dp.EncodeJSONList(s, &dp.DList{S: ml.S, Entries: []*dp.DNode{keyOnly}}, dp.JOpts{})
			c.Eval()
			c.Count("held_list_selection_reads")
			var js string
			var uerr error
			if c.Guard("held list selection: keyed upsert then read", func() {
				var lsel *node.Selection
				lsel, err = g.Browser().Root().Find(name)
				if err != nil || lsel == nil {
					err = fmt.Errorf("Find(%q): %v", name, err)
					return
				}
				var src node.Node
				if src, err = nodeutil.ReadJSON(doc); err != nil {
					return
				}
				uerr = lsel.UpsertFrom(src)
				js, err = nodeutil.WriteJSON(lsel)
			}) {
				continue
			}
			if err != nil || uerr != nil {
				c.Violate("held-selection/"+gm.String()+"/error", "keyed upsert (%v) then WriteJSON (%v) through one held selection of list %s failed\nupserted: %s\nlists: %v\n%s", uerr, err, name, doc, g.Repr, wit())
				continue
			}
			jd := dp.DecodeJSON(s, nil, js, dp.JOpts{})
			if len(jd.Problems) > 0 {
				c.Violate("held-selection/"+gm.String()+"/"+strings.SplitN(jd.Problems[0], ":", 2)[0], "WriteJSON through a held list selection: %s\njson: %s\n%s", jd.Problems[0], head(js, 1500), wit())
				continue
			}
			got := jd.Tree.Lists[name]
			var gk, wk []string
			if got != nil {
				for _, x := range got.Entries {
					gk = append(gk, strings.Join(x.Key(), ","))
				}
			}
			for _, x := range ml.Entries {
				wk = append(wk, strings.Join(x.Key(), ","))
			}
			c.Shape("held-selection/%s/%s/entries=%d", gm, g.Repr[ml.S], min(len(wk), 6))
			if strings.Join(gk, "\x01") != strings.Join(wk, "\x01") {
				c.Violate("held-selection/"+gm.String()+"/order", "list %s (%s) read through a selection that had served a keyed upsert of the existing key %q: entries come as %q, the slice holds %q\njson: %s\n%s", name, g.Repr[ml.S], strings.Join(e.Key(), ","), gk, wk, head(js, 1500), wit())
			}
		}
		if snap, e := g.Snapshot(); e != nil {
			c.Violate("export/"+gm.String()+"/source-corrupt", "%v\n%s", e, wit())
		} else if d := dp.Diff(s, want, snap, dp.CmpOpts{IgnoreListOrder: true, EmptyListIsAbsent: true}); d != "" {
			c.Violate("export/"+gm.String()+"/modified-source", "reading changed the Go values:\n%s\n%s", d, wit())
		}
	}

	// (2) JSON in the four writer configurations
	for cfg := 0; cfg < 4; cfg++ {
		w := nodeutil.JSONWtr{Pretty: cfg&1 != 0, QualifyNamespace: cfg&2 != 0}
		c.Eval()
		var js string
		if c.Guard("JSONWtr.JSON", func() { js, err = w.JSON(b.Root()) }) {
			continue
		}
		cfgName := fmt.Sprintf("pretty=%v,qualified=%v", w.Pretty, w.QualifyNamespace)
		if err != nil {
			c.Violate("json/write-error", "JSONWtr{%s}.JSON: %v\n%s", cfgName, err, wit())
			continue
		}
		jd := dp.DecodeJSON(s, nil, js, dp.JOpts{Qualify: w.QualifyNamespace})
		for _, pr := range jd.Problems {
			cls := strings.SplitN(pr, ":", 2)[0]
			if strings.HasPrefix(cls, "name/qualification") {
				continue // naming is C15's business
			}
			c.Violate("json/"+cls, "JSONWtr{%s}: %s\njson: %s\n%s", cfgName, pr, head(js, 1500), wit())
		}
		if len(jd.Problems) == 0 {
			if d := dp.Diff(s, t, jd.Tree, cmp); d != "" {
				c.Violate("json/"+diffClass(d), "JSONWtr{%s} output differs from the data present:\n%s\njson: %s\n%s", cfgName, d, head(js, 1500), wit())
			}
		}
		c.Count("json_docs")

		// (3) round trip through the library's own reader
		if cfg == 0 || cfg == 2 {
			c.Eval()
			var rd node.Node
			if c.Guard("ReadJSON", func() { rd, err = nodeutil.ReadJSON(js) }) {
				continue
			}
			if err != nil {
				if len(jd.Problems) == 0 {
					c.Violate("roundtrip/read-error", "ReadJSON of the writer's own output failed: %v\njson: %s", err, head(js, 1500))
				}
				continue
			}
			var capt2 *dp.Capture
			if c.Guard("roundtrip export", func() { capt2, err = exportTo(c, s, node.NewBrowser(s.Mod, rd).Root()) }) {
				continue
			}
			if err != nil {
				c.Violate("roundtrip/"+errClassText(err), "export of ReadJSON(WriteJSON(t)) failed: %v\njson: %s\n%s", err, head(js, 1500), wit())
				continue
			}
			if d := dp.Diff(s, capt.Root, capt2.Root, dp.CmpOpts{DefaultsMayAppear: true}); d != "" {
				c.Violate("roundtrip/"+diffClass(d)+typeClass(s, d), "ReadJSON(WriteJSON(t)) exports differently (qualified=%v):\n%s\njson: %s\n%s", w.QualifyNamespace, d, head(js, 1500), wit())
			}
			for _, pr := range capt2.OrderProblems() {
				c.Violate("roundtrip/"+strings.SplitN(pr, ":", 2)[0], "%s\njson: %s", pr, head(js, 1500))
			}
			c.Count("roundtrips")
		}
	}
}

// diffClass reduces a diff to the kind of its first difference.
func diffClass(d string) string {
	first := strings.SplitN(d, "\n", 2)[0]
	switch {
	case strings.Contains(first, "actual <unset>"):
		return "missing-leaf"
	case strings.Contains(first, "expected <unset>"):
		return "extra-leaf"
	case strings.Contains(first, "expected \"") || strings.Contains(first, "expected ["):
		return "value-changed"
	case strings.Contains(first, "container not expected"):
		return "extra-container"
	case strings.Contains(first, "container expected"):
		return "missing-container"
	case strings.Contains(first, "list presence"):
		return "list-presence"
	case strings.Contains(first, "entries"):
		return "entry-count"
	case strings.Contains(first, "expected key"):
		return "entry-order"
	case strings.Contains(first, "entry expected"):
		return "missing-entry"
	case strings.Contains(first, "entry not expected"):
		return "extra-entry"
	case strings.Contains(first, "does not define"):
		return "not-in-schema"
	}
	return "other"
}

// typeClass appends the YANG type of the first differing leaf (narrow signatures for value defects).
func typeClass(s *dp.Schema, d string) string {
	first := strings.SplitN(d, "\n", 2)[0]
	i := strings.Index(first, ":")
	if i < 0 {
		return ""
	}
	path := strings.Split(strings.Trim(first[:i], "/"), "/")
	var cur *dp.SNode
	for _, seg := range path {
		name := seg
		if j := strings.Index(seg, "="); j >= 0 {
			name = seg[:j]
		}
		if cur == nil {
			cur = s.TopChild(name)
		} else {
			cur = cur.Child(name)
		}
		if cur == nil {
			return ""
		}
	}
	if cur.Type != nil {
		t := cur.Type.Base
		if cur.Kind == dp.LeafList {
			t += "-list"
		}
		return "/" + t
	}
	return ""
}

func errClassText(err error) string {
	s := err.Error()
	switch {
	case strings.Contains(s, "could not find ident"):
		return "error/identity-lookup"
	case strings.Contains(s, "cannot coerse") || strings.Contains(s, "could not coerce") || strings.Contains(s, "could not convert"):
		// keep the target type in the class
		for _, t := range dp.AllTypes {
			if strings.Contains(s, t) {
				return "error/convert-" + t
			}
		}
		return "error/convert"
	case strings.Contains(s, "Expected {"):
		return "error/list-shape"
	}
	return "error/other"
}

func jsonUnmarshal(s string, v interface{}) error { return json.Unmarshal([]byte(s), v) }
