package props

import (
	"fmt"
	"io"
	"math/rand"
	"sort"
	"strings"

	"github.com/freeconf/yang/meta"
	"github.com/freeconf/yang/parser"

	"verif/core"
	"verif/walk"
)

// C01 — compiled schema equals the RFC 7950 expansion of uses / augment / refine / include.
//
// The generator draws the SEMANTIC tree first (the tree a conforming compiler must produce), then spells
// it in several ways by meaning-preserving outlining steps (each the inverse of something the resolver
// does). The oracle renders the semantic tree into the same reduced form as the compiled tree.

type c01 struct{}

func init() { core.Register(c01{}) }

func (c01) ID() string    { return "C01" }
func (c01) Level() string { return "exploration" }
func (c01) Rule() string {
	return "semantic schema tree (containers, lists, leaves, leaf-lists, choices/cases; config, default, description, presence, mandatory, min/max-elements, " +
		"keys; planned reuse: a sub-forest instantiated 2..3 times with refine-able differences) spelled as (1) inline, (2..k) factored by PRNG-chosen " +
		"outlining: runs of siblings into groupings at module level / local to an ancestor / in a submodule / in an imported module, reuse through one " +
		"grouping + refines, suffixes of children into module-level and uses-level augments, top-level definitions into a submodule, decoys under a " +
		"disabled feature. Oracles: reduced dump of every spelling == semantic tree (order, config inheritance, refined properties, parent linkage); " +
		"all spellings equal; no node object shared between two expansions; config true under config false is an error. " +
		"A shape = (outlining steps used, tree size class, reuse count)"
}
func (c01) MinEvals(string) int { return 500 }

func (c01) NumCases(tier string, seed int64) int {
	if tier == "thorough" {
		return 4000
	}
	return 400
}

// ---- semantic tree ---------------------------------------------------------------------------------

type sn struct {
	kind      string // container list leaf leaf-list choice case
	name      string
	cfgStmt   *bool // stated config
	cfg       bool  // effective
	dflt      string
	desc      string
	presence  bool
	mandatory bool
	min, max  int    // 0 = unset
	unbStmt   bool   // "max-elements unbounded" is stated (max == 0)
	resolved  string // type the leafref of this copy leads to (typ is the typedef c01lr: leafref "../rid")
	keys      []string
	typ       string
	kids      []*sn
	// planned reuse: nodes with the same tmpl id>0 are instances of one template forest
	tmpl int
	inst int
	// inOp: the node sits inside an action / rpc / notification (config does not apply there)
	inOp bool
}

type gen1 struct {
	r     *rand.Rand
	seq   int
	noOps int // > 0: no actions / notifications here (inside one already, or in a refine template)
}

func isOp(kind string) bool {
	return kind == "action" || kind == "notification" || kind == "rpc"
}

func markOp(f []*sn) {
	for _, n := range f {
		n.inOp = true
		n.cfgStmt = nil
		markOp(n.kids)
	}
}

// ops gives a container / list (or the module: top) an action and / or a notification of its own, YANG 1.1 style.
func (g *gen1) ops(top bool) []*sn {
	if g.noOps > 0 {
		return nil
	}
	var out []*sn
	g.noOps++
	if g.r.Intn(4) == 0 {
		a := &sn{kind: "action", name: g.nm("act")}
		a.kids = []*sn{{kind: "input", kids: g.forest(1, 2)}, {kind: "output", kids: g.forest(1, 2)}}
		out = append(out, a)
	}
	if g.r.Intn(5) == 0 {
		out = append(out, &sn{kind: "notification", name: g.nm("ev"), kids: g.forest(1, 2)})
	}
	g.noOps--
	markOp(out)
	return out
}

func (g *gen1) nm(p string) string { g.seq++; return fmt.Sprintf("%s%d", p, g.seq) }

func (g *gen1) leaf() *sn {
	n := &sn{kind: "leaf", name: g.nm([]string{"l", "leafy", "type-x", "key"}[g.r.Intn(4)]), typ: []string{"string", "int32", "boolean", "uint8"}[g.r.Intn(4)]}
	if g.r.Intn(3) == 0 {
		n.desc = "d-" + n.name
	}
	if g.r.Intn(4) == 0 {
		n.dflt = map[string]string{"string": "dv", "int32": "7", "boolean": "true", "uint8": "3"}[n.typ]
	} else if g.r.Intn(6) == 0 {
		n.mandatory = true
	}
	return n
}

func (g *gen1) forest(depth, width int) []*sn {
	n := 1 + g.r.Intn(width)
	var out []*sn
	for i := 0; i < n; i++ {
		k := g.r.Intn(10)
		switch {
		case k < 4 || depth <= 0:
			out = append(out, g.leaf())
		case k < 5:
			ll := &sn{kind: "leaf-list", name: g.nm("ll"), typ: "string", max: g.r.Intn(2) * 5}
			ll.unbStmt = ll.max == 0 && g.r.Intn(3) == 0
			out = append(out, ll)
		case k < 7:
			c := &sn{kind: "container", name: g.nm("c"), kids: g.forest(depth-1, width), presence: g.r.Intn(5) == 0}
			if g.r.Intn(3) == 0 {
				c.desc = "d-" + c.name
			}
			c.kids = append(g.ops(false), c.kids...)
			out = append(out, c)
		case k < 9:
			l := &sn{kind: "list", name: g.nm("list"), min: g.r.Intn(2) * 2, unbStmt: g.r.Intn(3) == 0}
			kl := &sn{kind: "leaf", name: g.nm("k"), typ: "string"}
			l.keys = []string{kl.name}
			l.kids = append([]*sn{kl}, g.forest(depth-1, width)...)
			l.kids = append(g.ops(false), l.kids...)
			out = append(out, l)
		default:
			ch := &sn{kind: "choice", name: g.nm("ch")}
			for j := 0; j < 2; j++ {
				cs := &sn{kind: "case", name: g.nm("cs")}
				cs.kids = g.forest(depth-1, 2)
				ch.kids = append(ch.kids, cs)
			}
			out = append(out, ch)
		}
	}
	for _, n := range out {
		if g.r.Intn(6) == 0 && n.kind != "case" {
			f := false
			n.cfgStmt = &f
		}
	}
	return out
}

func cloneForest(f []*sn) []*sn {
	var out []*sn
	for _, n := range f {
		c := *n
		c.kids = cloneForest(n.kids)
		c.keys = append([]string(nil), n.keys...)
		out = append(out, &c)
	}
	return out
}

func setEffective(f []*sn, cfg bool) {
	for _, n := range f {
		c := cfg
		if n.cfgStmt != nil {
			c = *n.cfgStmt
		}
		n.cfg = c
		setEffective(n.kids, c)
	}
}

// reduced rendering of the semantic tree.
func renderSem(f []*sn, ind string, b *strings.Builder) {
	// data nodes in their order, then the actions and the notifications by name
	var data, ops []*sn
	for _, n := range f {
		if isOp(n.kind) {
			ops = append(ops, n)
		} else {
			data = append(data, n)
		}
	}
	sort.SliceStable(ops, func(i, j int) bool { return ops[i].kind+" "+ops[i].name < ops[j].kind+" "+ops[j].name })
	for _, n := range append(data, ops...) {
		kids := n.kids
		if n.kind == "choice" {
			kids = append([]*sn(nil), n.kids...)
			sort.Slice(kids, func(i, j int) bool { return kids[i].name < kids[j].name })
		}
		if isOp(n.kind) || n.kind == "input" || n.kind == "output" {
			fmt.Fprintf(b, "%s%s %s\n", ind, n.kind, n.name)
			renderSem(kids, ind+"  ", b)
			continue
		}
		fmt.Fprintf(b, "%s%s %s", ind, n.kind, n.name)
		if n.kind != "case" && n.kind != "choice" && !n.inOp {
			fmt.Fprintf(b, " config=%v", n.cfg)
		}
		if n.dflt != "" {
			fmt.Fprintf(b, " default=%s", n.dflt)
		}
		if n.desc != "" {
			fmt.Fprintf(b, " desc=%s", n.desc)
		}
		if n.presence {
			b.WriteString(" presence")
		}
		if n.mandatory {
			b.WriteString(" mandatory")
		}
		if n.min > 0 {
			fmt.Fprintf(b, " min=%d", n.min)
		}
		if n.max > 0 {
			fmt.Fprintf(b, " max=%d", n.max)
		} else if n.kind == "list" || n.kind == "leaf-list" {
			b.WriteString(" unbounded")
		}
		if len(n.keys) > 0 {
			fmt.Fprintf(b, " key=%s", strings.Join(n.keys, ","))
		}
		if n.resolved != "" {
			fmt.Fprintf(b, " type=leafref->%s", n.resolved)
		} else if n.typ != "" {
			fmt.Fprintf(b, " type=%s", n.typ)
		}
		b.WriteString("\n")
		renderSem(kids, ind+"  ", b)
	}
}

// reduced rendering of a compiled tree (from the canonical dump).
func renderDump(kids []interface{}, ind string, b *strings.Builder, problems *[]string, inOp bool) {
	for _, k := range kids {
		m := k.(map[string]interface{})
		kind := strings.ToLower(strings.TrimPrefix(fmt.Sprint(m["kind"]), "*meta."))
		kind = map[string]string{"leaflist": "leaf-list", "choicecase": "case"}[kind] + map[string]string{"container": "container", "list": "list", "leaf": "leaf", "choice": "choice", "any": "anydata"}[kind]
		name := fmt.Sprint(m["ident"])
		fmt.Fprintf(b, "%s%s %s", ind, kind, name)
		if kind != "case" && kind != "choice" && !inOp {
			fmt.Fprintf(b, " config=%v", m["config"])
		}
		if hd, _ := m["has-default"].(bool); hd {
			fmt.Fprintf(b, " default=%v", m["default"])
		}
		if d, _ := m["description"].(string); d != "" {
			fmt.Fprintf(b, " desc=%s", d)
		}
		if p, _ := m["presence"].(string); p != "" {
			b.WriteString(" presence")
		}
		if mn, _ := m["mandatory"].(bool); mn {
			b.WriteString(" mandatory")
		}
		if v, _ := m["min"].(float64); v > 0 {
			fmt.Fprintf(b, " min=%d", int(v))
		}
		if v, _ := m["max"].(float64); v > 0 {
			fmt.Fprintf(b, " max=%d", int(v))
		}
		if u, _ := m["unbounded"].(bool); u {
			b.WriteString(" unbounded")
		}
		if ks, _ := m["key"].([]interface{}); len(ks) > 0 {
			var s []string
			for _, x := range ks {
				s = append(s, fmt.Sprint(x))
			}
			fmt.Fprintf(b, " key=%s", strings.Join(s, ","))
		}
		if t, ok := m["type"].(map[string]interface{}); ok {
			f := strings.TrimSuffix(fmt.Sprint(t["format"]), "-list")
			if res, isRef := t["resolved"].(map[string]interface{}); isRef && f == "leafref" {
				f += "->" + fmt.Sprint(res["format"])
			}
			fmt.Fprintf(b, " type=%s", f)
		}
		b.WriteString("\n")
		if ok, _ := m["parent-ok"].(bool); !ok {
			*problems = append(*problems, "parent-linkage: Parent() of "+name+" is not the node that lists it")
		}
		if rv, _ := m["revisit"].(bool); rv {
			*problems = append(*problems, "aliasing: the definition object of "+name+" is reachable twice in the compiled tree")
		}
		if kind == "choice" {
			cases, _ := m["cases"].(map[string]interface{})
			var names []string
			for n := range cases {
				names = append(names, n)
			}
			sort.Strings(names)
			var cs []interface{}
			for _, n := range names {
				cs = append(cs, cases[n])
			}
			renderDump(cs, ind+"  ", b, problems, inOp)
			continue
		}
		ch, _ := m["children"].([]interface{})
		renderDump(ch, ind+"  ", b, problems, inOp)
		renderDumpOps(m, ind+"  ", b, problems)
	}
}

// renderDumpOps: the actions and notifications a compiled node carries, by name.
func renderDumpOps(m map[string]interface{}, ind string, b *strings.Builder, problems *[]string) {
	linkage := func(x map[string]interface{}, what string) {
		if ok, _ := x["parent-ok"].(bool); !ok {
			*problems = append(*problems, "parent-linkage: Parent() of "+what+" is not the node that lists it")
		}
		if rv, _ := x["revisit"].(bool); rv {
			*problems = append(*problems, "aliasing: the definition object of "+what+" is reachable twice in the compiled tree")
		}
	}
	for _, grp := range []string{"actions", "notifications"} {
		set, _ := m[grp].(map[string]interface{})
		var names []string
		for n := range set {
			names = append(names, n)
		}
		sort.Strings(names)
		for _, n := range names {
			x, _ := set[n].(map[string]interface{})
			linkage(x, n)
			if grp == "notifications" {
				fmt.Fprintf(b, "%snotification %s\n", ind, n)
				ch, _ := x["children"].([]interface{})
				renderDump(ch, ind+"  ", b, problems, true)
				continue
			}
			fmt.Fprintf(b, "%saction %s\n", ind, n)
			for _, io := range []string{"input", "output"} {
				if iom, ok := x[io].(map[string]interface{}); ok {
					linkage(iom, n+"/"+io)
					fmt.Fprintf(b, "%s  %s \n", ind, io)
					ch, _ := iom["children"].([]interface{})
					renderDump(ch, ind+"    ", b, problems, true)
				}
			}
		}
	}
}

// ---- syntactic tree and outlining ------------------------------------------------------------------

type yn struct {
	kw   string // container list leaf leaf-list choice case uses grouping augment refine
	arg  string
	body []string // property statements
	kids []*yn
	sem  *sn
	own  bool // uses: name the grouping with the module's own prefix ("uses m:g" means the same as "uses g")
}

func propsOf(n *sn) []string {
	var p []string
	if n.typ != "" {
		p = append(p, "type "+n.typ+";")
	}
	if len(n.keys) > 0 {
		p = append(p, "key \""+strings.Join(n.keys, " ")+"\";")
	}
	if n.cfgStmt != nil {
		p = append(p, fmt.Sprintf("config %v;", *n.cfgStmt))
	}
	if n.desc != "" {
		p = append(p, "description \""+n.desc+"\";")
	}
	if n.dflt != "" {
		p = append(p, "default \""+n.dflt+"\";")
	}
	if n.presence {
		p = append(p, "presence \"p\";")
	}
	if n.mandatory {
		p = append(p, "mandatory true;")
	}
	if n.min > 0 {
		p = append(p, fmt.Sprintf("min-elements %d;", n.min))
	}
	if n.max > 0 {
		p = append(p, fmt.Sprintf("max-elements %d;", n.max))
	} else if n.unbStmt {
		p = append(p, "max-elements unbounded;")
	}
	return p
}

func toSyntax(f []*sn) []*yn { return toSyntaxAt(f, true) }

func toSyntaxAt(f []*sn, top bool) []*yn {
	var out []*yn
	for _, n := range f {
		y := &yn{kw: n.kind, arg: n.name, body: propsOf(n), sem: n}
		if top && n.kind == "action" {
			y.kw = "rpc"
		}
		y.kids = toSyntaxAt(n.kids, false)
		out = append(out, y)
	}
	return out
}

func (y *yn) render(b *strings.Builder, ind string) { y.renderIn(b, ind, "m", false) }

// renderIn: own is the prefix the (sub)module being written binds to the module itself; qualify spells the steps of module-level
// augment paths with that prefix.
// c01impPrefix: the prefix the (sub)module being written gives the imported module imp
var c01impPrefix = "imp"

func (y *yn) renderIn(b *strings.Builder, ind string, own string, qualify bool) {
	arg := y.arg
	if y.kw == "uses" && y.own && !strings.Contains(arg, ":") {
		arg = own + ":" + arg
	}
	if y.kw == "uses" && strings.HasPrefix(arg, "imp:") {
		arg = c01impPrefix + ":" + strings.TrimPrefix(arg, "imp:")
	}
	if y.kw == "augment" && qualify && strings.HasPrefix(arg, "\"/") {
		arg = strings.ReplaceAll(arg, "/", "/"+own+":")
	}
	fmt.Fprintf(b, "%s%s %s", ind, y.kw, arg)
	if len(y.body) == 0 && len(y.kids) == 0 {
		b.WriteString(";\n")
		return
	}
	b.WriteString(" {\n")
	for _, p := range y.body {
		b.WriteString(ind + "  " + p + "\n")
	}
	for _, k := range y.kids {
		k.renderIn(b, ind+"  ", own, qualify)
	}
	b.WriteString(ind + "}\n")
}

type spelling struct {
	mods  map[string]string // module name -> text
	steps []string
}

type factorizer struct {
	r        *rand.Rand
	top      []*yn // module body of the main module
	sub      []*yn // submodule body
	sub2     []*yn // body of a submodule that the submodule includes
	imp      []*yn // imported module body (groupings only)
	steps    map[string]bool
	local    map[string]bool // names of groupings that are only in scope below some node
	augWhere map[string]string
	localAt  map[string][]*yn // local grouping name -> nodes holding a grouping of that name
	gseq     int
	useFeat  bool
	// prefer: a grouping that is used several times; half of the outlining steps work inside it (nested uses, uses-level augments
	// that are then expanded once per use of the outer grouping)
	prefer *yn
}

func (f *factorizer) step(s string) { f.steps[s] = true }

// containers returns every node that can hold children (for choosing where to outline), with its parent chain.
type site struct {
	node  *yn   // nil = module level
	chain []*yn // ancestors from top to node
}

func (f *factorizer) sites() []site {
	var out []site
	var rec func(n *yn, chain []*yn)
	rec = func(n *yn, chain []*yn) {
		if n.kw == "container" || n.kw == "list" || n.kw == "case" || n.kw == "grouping" || n.kw == "input" || n.kw == "output" || n.kw == "notification" {
			out = append(out, site{n, append(append([]*yn{}, chain...), n)})
		}
		for _, k := range n.kids {
			rec(k, append(chain, n))
		}
	}
	out = append(out, site{})
	for _, t := range f.top {
		rec(t, nil)
	}
	return out
}

// scoped reports whether relocating the subtree could change what a grouping name resolves to: it uses a
// grouping that is only in scope locally, or defines one.
func (f *factorizer) scoped(y *yn) bool {
	if y.kw == "uses" && f.local[y.arg] {
		return true
	}
	if y.kw == "grouping" {
		return true
	}
	for _, k := range y.kids {
		if f.scoped(k) {
			return true
		}
	}
	return false
}

// within reports whether inner is a descendant of outer.
func within(outer, inner *yn) bool {
	for _, k := range outer.kids {
		if k == inner || within(k, inner) {
			return true
		}
	}
	return false
}

func containsUses(run []*yn) bool {
	for _, y := range run {
		if y.kw == "uses" || containsUses(y.kids) {
			return true
		}
	}
	return false
}

func dataKid(y *yn) bool {
	switch y.kw {
	case "container", "list", "leaf", "leaf-list", "choice", "uses":
		return true
	}
	return false
}

func isKeyLeaf(parent *yn, k *yn) bool {
	if parent == nil || parent.kw != "list" || parent.sem == nil {
		return false
	}
	for _, key := range parent.sem.keys {
		if key == k.arg {
			return true
		}
	}
	return false
}

// outlineGrouping cuts a run of sibling data nodes into a grouping and replaces it by uses.
func (f *factorizer) outlineGrouping() {
	ss := f.sites()
	s := ss[f.r.Intn(len(ss))]
	preferred := false
	if f.prefer != nil && f.r.Intn(2) == 0 {
		var in []site
		for _, c := range ss {
			for _, a := range c.chain {
				if a == f.prefer {
					in = append(in, c)
					break
				}
			}
		}
		if len(in) > 0 {
			s = in[f.r.Intn(len(in))]
			preferred = true
		}
	}
	kids := &f.top
	if s.node != nil {
		kids = &s.node.kids
	}
	// a grouping may carry actions and notifications for the container / list that uses it
	opsToo := s.node != nil && (s.node.kw == "container" || s.node.kw == "list" || s.node.kw == "grouping")
	movable := func(k *yn) bool {
		return dataKid(k) && k.kw != "uses" || opsToo && (k.kw == "action" || k.kw == "notification")
	}
	var idxs []int
	for i, k := range *kids {
		if movable(k) {
			idxs = append(idxs, i)
		}
	}
	if len(idxs) == 0 {
		return
	}
	start := idxs[f.r.Intn(len(idxs))]
	end := start + 1
	for end < len(*kids) && movable((*kids)[end]) && f.r.Intn(2) == 0 {
		end++
	}
	if s.node != nil && s.node.kw == "list" {
		// a list's key leaves may come from a grouping too; keep at least the option
	}
	f.gseq++
	gname := fmt.Sprintf("g%d", f.gseq)
	run := append([]*yn{}, (*kids)[start:end]...)
	for _, k := range run {
		if f.scoped(k) {
			f.gseq--
			return
		}
	}
	g := &yn{kw: "grouping", arg: gname, kids: run}
	usesArg := gname
	// where does the grouping live?
	place := f.r.Intn(7)
	switch {
	case place >= 4 && len(s.chain) > 0:
		// local to a random ancestor (or the node itself): sibling-scoped / nested grouping
		anc := s.chain[f.r.Intn(len(s.chain))]
		if anc.kw != "container" && anc.kw != "list" && anc.kw != "grouping" && anc.kw != "input" && anc.kw != "output" && anc.kw != "notification" {
			f.top = append([]*yn{g}, f.top...)
			f.step("grouping-module")
		} else {
			// sibling scopes may reuse a grouping name (never an enclosing or enclosed scope: RFC 7950 5.5)
			if f.r.Intn(2) == 0 {
				for name, holders := range f.localAt {
					ok := true
					for _, h := range holders {
						if h == anc || within(h, anc) || within(anc, h) {
							ok = false
						}
					}
					if ok {
						g.arg = name
						u0 := name
						gname = u0
						usesArg = u0
						f.step("grouping-local-same-name-in-sibling-scope")
						break
					}
				}
			}
			anc.kids = append([]*yn{g}, anc.kids...)
			f.step("grouping-local")
			f.local[gname] = true
			f.localAt[gname] = append(f.localAt[gname], anc)
			if anc == s.node {
				start++
				end++
			}
		}
	case place == 1:
		f.sub = append(f.sub, g)
		f.step("grouping-submodule")
	case place == 2 && !containsUses(run):
		// names inside a grouping resolve in the module that defines it: only self-contained runs may move
		f.imp = append(f.imp, g)
		usesArg = "imp:" + gname
		f.step("grouping-imported")
	default:
		// module level, before or after its use (forward references are legal)
		if f.r.Intn(2) == 0 {
			f.top = append(f.top, g)
		} else {
			f.top = append([]*yn{g}, f.top...)
			if s.node == nil {
				start++
				end++
			}
		}
		f.step("grouping-module")
	}
	u := &yn{kw: "uses", arg: usesArg, own: f.r.Intn(3) == 0}
	if u.own {
		f.step("uses-own-prefix")
	}
	if f.r.Intn(3) == 0 || preferred && f.r.Intn(2) == 0 {
		f.usesAugment(u, run)
	}
	if preferred {
		f.step("nested-uses-in-reused-grouping")
	}
	nk := append([]*yn{}, (*kids)[:start]...)
	nk = append(nk, u)
	nk = append(nk, (*kids)[end:]...)
	*kids = nk
}

// usesAugment moves a suffix of the children of a container / list inside the grouped run out into an
// augment statement under the uses (relative target path).
func (f *factorizer) usesAugment(u *yn, run []*yn) {
	type tgt struct {
		node *yn
		path []string
	}
	var tgts []tgt
	var rec func(n *yn, path []string)
	rec = func(n *yn, path []string) {
		if n.kw == "grouping" || n.kw == "uses" || n.kw == "augment" || isOp(n.kw) {
			return
		}
		p := append(append([]string{}, path...), n.arg)
		if n.kw == "container" || n.kw == "list" || n.kw == "case" {
			tgts = append(tgts, tgt{n, p})
		}
		for _, k := range n.kids {
			rec(k, p)
		}
	}
	for _, r := range run {
		rec(r, nil)
	}
	if len(tgts) == 0 {
		return
	}
	t := tgts[f.r.Intn(len(tgts))]
	n := len(t.node.kids)
	cut := n
	for cut > 1 {
		k := t.node.kids[cut-1]
		if !dataKid(k) || k.kw == "uses" || isKeyLeaf(t.node, k) || f.scoped(k) {
			break
		}
		cut--
		if f.r.Intn(2) == 0 {
			break
		}
	}
	if cut >= n || cut == 0 {
		return
	}
	moved := append([]*yn{}, t.node.kids[cut:]...)
	t.node.kids = t.node.kids[:cut]
	u.kids = append(u.kids, &yn{kw: "augment", arg: "\"" + strings.Join(t.path, "/") + "\"", kids: moved})
	f.step("augment-uses-level")
}

// outlineAugment moves a suffix of the children of a top-level-reachable node into a module-level augment.
func (f *factorizer) outlineAugment() {
	// targets reachable by an absolute schema path without crossing a uses / grouping
	type tgt struct {
		node *yn
		path []string
	}
	var tgts []tgt
	var rec func(n *yn, path []string)
	rec = func(n *yn, path []string) {
		if n.kw == "grouping" || n.kw == "uses" || n.kw == "augment" {
			return
		}
		step := n.arg
		if n.kw == "input" || n.kw == "output" {
			step = n.kw
		}
		p := append(append([]string{}, path...), step)
		if n.kw == "container" || n.kw == "list" || n.kw == "case" || n.kw == "input" || n.kw == "output" || n.kw == "notification" {
			tgts = append(tgts, tgt{n, p})
		}
		for _, k := range n.kids {
			rec(k, p)
		}
	}
	for _, t := range f.top {
		rec(t, nil)
	}
	if len(tgts) == 0 {
		return
	}
	t := tgts[f.r.Intn(len(tgts))]
	// suffix of data children, none of them a key leaf, no uses among them (its expansion order is kept by being in place)
	n := len(t.node.kids)
	cut := n
	for cut > 0 {
		k := t.node.kids[cut-1]
		if !dataKid(k) || k.kw == "uses" || isKeyLeaf(t.node, k) {
			break
		}
		cut--
		if f.r.Intn(2) == 0 {
			break
		}
	}
	if cut >= n || cut == 0 {
		return // nothing to move, or the target would be left empty (the parser wants a body)
	}
	moved := append([]*yn{}, t.node.kids[cut:]...)
	// everything after the cut must be data nodes (groupings local to the node stay)
	for _, k := range moved {
		if !dataKid(k) || f.scoped(k) {
			return
		}
	}
	// a node that is (on the way to) the target of an augment written earlier must stay where it is: the
	// library applies augments in textual order, so the one creating a target has to come first
	for _, k := range moved {
		pre := strings.Join(append(append([]string{}, t.path...), k.arg), "/")
		for existing := range f.augWhere {
			if existing == pre || strings.HasPrefix(existing, pre+"/") {
				return
			}
		}
	}
	if t.node.kw == "input" || t.node.kw == "output" || t.node.kw == "notification" {
		f.step("augment-into-operation")
	}
	t.node.kids = t.node.kids[:cut]
	// config: an augmented node inherits from the target exactly like an inline child; stated config stays
	a := &yn{kw: "augment", arg: "\"/" + strings.Join(t.path, "/") + "\"", kids: moved}
	// several augments of one target keep their textual order only inside one file: stay where the first went.
	// A later augment takes an EARLIER segment of the children (it cuts what is left), so it must come first.
	key := strings.Join(t.path, "/")
	where, seen := f.augWhere[key]
	if !seen {
		where = "top"
		if f.r.Intn(3) == 0 {
			where = "sub"
		}
		f.augWhere[key] = where
	}
	if seen {
		// insert before the earlier augment of the same target
		list := &f.top
		if where == "sub" {
			list = &f.sub
		}
		for i, x := range *list {
			if x.kw == "augment" && x.arg == a.arg {
				nl := append([]*yn{}, (*list)[:i]...)
				nl = append(nl, a)
				nl = append(nl, (*list)[i:]...)
				*list = nl
				f.step("augment-same-target-twice")
				return
			}
		}
	}
	if where == "sub" {
		f.sub = append(f.sub, a)
		f.step("augment-in-submodule")
	} else {
		f.top = append(f.top, a)
		f.step("augment-module")
	}
}

// toSubmodule moves a suffix of the main module's top-level data nodes into the submodule.
func (f *factorizer) toSubmodule() {
	n := len(f.top)
	cut := n
	for cut > 0 && (dataKid(f.top[cut-1]) || f.top[cut-1].kw == "augment" || f.top[cut-1].kw == "grouping") && f.r.Intn(3) != 0 {
		cut--
	}
	if cut >= n {
		return
	}
	// augments must stay after (or in the same module as) their targets: move only if no augment targets remain behind... keep simple: move data nodes and groupings only
	var stay, move []*yn
	for i, k := range f.top {
		if i >= cut && k.kw != "augment" {
			move = append(move, k)
		} else {
			stay = append(stay, k)
		}
	}
	f.top = stay
	f.sub = append(f.sub, move...)
	f.step("top-level-to-submodule")
}

// toSubmodule2 moves a suffix of the submodule's data nodes and groupings into a second submodule that the first one includes. What is
// written there sees the module's groupings and typedefs like anything else of the module does.
func (f *factorizer) toSubmodule2() {
	n := len(f.sub)
	cut := n
	for cut > 0 && (dataKid(f.sub[cut-1]) || f.sub[cut-1].kw == "grouping") && f.r.Intn(3) != 0 {
		cut--
	}
	if cut == 0 {
		cut = 1 // something stays in the first submodule
	}
	if cut >= n {
		return
	}
	f.sub2 = append(f.sub2, f.sub[cut:]...)
	f.sub = f.sub[:cut]
	f.step("nested-include")
}

func (f *factorizer) decoys() {
	ss := f.sites()
	for i := 0; i < 2; i++ {
		s := ss[f.r.Intn(len(ss))]
		d := &yn{kw: "leaf", arg: fmt.Sprintf("decoy%d", i), body: []string{"if-feature off1;", "type string;"}}
		if s.node != nil && (s.node.kw == "container" || s.node.kw == "list" || s.node.kw == "grouping") && f.r.Intn(3) == 0 {
			// an operation under the disabled feature (also as a grouping's own action / notification)
			d = &yn{kw: []string{"action", "notification"}[f.r.Intn(2)], arg: fmt.Sprintf("decoyop%d", i), body: []string{"if-feature off1;"}}
			f.step("decoy-operation-under-disabled-feature")
		}
		if s.node == nil {
			f.top = append(f.top, d)
		} else if s.node.kw != "grouping" {
			s.node.kids = append(s.node.kids, d)
		}
	}
	f.useFeat = true
	f.step("decoy-under-disabled-feature")
}

func (f *factorizer) texts() map[string]string {
	var b strings.Builder
	b.WriteString("module m {\n  namespace \"urn:m\";\n  prefix m;\n")
	if len(f.imp) > 0 {
		b.WriteString("  import imp { prefix imp; }\n")
	}
	if len(f.sub) > 0 {
		b.WriteString("  include sub;\n")
	}
	b.WriteString("  revision 2020-01-01;\n  feature off1;\n  typedef c01lr { type leafref { path \"../rid\"; } }\n")
	qualify := f.r.Intn(3) == 0
	if qualify {
		f.step("augment-paths-with-own-prefix")
	}
	for _, t := range f.top {
		t.renderIn(&b, "  ", "m", qualify)
	}
	b.WriteString("}\n")
	out := map[string]string{"m": b.String()}
	if len(f.sub) > 0 {
		// the prefix a submodule gives its module is the submodule's choice
		subPrefix := []string{"m", "sp"}[f.r.Intn(2)]
		if subPrefix != "m" {
			f.step("belongs-to-prefix-differs")
		}
		var sb strings.Builder
		fmt.Fprintf(&sb, "submodule sub {\n  belongs-to m { prefix %s; }\n", subPrefix)
		c01impPrefix = []string{"imp", "ip"}[f.r.Intn(2)]
		defer func() { c01impPrefix = "imp" }()
		if len(f.imp) > 0 {
			fmt.Fprintf(&sb, "  import imp { prefix %s; }\n", c01impPrefix)
			if c01impPrefix != "imp" {
				f.step("submodule-imports-with-another-prefix")
			}
		}
		if len(f.sub2) > 0 {
			sb.WriteString("  include sub2;\n")
		}
		for _, t := range f.sub {
			t.renderIn(&sb, "  ", subPrefix, qualify)
		}
		sb.WriteString("}\n")
		out["sub"] = sb.String()
		if len(f.sub2) > 0 {
			sub2Prefix := []string{"m", "s2p"}[f.r.Intn(2)]
			var s2 strings.Builder
			fmt.Fprintf(&s2, "submodule sub2 {\n  belongs-to m { prefix %s; }\n", sub2Prefix)
			c01impPrefix = []string{"imp", "i2"}[f.r.Intn(2)]
			if len(f.imp) > 0 {
				fmt.Fprintf(&s2, "  import imp { prefix %s; }\n", c01impPrefix)
			}
			for _, t := range f.sub2 {
				t.renderIn(&s2, "  ", sub2Prefix, qualify)
			}
			s2.WriteString("}\n")
			out["sub2"] = s2.String()
		}
	}
	if len(f.imp) > 0 {
		var ib strings.Builder
		ib.WriteString("module imp {\n  namespace \"urn:imp\";\n  prefix imp;\n  revision 2020-01-01;\n  feature off1;\n  typedef c01lr { type leafref { path \"../rid\"; } }\n")
		for _, t := range f.imp {
			t.render(&ib, "  ")
		}
		ib.WriteString("}\n")
		out["imp"] = ib.String()
	}
	return out
}

// ---- planned reuse ----------------------------------------------------------------------------------

// addReuse instantiates one template forest under 2..3 fresh containers with refine-able differences and
// returns the syntactic pieces: one grouping + the uses (with refines) for the factored spelling, and the
// plain copies for the semantic tree.
type reuse struct {
	gname string
	tmpl  []*sn      // template
	sites []*sn      // containers holding an instance each (semantic)
	refs  [][]string // per site: refine statements
}

func (g *gen1) reuseForest(n int) *reuse {
	g.noOps++
	r := &reuse{gname: g.nm("rg"), tmpl: g.forest(1, 3)}
	g.noOps--
	for _, t := range r.tmpl {
		t.cfgStmt = nil
	}
	// a leaf whose type is a typedef of a leafref to "../rid": every site has its own rid, of its own type
	peer := &sn{kind: "leaf", name: g.nm("peer"), typ: "c01lr"}
	if g.r.Intn(2) == 0 {
		peer.kind = "leaf-list"
	}
	r.tmpl = append(r.tmpl, peer)
	for i := 0; i < n; i++ {
		inst := cloneForest(r.tmpl)
		var refs []string
		// differences expressible by refine, on top-level and nested targets
		var rec func(f []*sn, path string)
		rec = func(f []*sn, path string) {
			for _, x := range f {
				p := path + x.name
				if x.kind == "choice" || x.kind == "case" {
					continue
				}
				var body []string
				if g.r.Intn(3) == 0 {
					x.desc = fmt.Sprintf("refined-%d-%s", i, x.name)
					body = append(body, "description \""+x.desc+"\";")
				}
				if x.kind == "leaf" && x.dflt != "" && g.r.Intn(3) == 0 {
					x.dflt = map[string]string{"string": "rv", "int32": "9", "boolean": "false", "uint8": "4"}[x.typ]
					body = append(body, "default \""+x.dflt+"\";")
				}
				if g.r.Intn(5) == 0 {
					fv := false
					x.cfgStmt = &fv
					body = append(body, "config false;")
				}
				if x.kind == "list" && g.r.Intn(3) == 0 {
					x.max = 7 + i
					body = append(body, fmt.Sprintf("max-elements %d;", x.max))
				}
				if x.kind == "container" && !x.presence && g.r.Intn(3) == 0 {
					x.presence = true
					body = append(body, "presence \"p\";")
				}
				if len(body) > 0 {
					refs = append(refs, "refine "+p+" { "+strings.Join(body, " ")+" }")
				}
				if x.cfgStmt == nil || *x.cfgStmt {
					if x.kind == "container" || x.kind == "list" {
						rec(x.kids, p+"/")
					}
				}
			}
		}
		rec(inst, "")
		ridType := []string{"int32", "string", "boolean", "uint8"}[(i+g.seq)%4]
		inst[len(inst)-1].resolved = ridType
		inst = append([]*sn{{kind: "leaf", name: "rid", typ: ridType}}, inst...)
		site := &sn{kind: "container", name: g.nm("site"), kids: inst}
		r.sites = append(r.sites, site)
		r.refs = append(r.refs, refs)
	}
	return r
}

// ---- the check ---------------------------------------------------------------------------------------

func c01load(mods map[string]string, feat bool) (*meta.Module, error) {
	opener := func(name, ext string) (io.Reader, error) {
		if t, ok := mods[name]; ok {
			return strings.NewReader(t), nil
		}
		return nil, nil
	}
	opts := parser.Options{}
	if feat {
		opts.Features = meta.FeaturesOff([]string{"off1"})
	}
	return parser.LoadModuleWithOptions(opener, "m", opts)
}

func c01reduce(m *meta.Module) (string, []string) {
	d, w := walk.Dump(m)
	var generic interface{}
	jsonUnmarshal(walk.JSON(d), &generic)
	kids, _ := generic.(map[string]interface{})["children"].([]interface{})
	var b strings.Builder
	var problems []string
	renderDump(kids, "", &b, &problems, false)
	renderDumpOps(generic.(map[string]interface{}), "", &b, &problems)
	for _, p := range w.Panics {
		problems = append(problems, "walk-panic: "+p)
	}
	problems = append(problems, w.Problems...)
	return b.String(), problems
}

func (p c01) Run(c *core.Ctx, idx int) {
	r := c.Rand
	g := &gen1{r: r}
	sem := g.forest(2+r.Intn(2), 4)
	sem = append(g.ops(true), sem...)
	var ru *reuse
	if idx%2 == 0 {
		ru = g.reuseForest(2 + r.Intn(2))
		// instances sit at the end of the module (so that submodule moves keep the set semantics simple)
		sem = append(sem, ru.sites...)
	}
	setEffective(sem, true)
	// config true below config false is illegal: normalise the semantic tree (stated true only where parent is true)
	var fixCfg func(f []*sn, parentCfg bool)
	fixCfg = func(f []*sn, parentCfg bool) {
		for _, n := range f {
			if n.cfgStmt != nil && *n.cfgStmt && !parentCfg {
				n.cfgStmt = nil
			}
			c := parentCfg
			if n.cfgStmt != nil {
				c = *n.cfgStmt
			}
			fixCfg(n.kids, c)
		}
	}
	fixCfg(sem, true)
	setEffective(sem, true)
	var sb strings.Builder
	renderSem(sem, "", &sb)
	want := sb.String()
	size := "small"
	if strings.Count(want, "\n") > 25 {
		size = "large"
	}

	// spellings
	nsp := 3
	if c.Thorough() {
		nsp = 5
	}
	var first string
	for sp := 0; sp < nsp; sp++ {
		f := &factorizer{r: r, steps: map[string]bool{}, local: map[string]bool{}, augWhere: map[string]string{}, localAt: map[string][]*yn{}}
		if ru == nil {
			f.top = toSyntax(sem)
		} else {
			f.top = toSyntax(sem[:len(sem)-len(ru.sites)])
			if sp == 0 {
				f.top = append(f.top, toSyntax(ru.sites)...)
			} else {
				// one grouping for the template, one uses per site with its refines
				gy := &yn{kw: "grouping", arg: ru.gname, kids: toSyntax(ru.tmpl)}
				f.prefer = gy
				place := r.Intn(3)
				usesArg := ru.gname
				switch place {
				case 0:
					f.top = append([]*yn{gy}, f.top...)
				case 1:
					f.sub = append(f.sub, gy)
					f.step("reuse-grouping-in-submodule")
				default:
					f.imp = append(f.imp, gy)
					usesArg = "imp:" + ru.gname
					f.step("reuse-grouping-imported")
				}
				for i, s := range ru.sites {
					u := &yn{kw: "uses", arg: usesArg, body: ru.refs[i]}
					f.top = append(f.top, &yn{kw: "container", arg: s.name, body: propsOf(s), kids: []*yn{toSyntaxAt(s.kids[:1], false)[0], u}})
				}
				f.step(fmt.Sprintf("reuse-x%d-with-refine", len(ru.sites)))
			}
		}
		if sp > 0 {
			nsteps := 1 + r.Intn(6)
			for k := 0; k < nsteps; k++ {
				switch r.Intn(6) {
				case 0, 1, 2:
					f.outlineGrouping()
				case 3:
					f.outlineAugment()
				case 4:
					if len(f.sub) == 0 || r.Intn(2) == 0 {
						f.toSubmodule()
					} else if len(f.sub) > 0 {
						f.toSubmodule2()
					}
				default:
					if !f.useFeat {
						f.decoys()
					}
				}
			}
		} else {
			f.step("inline")
		}
		// what the spelling puts inside operations
		var opScan func(ys []*yn, inOp, inGrouping bool)
		opScan = func(ys []*yn, inOp, inGrouping bool) {
			for _, y := range ys {
				op := y.kw == "action" || y.kw == "notification" || y.kw == "rpc"
				if op && inGrouping {
					f.step("operation-from-grouping")
				}
				if y.kw == "uses" && inOp {
					f.step("uses-inside-operation")
				}
				opScan(y.kids, inOp || op, y.kw == "grouping")
			}
		}
		opScan(f.top, false, false)
		opScan(f.sub, false, false)
		opScan(f.sub2, false, false)
		opScan(f.imp, false, false)
		mods := f.texts()
		var steps []string
		for s := range f.steps {
			steps = append(steps, s)
		}
		sort.Strings(steps)
		c.Eval()
		c.Shape("%s/%s/reuse=%v", strings.Join(steps, "+"), size, ru != nil)
		for _, s := range steps {
			c.Count("step_" + s)
		}
		all := ""
		for _, n := range []string{"m", "sub", "sub2", "imp"} {
			if t, ok := mods[n]; ok {
				all += "--- " + n + " ---\n" + t
			}
		}
		if sp <= 1 {
			c.SetSample(map[string]interface{}{"spelling": steps, "text": head(all, 2500), "semantic_tree": head(want, 1200)})
		}
		var m *meta.Module
		var err error
		if c.Guard("load spelling "+strings.Join(steps, "+"), func() { m, err = c01load(mods, f.useFeat) }) {
			continue
		}
		sigSteps := strings.Join(steps, "+")
		if len(steps) > 2 {
			sigSteps = "multi-step"
		}
		if err != nil {
			c.Violate("load-error/"+errClass01(err)+"/"+sigSteps, "a meaning-preserving spelling does not load: %v\n%ssemantic tree:\n%s", err, all, want)
			continue
		}
		got, problems := c01reduce(m)
		for _, pr := range problems {
			c.Violate(strings.SplitN(pr, ":", 2)[0]+"/"+sigSteps, "%s\n%s", pr, all)
		}
		// D: the order between a module's own top-level nodes and those merged from its submodule is not fixed
		cmpGot, cmpWant := got, want
		if f.steps["top-level-to-submodule"] || f.steps["augment-in-submodule"] {
			cmpGot, cmpWant = sortTop(got), sortTop(want)
		}
		if cmpGot != cmpWant {
			c.Violate("tree-differs/"+firstDiffClass(cmpWant, cmpGot)+"/"+sigSteps, "the compiled tree differs from the semantic tree (steps: %v)\n%s\n%scompiled:\n%s\nsemantic:\n%s", steps, lineDiff(cmpWant, cmpGot), all, got, want)
			continue
		}
		if sp == 0 {
			first = got
		} else if first != "" && sortTop(first) != sortTop(got) {
			c.Violate("spellings-differ/"+sigSteps, "two spellings of one tree compile differently\n%s", lineDiff(first, got))
		}
	}
	// many augments in one module: n statements, alternating between targets of different depth, some in the submodule; the children
	// of every target stand in the order of the augments that added them
	if idx%10 == 3 {
		n := []int{2, 6, 12, 13, 14, 17, 20, 33, 64}[r.Intn(9)]
		targets := []string{"/a", "/a/b", "/a/b/c", "/a"}
		var augs, inline [4][]string
		var text strings.Builder
		text.WriteString("module m {\n  namespace \"urn:m\";\n  prefix m;\n  revision 2020-01-01;\n  container a { leaf a0 { type string; } container b { leaf b0 { type string; } container c { leaf c0 { type string; } } } }\n")
		for i := 0; i < n; i++ {
			t := r.Intn(3)
			if i%2 == 0 {
				t = i / 2 % 3
			}
			name := fmt.Sprintf("l%02d", i)
			fmt.Fprintf(&text, "  augment \"%s\" { leaf %s { type string; } }\n", targets[t], name)
			augs[t] = append(augs[t], name)
		}
		text.WriteString("}\n")
		_ = inline
		c.Eval()
		c.Shape("many-augments/%d", n)
		var m *meta.Module
		var err error
		if !c.Guard("load many augments", func() { m, err = c01load(map[string]string{"m": text.String()}, false) }) {
			if err != nil {
				c.Violate("load-error/many-augments", "%v\n%s", err, text.String())
			} else {
				got, _ := c01reduce(m)
				var want strings.Builder
				leafLine := func(ind, name string) { fmt.Fprintf(&want, "%sleaf %s config=true type=string\n", ind, name) }
				want.WriteString("container a config=true\n")
				leafLine("  ", "a0")
				want.WriteString("  container b config=true\n")
				leafLine("    ", "b0")
				want.WriteString("    container c config=true\n")
				leafLine("      ", "c0")
				for _, l := range augs[2] {
					leafLine("      ", l)
				}
				for _, l := range augs[1] {
					leafLine("    ", l)
				}
				for _, l := range augs[0] {
					leafLine("  ", l)
				}
				if got != want.String() {
					c.Violate("tree-differs/order/many-augments", "%d augments: the children of the targets are not in the order of the augments\n%s\n%s", n, lineDiff(want.String(), got), text.String())
				}
			}
		}
	}
	// a uses written directly in an augment of a choice: every node of the grouping becomes a (shorthand) case of its own
	// name, as if it were written there (RFC7950 Sec 7.9.2, 7.17)
	if idx%10 == 4 {
		nodes := []string{"leaf x { type string; }", "container y { leaf y1 { type string; } }", "leaf-list z { type int32; }", "list w { key k; leaf k { type string; } }"}
		r.Shuffle(len(nodes), func(i, j int) { nodes[i], nodes[j] = nodes[j], nodes[i] })
		nodes = nodes[:1+r.Intn(len(nodes))]
		body := strings.Join(nodes, " ")
		where := []string{"/c/ch", "/c/ch/a/inner"}[r.Intn(2)]
		base := "container c { choice ch { case a { leaf a1 { type string; } choice inner { leaf i1 { type string; } } } } }"
		hdr := "module m {\n  namespace \"urn:m\";\n  prefix m;\n  revision 2020-01-01;\n  "
		inline := hdr + base + "\n  augment \"" + where + "\" { " + body + " }\n}\n"
		viaUses := hdr + "grouping g { " + body + " }\n  " + base + "\n  augment \"" + where + "\" { uses g; }\n}\n"
		var trees [2]string
		ok := true
		for i, text := range []string{inline, viaUses} {
			c.Eval()
			var m *meta.Module
			var err error
			if c.Guard("load augment of a choice", func() { m, err = c01load(map[string]string{"m": text}, false) }) {
				ok = false
				break
			}
			if err != nil {
				c.Violate("load-error/augment-choice-with-uses", "%v\n%s", err, text)
				ok = false
				break
			}
			trees[i], _ = c01reduce(m)
		}
		c.Shape("augment-choice-with-uses/%d/%s", len(nodes), where)
		if ok && trees[0] != trees[1] {
			c.Violate("tree-differs/augment-choice-with-uses", "an augment of a choice compiles differently with its nodes written in place and brought by a uses\n%s\nin place:\n%s\nby uses:\n%s", lineDiff(trees[0], trees[1]), inline, viaUses)
		}
	}
	// conditions: every copy of a grouping's node carries its own when plus those of the uses (and of the augment around the uses)
	// that made this copy, in that order, and nothing of the other copies
	if idx%10 == 5 {
		text := "module m {\n  namespace \"urn:m\";\n  prefix m;\n  revision 2020-01-01;\n" +
			"  grouping g { leaf p { type int32; } leaf v { when \"p>1\"; type string; } container k { when \"p>2\"; leaf k1 { type string; } } leaf plain { type string; } }\n" +
			"  container a { leaf o { type int32; } uses g { when \"o>1\"; } }\n" +
			"  container b { uses g; }\n" +
			"  container c { leaf r { type int32; } uses g { when \"r>1\"; } }\n" +
			"  container d { leaf s { type int32; } }\n" +
			"  augment \"/d\" { when \"s>1\"; uses g { when \"s>2\"; } }\n" +
			"  container e { uses g; }\n}\n"
		want := map[string][]string{
			"a/v": {"p>1", "o>1"}, "a/k": {"p>2", "o>1"}, "a/plain": {"o>1"},
			"b/v": {"p>1"}, "b/k": {"p>2"}, "b/plain": nil,
			"c/v": {"p>1", "r>1"}, "c/k": {"p>2", "r>1"}, "c/plain": {"r>1"},
			"d/v": {"p>1", "s>2", "s>1"}, "d/k": {"p>2", "s>2", "s>1"}, "d/plain": {"s>2", "s>1"},
			"e/v": {"p>1"}, "e/k": {"p>2"}, "e/plain": nil,
		}
		c.Eval()
		c.Shape("when-chains-of-copies")
		var m *meta.Module
		var err error
		if !c.Guard("load when chains", func() { m, err = c01load(map[string]string{"m": text}, false) }) {
			if err != nil {
				c.Violate("load-error/when-chains", "%v\n%s", err, text)
			} else {
				for _, site := range []string{"a", "b", "c", "d", "e"} {
					for _, leaf := range []string{"v", "k", "plain"} {
						def := meta.Find(m, site+"/"+leaf)
						var got []string
						if hw, ok := def.(meta.HasWhen); ok {
							for w, n := hw.When(), 0; w != nil && n < 10; w, n = w.And(), n+1 {
								got = append(got, w.Expression())
							}
						}
						if fmt.Sprint(got) != fmt.Sprint(want[site+"/"+leaf]) {
							c.Violate("when-chain/"+leaf, "%s/%s carries the conditions %q, want %q (its own, then the uses', then the augment's)\n%s", site, leaf, got, want[site+"/"+leaf], text)
						}
					}
				}
			}
		}
	}
	// illegal construction: config true under config false
	if idx%10 == 0 {
		c.Eval()
		bad := map[string]string{"m": "module m { namespace \"urn:m\"; prefix m; revision 2020-01-01; grouping g { leaf x { config true; type string; } } container c { config false; uses g; } }"}
		var err error
		if !c.Guard("load illegal", func() { _, err = c01load(bad, false) }) && err == nil {
			c.Violate("illegal-accepted/config-true-under-false", "config true below config false (through a grouping) was accepted")
		}
	}
}

func errClass01(err error) string {
	s := err.Error()
	switch {
	case strings.Contains(s, "conflict adding"):
		return "conflict"
	case strings.Contains(s, "not found"):
		return "not-found"
	case strings.Contains(s, "syntax error"):
		return "syntax"
	case strings.Contains(s, "config cannot be true"):
		return "config"
	}
	return "other"
}

// sortTop sorts the top-level blocks of a rendered tree (set comparison at module level).
func sortTop(s string) string {
	var blocks []string
	var cur []string
	for _, l := range strings.Split(strings.TrimRight(s, "\n"), "\n") {
		if !strings.HasPrefix(l, " ") && len(cur) > 0 {
			blocks = append(blocks, strings.Join(cur, "\n"))
			cur = nil
		}
		cur = append(cur, l)
	}
	if len(cur) > 0 {
		blocks = append(blocks, strings.Join(cur, "\n"))
	}
	sort.Strings(blocks)
	return strings.Join(blocks, "\n")
}

func lineDiff(want, got string) string {
	w := strings.Split(want, "\n")
	g := strings.Split(got, "\n")
	var out []string
	for i := 0; i < len(w) || i < len(g); i++ {
		var a, b string
		if i < len(w) {
			a = w[i]
		}
		if i < len(g) {
			b = g[i]
		}
		if a != b {
			out = append(out, fmt.Sprintf("line %d: semantic %q | compiled %q", i, a, b))
			if len(out) >= 6 {
				break
			}
		}
	}
	return strings.Join(out, "\n")
}

func firstDiffClass(want, got string) string {
	w := strings.Split(want, "\n")
	g := strings.Split(got, "\n")
	for i := 0; i < len(w) || i < len(g); i++ {
		var a, b string
		if i < len(w) {
			a = w[i]
		}
		if i < len(g) {
			b = g[i]
		}
		if a == b {
			continue
		}
		fa, fb := strings.Fields(a), strings.Fields(b)
		if len(fa) >= 2 && len(fb) >= 2 && fa[0] == fb[0] && fa[1] == fb[1] {
			// same node, a property differs
			for _, prop := range []string{"config=", "default=", "desc=", "presence", "mandatory", "min=", "max=", "key=", "type="} {
				if propOf(fa, prop) != propOf(fb, prop) {
					return "property-" + strings.TrimSuffix(prop, "=")
				}
			}
			return "property"
		}
		if len(w) != len(g) {
			if len(g) < len(w) {
				return "node-missing"
			}
			return "node-extra"
		}
		return "order"
	}
	return "none"
}

func propOf(fields []string, prop string) string {
	for _, f := range fields[2:] {
		if strings.HasPrefix(f, prop) {
			return f
		}
	}
	return ""
}
