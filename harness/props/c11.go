package props

import (
	"fmt"
	"io"
	"sort"
	"strings"

	"github.com/freeconf/yang/meta"
	"github.com/freeconf/yang/parser"

	"verif/core"
	"verif/walk"
)

// C11 — if-feature and deviations shape the schema exactly as written.

type c11 struct{}

func init() { core.Register(c11{}) }

func (c11) ID() string    { return "C11" }
func (c11) Level() string { return "exploration" }
func (c11) Rule() string {
	return "exhaustive: every if-feature expression with <= 3 operators (quick; <= 4 thorough) over the feature alphabet {a,b,c} (RFC 7950 7.20.2 grammar, " +
		"with redundant parentheses and extra blanks) x all 8 feature assignments x {allow-list, deny-list} configuration (all-on for the all-true " +
		"assignment), on a guarded leaf; then every guardable statement kind (container, list, leaf, leaf-list, choice, case, anydata, uses, augment, " +
		"refine, rpc, notification, enum, identity, feature) x sampled expressions; malformed expressions must be load errors; deviations: not-supported on " +
		"every node kind, add / replace / delete of each property: the dump with the deviation differs from the dump without it in exactly the named " +
		"paths. Oracle: 25-line recursive-descent evaluator. A shape = (AST shape, assignment, configuration style) / (statement kind, truth) / (deviate kind, property)"
}
func (c11) Exhaustive(string) bool { return true }
func (c11) MinEvals(string) int    { return 5000 }

// ---- expression enumeration ----------------------------------------------------------------------

type fexpr struct {
	op   string // "" leaf, not, and, or
	name string
	l, r *fexpr
}

func (e *fexpr) eval(on map[string]bool) bool {
	switch e.op {
	case "":
		return on[e.name]
	case "not":
		return !e.l.eval(on)
	case "and":
		return e.l.eval(on) && e.r.eval(on)
	}
	return e.l.eval(on) || e.r.eval(on)
}

func prec(e *fexpr) int {
	switch e.op {
	case "or":
		return 1
	case "and":
		return 2
	case "not":
		return 3
	}
	return 4
}

// render with minimal parentheses (RFC precedence: not > and > or, left associative); variant adds
// redundant parentheses / blanks.
func (e *fexpr) render(variant int) string {
	wrap := func(c *fexpr, need bool) string {
		s := c.render(variant)
		if need || (variant == 1 && c.op != "") {
			if variant == 2 {
				return "( " + s + " )"
			}
			return "(" + s + ")"
		}
		return s
	}
	sp := " "
	if variant == 2 {
		sp = "  "
	}
	switch e.op {
	case "":
		return e.name
	case "not":
		return "not" + sp + wrap(e.l, prec(e.l) < 3)
	case "and":
		return wrap(e.l, prec(e.l) < 2) + sp + "and" + sp + wrap(e.r, prec(e.r) <= 2 && e.r.op != "" && e.r.op != "not")
	}
	return wrap(e.l, false) + sp + "or" + sp + wrap(e.r, e.r.op == "or")
}

func (e *fexpr) shape() string {
	switch e.op {
	case "":
		return "v"
	case "not":
		return "!" + e.l.shape()
	case "and":
		return "(" + e.l.shape() + "&" + e.r.shape() + ")"
	}
	return "(" + e.l.shape() + "|" + e.r.shape() + ")"
}

var c11names = []string{"a", "b", "c"}

// all ASTs with exactly n operators.
var exprCache = map[int][]*fexpr{}

func exprsWith(n int) []*fexpr {
	if c, ok := exprCache[n]; ok {
		return c
	}
	var out []*fexpr
	if n == 0 {
		for _, nm := range c11names {
			out = append(out, &fexpr{name: nm})
		}
	} else {
		for _, s := range exprsWith(n - 1) {
			out = append(out, &fexpr{op: "not", l: s})
		}
		for k := 0; k < n; k++ {
			for _, l := range exprsWith(k) {
				for _, r := range exprsWith(n - 1 - k) {
					out = append(out, &fexpr{op: "and", l: l, r: r}, &fexpr{op: "or", l: l, r: r})
				}
			}
		}
	}
	exprCache[n] = out
	return out
}

func allExprs(maxOps int) []*fexpr {
	var out []*fexpr
	for n := 0; n <= maxOps; n++ {
		out = append(out, exprsWith(n)...)
	}
	return out
}

const c11chunk = 40 // expressions per module

func c11maxOps(tier string) int {
	if tier == "thorough" {
		return 4
	}
	return 3
}

func (c11) NumCases(tier string, seed int64) int {
	n := len(allExprs(c11maxOps(tier)))
	return (n+c11chunk-1)/c11chunk + 60 + 60
}

func featureOpts(assign int, style int) (parser.Options, string) {
	var on, off []string
	for i, n := range c11names {
		if assign&(1<<i) != 0 {
			on = append(on, n)
		} else {
			off = append(off, n)
		}
	}
	switch {
	case assign == 7 && style == 2:
		return parser.Options{}, "all-on-default"
	case style == 0:
		return parser.Options{Features: meta.FeaturesOn(on)}, "allow-list"
	}
	return parser.Options{Features: meta.FeaturesOff(off)}, "deny-list"
}

func assignMap(assign int) map[string]bool {
	m := map[string]bool{}
	for i, n := range c11names {
		m[n] = assign&(1<<i) != 0
	}
	return m
}

const c11hdr = "module m { namespace \"urn:m\"; prefix m; revision 2020-01-01; feature a; feature b; feature c;\n"

func (p c11) Run(c *core.Ctx, idx int) {
	exprs := allExprs(c11maxOps(c.Tier))
	chunks := (len(exprs) + c11chunk - 1) / c11chunk
	switch {
	case idx < chunks:
		hi := (idx + 1) * c11chunk
		if hi > len(exprs) {
			hi = len(exprs)
		}
		p.exprChunk(c, exprs[idx*c11chunk:hi], idx)
	case idx < chunks+60:
		p.kinds(c, idx-chunks)
	default:
		p.deviations(c, idx-chunks-60)
	}
}

func (p c11) exprChunk(c *core.Ctx, exprs []*fexpr, idx int) {
	variant := idx % 3
	var b strings.Builder
	b.WriteString(c11hdr)
	for i, e := range exprs {
		fmt.Fprintf(&b, "  leaf g%d { if-feature \"%s\"; type string; }\n", i, e.render(variant))
	}
	b.WriteString("  leaf always { type string; }\n}\n")
	text := b.String()
	c.SetSample(map[string]interface{}{"module_head": head(text, 700), "expressions": len(exprs)})
	for assign := 0; assign < 8; assign++ {
		for style := 0; style < 3; style++ {
			if style == 2 && assign != 7 {
				continue
			}
			opts, sname := featureOpts(assign, style)
			var m *meta.Module
			var err error
			if c.Guard("load", func() { m, err = parser.LoadModuleFromStringWithOptions(nil, text, opts) }) {
				continue
			}
			if err != nil {
				c.Violate("expr/load-error/"+sname, "module with well-formed if-feature expressions does not load (%s, assignment %03b): %v\n%s", sname, assign, err, head(text, 1500))
				continue
			}
			present := map[string]bool{}
			for _, d := range m.DataDefinitions() {
				present[d.Ident()] = true
			}
			if !present["always"] {
				c.Violate("expr/unguarded-removed/"+sname, "the unguarded leaf disappeared")
			}
			on := assignMap(assign)
			for i, e := range exprs {
				c.Eval()
				want := e.eval(on)
				c.Shape("%s/%03b/%s", e.shape(), assign, sname)
				if got := present[fmt.Sprintf("g%d", i)]; got != want {
					cls := "present-when-false"
					if want {
						cls = "absent-when-true"
					}
					c.Violate("expr/"+cls+"/"+opsOf(e)+"/"+sname, "if-feature %q with a=%v b=%v c=%v (%s): definition present=%v, expression is %v", e.render(variant), on["a"], on["b"], on["c"], sname, got, want)
				}
			}
		}
	}
}

func opsOf(e *fexpr) string {
	set := map[string]bool{}
	var rec func(x *fexpr)
	rec = func(x *fexpr) {
		if x == nil {
			return
		}
		if x.op != "" {
			set[x.op] = true
		}
		rec(x.l)
		rec(x.r)
	}
	rec(e)
	var ops []string
	for k := range set {
		ops = append(ops, k)
	}
	sort.Strings(ops)
	if len(ops) == 0 {
		return "plain"
	}
	return strings.Join(ops, "+")
}

// importedFeatures: if-feature inside a grouping of an imported module follows that module's features under
// the same allow / deny configuration.
// importedDeviation: a module that deviates nodes of a module it imports: the imported module's tree is what changes, for
// walks and for lookups by name alike
func (p c11) importedDeviation(c *core.Ctx) {
	base := "module base { namespace \"urn:base\"; prefix b; revision 2020-01-01;\n" +
		"  container c { leaf plain { type string; } leaf keep { type string; } choice ch { case k { leaf l { type string; } leaf l2 { type string; } } } list li { key k; leaf k { type string; } leaf v { type string; } } } }\n"
	all := []struct {
		path string
		gone []string
	}{{"/b:c/b:ch/b:k/b:l", []string{"c/l", "c/ch/k/l"}}, {"/b:c/b:plain", []string{"c/plain"}}, {"/b:c/b:li/b:v", []string{"c/li/v"}}}
	// one deviation at a time (the node in the case is then the only thing its container loses), and all together
	for variant := 0; variant <= len(all); variant++ {
		devs := all
		if variant < len(all) {
			devs = all[variant : variant+1]
		}
		main := "module main { namespace \"urn:main\"; prefix m; import base { prefix b; } revision 2020-01-01;\n"
		var gone []string
		for _, d := range devs {
			main += "  deviation \"" + d.path + "\" { deviate not-supported; }\n"
			gone = append(gone, d.gone...)
		}
		main += "  leaf own { type string; } }\n"
		opener := func(name, ext string) (io.Reader, error) {
			switch name {
			case "base":
				return strings.NewReader(base), nil
			case "main":
				return strings.NewReader(main), nil
			}
			return nil, nil
		}
		c.Eval()
		c.Shape("deviation/imported-module/%d", variant)
		var m *meta.Module
		var err error
		if c.Guard("load imported deviation", func() { m, err = parser.LoadModule(opener, "main") }) {
			continue
		}
		if err != nil {
			c.Violate("deviation/imported-module/load-error", "%v\n%s%s", err, main, base)
			continue
		}
		imp := m.Imports()["b"]
		if imp == nil || imp.Module() == nil {
			c.Violate("deviation/imported-module/no-import", "the import of base is not there\n%s", main)
			continue
		}
		bm := imp.Module()
		for _, g := range gone {
			if meta.Find(bm, g) != nil {
				c.Violate("deviation/imported-module/still-found", "base:%s is not-supported by a deviation of main and is still found by name\n%s%s", g, main, base)
			}
		}
		for _, stays := range []string{"c/keep", "c/l2", "c/li/k"} {
			if meta.Find(bm, stays) == nil {
				c.Violate("deviation/imported-module/lost", "base:%s is not deviated and is not found\n%s%s", stays, main, base)
			}
		}
		if _, w := walk.Dump(bm); w != nil {
			for _, pr := range w.Problems {
				c.Violate("deviation/imported-module/by-name/"+strings.SplitN(pr, ":", 2)[0], "%s\n%s%s", pr, main, base)
			}
		}
	}
}

func (p c11) importedFeatures(c *core.Ctx) {
	imp := "module imp { namespace \"urn:imp\"; prefix imp; revision 2020-01-01; feature x; feature y;\n" +
		"  grouping g { leaf gx { if-feature x; type string; } leaf gnx { if-feature \"not x\"; type string; } leaf gy { if-feature \"x or y\"; type string; } leaf gplain { type string; } } }\n"
	// feature names with the module's own prefix, with the prefix of the import, and features a submodule defines
	main := "module m { namespace \"urn:m\"; prefix m; import imp { prefix imp; } include sub; revision 2020-01-01; feature a;\n" +
		"  uses imp:g; leaf ga { if-feature a; type string; } leaf gown { if-feature \"m:a\"; type string; } leaf gimp { if-feature \"imp:x\"; type string; }\n" +
		"  leaf gmix { if-feature \"m:a and not imp:y\"; type string; } leaf gsub { if-feature s; type string; } leaf gsubp { if-feature \"m:s or imp:x\"; type string; } }\n"
	sub := "submodule sub { belongs-to m { prefix m; } feature s; leaf ins { if-feature s; type string; } leaf insa { if-feature \"m:a\"; type string; } }\n"
	opener := func(name, ext string) (io.Reader, error) {
		switch name {
		case "imp":
			return strings.NewReader(imp), nil
		case "m":
			return strings.NewReader(main), nil
		case "sub":
			return strings.NewReader(sub), nil
		}
		return nil, nil
	}
	names := []string{"a", "x", "y", "s"}
	for assign := 0; assign < 16; assign++ {
		for style := 0; style < 2; style++ {
			var on, off []string
			onm := map[string]bool{}
			for i, n := range names {
				if assign&(1<<i) != 0 {
					on = append(on, n)
					onm[n] = true
				} else {
					off = append(off, n)
				}
			}
			opts := parser.Options{Features: meta.FeaturesOn(on)}
			sname := "allow-list"
			if style == 1 {
				opts = parser.Options{Features: meta.FeaturesOff(off)}
				sname = "deny-list"
			}
			c.Eval()
			var m *meta.Module
			var err error
			if c.Guard("load imported features", func() { m, err = parser.LoadModuleWithOptions(opener, "m", opts) }) {
				continue
			}
			if err != nil {
				c.Violate("imported/load-error", "%v", err)
				continue
			}
			present := map[string]bool{}
			for _, d := range m.DataDefinitions() {
				present[d.Ident()] = true
			}
			want := map[string]bool{"gx": onm["x"], "gnx": !onm["x"], "gy": onm["x"] || onm["y"], "gplain": true, "ga": onm["a"],
				"gown": onm["a"], "gimp": onm["x"], "gmix": onm["a"] && !onm["y"], "gsub": onm["s"], "gsubp": onm["s"] || onm["x"], "ins": onm["s"], "insa": onm["a"]}
			c.Shape("imported/%04b/%s", assign, sname)
			for n, w := range want {
				if present[n] != w {
					c.Violate("imported/"+sname+"/"+n, "features a,x,y,s=%04b (%s): %s present=%v, want %v (x,y are features of the imported module, s of the submodule)", assign, sname, n, present[n], w)
				}
			}
		}
	}
}

// kinds: every guardable statement kind.
func (p c11) kinds(c *core.Ctx, k int) {
	if k%12 == 0 {
		p.importedFeatures(c)
	}
	if k%12 == 6 {
		p.importedDeviation(c)
	}
	exprs := allExprs(2)
	e := exprs[(k*7)%len(exprs)]
	ex := e.render(k % 3)
	iff := fmt.Sprintf("if-feature \"%s\";", ex)
	type kindCase struct {
		name  string
		body  string
		check func(m *meta.Module) bool // is the guarded definition present?
	}
	has := func(defs []meta.Definition, name string) bool {
		for _, d := range defs {
			if d.Ident() == name {
				return true
			}
		}
		return false
	}
	kcs := []kindCase{
		{"container", "container g { " + iff + " leaf x { type string; } }", func(m *meta.Module) bool { return has(m.DataDefinitions(), "g") }},
		{"list", "list g { " + iff + " key k; leaf k { type string; } }", func(m *meta.Module) bool { return has(m.DataDefinitions(), "g") }},
		{"leaf", "leaf g { " + iff + " type string; }", func(m *meta.Module) bool { return has(m.DataDefinitions(), "g") }},
		{"leaf-list", "leaf-list g { " + iff + " type string; }", func(m *meta.Module) bool { return has(m.DataDefinitions(), "g") }},
		{"choice", "choice g { " + iff + " case c1 { leaf x { type string; } } }", func(m *meta.Module) bool { return has(m.DataDefinitions(), "g") }},
		{"case", "choice ch { case g { " + iff + " leaf x { type string; } } case other { leaf y { type string; } } }", func(m *meta.Module) bool {
			for _, d := range m.DataDefinitions() {
				if ch, ok := d.(*meta.Choice); ok {
					_, found := ch.Cases()["g"]
					return found
				}
			}
			return false
		}},
		{"case-member", "container t { choice ch { case k1 { leaf g { " + iff + " type string; } leaf y { type string; } } case k2 { leaf z { type string; } } } }", func(m *meta.Module) bool {
			for _, d := range m.DataDefinitions() {
				if ct, ok := d.(*meta.Container); ok && ct.Ident() == "t" {
					for _, cd := range ct.DataDefinitions() {
						if ch, ok := cd.(*meta.Choice); ok {
							if k1 := ch.Cases()["k1"]; k1 != nil {
								return has(k1.DataDefinitions(), "g")
							}
						}
					}
				}
			}
			return false
		}},
		{"anydata", "anydata g { " + iff + " description \"d\"; }", func(m *meta.Module) bool { return has(m.DataDefinitions(), "g") }},
		{"uses", "grouping gr { leaf g { type string; } } uses gr { " + iff + " }", func(m *meta.Module) bool { return has(m.DataDefinitions(), "g") }},
		{"augment", "container t { leaf z { type string; } } augment \"/t\" { " + iff + " leaf g { type string; } }", func(m *meta.Module) bool {
			for _, d := range m.DataDefinitions() {
				if ct, ok := d.(*meta.Container); ok && ct.Ident() == "t" {
					return has(ct.DataDefinitions(), "g")
				}
			}
			return false
		}},
		{"augment-action", "container t { leaf z { type string; } } augment \"/t\" { action g { " + iff + " } leaf other { type string; } }", func(m *meta.Module) bool {
			for _, d := range m.DataDefinitions() {
				if ct, ok := d.(*meta.Container); ok && ct.Ident() == "t" {
					_, found := ct.Actions()["g"]
					return found
				}
			}
			return false
		}},
		{"augment-notification", "container t { leaf z { type string; } } augment \"/t\" { notification g { " + iff + " leaf e { type string; } } }", func(m *meta.Module) bool {
			for _, d := range m.DataDefinitions() {
				if ct, ok := d.(*meta.Container); ok && ct.Ident() == "t" {
					_, found := ct.Notifications()["g"]
					return found
				}
			}
			return false
		}},
		{"uses-augment", "grouping gr { container t { leaf z { type string; } } } uses gr { augment t { " + iff + " leaf g { type string; } } }", func(m *meta.Module) bool {
			for _, d := range m.DataDefinitions() {
				if ct, ok := d.(*meta.Container); ok && ct.Ident() == "t" {
					return has(ct.DataDefinitions(), "g")
				}
			}
			return false
		}},
		{"uses-augment-case", "grouping gr { container t { choice ch { case a { leaf a1 { type string; } } } } } uses gr { augment \"t/ch\" { case g { " + iff + " leaf gx { type string; } } } }", func(m *meta.Module) bool {
			if ch, ok := meta.Find(m, "t/ch").(*meta.Choice); ok {
				_, found := ch.Cases()["g"]
				return found
			}
			return false
		}},
		{"shorthand-case-leaf", "container t { choice ch { leaf g { " + iff + " type string; } leaf other { type string; } } }", func(m *meta.Module) bool {
			// the implied case goes with its only member
			if ch, ok := meta.Find(m, "t/ch").(*meta.Choice); ok {
				_, found := ch.Cases()["g"]
				return found
			}
			return false
		}},
		{"refine", "grouping gr { leaf r1 { type string; } leaf r2 { type string; } leaf r3 { type string; } } uses gr { refine r1 { description \"first\"; } refine r2 { " + iff + " description \"g\"; } refine r3 { description \"third\"; } }", func(m *meta.Module) bool {
			for _, d := range m.DataDefinitions() {
				if d.Ident() == "r2" {
					return d.(meta.Describable).Description() == "g"
				}
			}
			return false
		}},
		{"rpc", "rpc g { " + iff + " description \"d\"; }", func(m *meta.Module) bool { _, ok := m.Actions()["g"]; return ok }},
		{"notification", "notification g { " + iff + " leaf x { type string; } }", func(m *meta.Module) bool { _, ok := m.Notifications()["g"]; return ok }},
	}
	kc := kcs[k%len(kcs)]
	text := c11hdr + "  " + kc.body + "\n  leaf always { type string; }\n}\n"
	c.SetSample(map[string]interface{}{"kind": kc.name, "module": text})
	for assign := 0; assign < 8; assign++ {
		for style := 0; style < 2; style++ {
			opts, sname := featureOpts(assign, style)
			c.Eval()
			var m *meta.Module
			var err error
			if c.Guard("load", func() { m, err = parser.LoadModuleFromStringWithOptions(nil, text, opts) }) {
				continue
			}
			if err != nil {
				c.Violate("kind/load-error/"+kc.name, "%v\n%s", err, text)
				continue
			}
			want := e.eval(assignMap(assign))
			got := kc.check(m)
			c.Shape("kind/%s/%v/%s", kc.name, want, sname)
			if _, w := walk.Dump(m); w != nil {
				// what is removed is gone for lookups by name too, what stays is found
				for _, pr := range w.Problems {
					c.Violate("kind/by-name/"+strings.SplitN(pr, ":", 2)[0]+"/"+kc.name, "%s guarded by %q, a,b,c=%03b (%s): %s\n%s", kc.name, ex, assign, sname, pr, text)
				}
			}
			if got != want {
				cls := "present-when-false"
				if want {
					cls = "absent-when-true"
				}
				c.Violate("kind/"+kc.name+"/"+cls, "%s guarded by %q, a,b,c=%03b (%s): present=%v, want %v\n%s", kc.name, ex, assign, sname, got, want, text)
			}
			if kc.name == "refine" {
				// a refine whose feature is off must not disturb the other refines of the same uses
				for _, d := range m.DataDefinitions() {
					if d.Ident() == "r1" && d.(meta.Describable).Description() != "first" {
						c.Violate("kind/refine/other-refine-lost", "refine r1 was not applied\n%s", text)
					}
					if d.Ident() == "r3" && d.(meta.Describable).Description() != "third" {
						c.Violate("kind/refine/later-refine-skipped", "with the guarded refine off (want=%v), the refine of r3 written after it was not applied\n%s", want, text)
					}
				}
			}
			found := false
			for _, d := range m.DataDefinitions() {
				if d.Ident() == "always" {
					found = true
				}
			}
			if !found {
				c.Violate("kind/"+kc.name+"/unguarded-removed", "the unguarded sibling disappeared\n%s", text)
			}
		}
	}
	// malformed expressions are errors
	for _, bad := range []string{"", "a and", "and a", "a or", "not", "(a", "a)", "a b", "a and and b", "()", "a or or b", "not not", "a and (b", "((a)"} {
		c.Eval()
		t := c11hdr + "  leaf g { if-feature \"" + bad + "\"; type string; }\n}\n"
		var err error
		var m *meta.Module
		if c.Guard("load malformed", func() { m, err = parser.LoadModuleFromString(nil, t) }) {
			continue
		}
		c.Shape("malformed/%s", bad)
		if err == nil {
			present := false
			for _, d := range m.DataDefinitions() {
				if d.Ident() == "g" {
					present = true
				}
			}
			c.Violate("malformed-accepted/"+malformedClass(bad), "the malformed if-feature expression %q was accepted (guarded leaf present=%v)", bad, present)
		}
	}
}

func malformedClass(b string) string {
	switch {
	case b == "":
		return "empty"
	case strings.Count(b, "(") != strings.Count(b, ")"):
		return "unbalanced-paren"
	case b == "()" || b == "not" || b == "not not":
		return "missing-operand"
	case strings.HasSuffix(b, "and") || strings.HasSuffix(b, "or") || strings.HasPrefix(b, "and") || strings.Contains(b, "and and") || strings.Contains(b, "or or"):
		return "dangling-operator"
	}
	return "juxtaposition"
}

// ---- deviations -----------------------------------------------------------------------------------

// dumpPaths flattens a dump into path -> value text.
func dumpPaths(v interface{}, pre string, out map[string]string) {
	switch x := v.(type) {
	case map[string]interface{}:
		for k, c := range x {
			dumpPaths(c, pre+"."+k, out)
		}
	case []interface{}:
		for i, c := range x {
			dumpPaths(c, fmt.Sprintf("%s.%d", pre, i), out)
		}
	default:
		out[pre] = fmt.Sprintf("%v", x)
	}
}

func (p c11) deviations(c *core.Ctx, k int) {
	base := `
  container co { leaf in { type string; } }
  list li { key k; unique "u1"; min-elements 1; max-elements 9; leaf k { type string; } leaf u1 { type string; } leaf u2 { type string; } }
  leaf le { type int32; units "m"; default "5"; mandatory false; config true; must "a > 1"; must "b > 2"; }
  leaf plain { type string; }
  leaf-list ll { type string; max-elements 4; }
  choice ch { case c1 { leaf cx { type string; } } case c2 { leaf cy { type string; } } }
  anydata ad { description "x"; }
  rpc act { description "x"; }
  notification nt { leaf nx { type string; } }
  grouping gl { list gli { key k; unique "g1"; unique "g2 g3"; unique "g4"; leaf k { type string; } leaf g1 { type string; } leaf g2 { type string; } leaf g3 { type string; } leaf g4 { type string; }
    leaf gle { type int32; must "k > 1"; must "k > 2"; units "m"; default "1"; } } }
  container ga { uses gl; }
  container gb { uses gl; }
  leaf-list lld { type string; default "c"; default "a"; default "b"; }
  choice ch2 { leaf ca { type string; } leaf cb { type string; } }
  list li2 { key k; unique "u2 u1"; unique "u3 u1"; leaf k { type string; } leaf u1 { type string; } leaf u2 { type string; } leaf u3 { type string; } }
`
	type dev struct {
		name    string
		text    string
		changed []string // dump path prefixes allowed (and required) to change
		wantErr bool
	}
	devs := []dev{
		{"not-supported/container", `deviation "/co" { deviate not-supported; }`, []string{".children"}, false},
		{"not-supported/list", `deviation "/li" { deviate not-supported; }`, []string{".children"}, false},
		{"not-supported/leaf", `deviation "/le" { deviate not-supported; }`, []string{".children"}, false},
		{"not-supported/leaf-list", `deviation "/ll" { deviate not-supported; }`, []string{".children"}, false},
		{"not-supported/nested-leaf", `deviation "/co/in" { deviate not-supported; }`, []string{".children.0.children"}, false},
		{"not-supported/choice", `deviation "/ch" { deviate not-supported; }`, []string{".children"}, false},
		{"not-supported/anydata", `deviation "/ad" { deviate not-supported; }`, []string{".children"}, false},
		{"not-supported/rpc", `deviation "/act" { deviate not-supported; }`, []string{".actions"}, false},
		{"not-supported/notification", `deviation "/nt" { deviate not-supported; }`, []string{".notifications"}, false},
		{"replace/units", `deviation "/le" { deviate replace { units "cm"; } }`, []string{".children.2.units"}, false},
		{"replace/default", `deviation "/le" { deviate replace { default "7"; } }`, []string{".children.2.default"}, false},
		{"replace/config", `deviation "/le" { deviate replace { config false; } }`, []string{".children.2.config"}, false},
		{"replace/mandatory", `deviation "/le" { deviate replace { mandatory true; } }`, []string{".children.2.mandatory"}, false},
		{"replace/type", `deviation "/le" { deviate replace { type string { length "1..4"; } } }`, []string{".children.2.type"}, false},
		{"replace/type-leaf-list", `deviation "/ll" { deviate replace { type int8; } }`, []string{".children.4.type"}, false},
		{"replace/type-container", `deviation "/co" { deviate replace { type string; } }`, nil, true},
		{"replace/max-elements", `deviation "/li" { deviate replace { max-elements 3; } }`, []string{".children.1.max"}, false},
		{"replace/min-elements", `deviation "/li" { deviate replace { min-elements 2; } }`, []string{".children.1.min"}, false},
		{"add/units", `deviation "/plain" { deviate add { units "kg"; } }`, []string{".children.3.units"}, false},
		{"add/default", `deviation "/plain" { deviate add { default "dflt"; } }`, []string{".children.3.default", ".children.3.has-default"}, false},
		{"add/must", `deviation "/plain" { deviate add { must "c > 3"; } }`, []string{".children.3.musts"}, false},
		{"add/unique", `deviation "/li" { deviate add { unique "u2"; } }`, []string{".children.1.unique"}, false},
		// two uses of one grouping, each given a unique of its own
		{"add/unique-per-use", `deviation "/ga/gli" { deviate add { unique "k g1"; } } deviation "/gb/gli" { deviate add { unique "k g4"; } }`, []string{".children.7.children.0.unique", ".children.8.children.0.unique"}, false},
		{"add/max-elements", `deviation "/co" { deviate add { max-elements 3; } }`, nil, true},
		{"add/units-already-set", `deviation "/le" { deviate add { units "cm"; } }`, nil, true},
		{"delete/units", `deviation "/le" { deviate delete { units "m"; } }`, []string{".children.2.units"}, false},
		{"delete/units-mismatch", `deviation "/le" { deviate delete { units "zz"; } }`, nil, true},
		{"delete/default", `deviation "/le" { deviate delete { default "5"; } }`, []string{".children.2.default", ".children.2.has-default"}, false},
		{"delete/must", `deviation "/le" { deviate delete { must "a > 1"; } }`, []string{".children.2.musts"}, false},
		{"delete/unique", `deviation "/li" { deviate delete { unique "u1"; } }`, []string{".children.1.unique"}, false},
		{"delete/must-missing", `deviation "/le" { deviate delete { must "zz"; } }`, nil, true},
		{"shared-grouping/delete-unique", `deviation "/ga/gli" { deviate delete { unique "g1"; } }`, []string{".children.7.children.0.unique"}, false},
		{"shared-grouping/delete-middle-unique", `deviation "/ga/gli" { deviate delete { unique "g2 g3"; } }`, []string{".children.7.children.0.unique"}, false},
		{"shared-grouping/add-unique", `deviation "/gb/gli" { deviate add { unique "g1 g4"; } }`, []string{".children.8.children.0.unique"}, false},
		{"shared-grouping/delete-must", `deviation "/ga/gli/gle" { deviate delete { must "k > 1"; } }`, []string{".children.7.children.0.children.5.musts"}, false},
		{"shared-grouping/replace-units", `deviation "/gb/gli/gle" { deviate replace { units "cm"; default "2"; } }`, []string{".children.8.children.0.children.5.units", ".children.8.children.0.children.5.default"}, false},
		{"delete/both-musts", `deviation "/le" { deviate delete { must "a > 1"; must "b > 2"; } }`, []string{".children.2.musts"}, false},
		{"delete/must+units", `deviation "/le" { deviate delete { must "b > 2"; units "m"; } }`, []string{".children.2.musts", ".children.2.units"}, false},
		{"target-missing", `deviation "/nope" { deviate not-supported; }`, nil, true},
		{"add/two-add-statements", `deviation "/plain" { deviate add { units "kg"; } deviate add { default "d"; } }`, []string{".children.3.units", ".children.3.default", ".children.3.has-default"}, false},
		{"delete/one-default-of-leaf-list", `deviation "/lld" { deviate delete { default "a"; } }`, []string{".children.9.default"}, false},
		{"add/default-on-choice", `deviation "/ch2" { deviate add { default "ca"; } }`, []string{".children.10.default", ".children.10.has-default"}, false},
		{"delete/unique-keeps-order-of-others", `deviation "/li2" { deviate delete { unique "u3 u1"; } }`, []string{".children.11.unique"}, false},
		{"multi/add+replace+delete", `deviation "/le" { deviate add { must "c > 3"; } deviate replace { units "cm"; } deviate delete { default "5"; } }`, []string{".children.2.musts", ".children.2.units", ".children.2.default", ".children.2.has-default"}, false},
		{"multi/replace+delete", `deviation "/li" { deviate replace { max-elements 3; } deviate delete { unique "u1"; } }`, []string{".children.1.max", ".children.1.unique"}, false},
	}
	d := devs[k%len(devs)]
	hdr := "module m { namespace \"urn:m\"; prefix m; revision 2020-01-01;\n"
	load := func(extra string) (map[string]string, error) {
		m, err := parser.LoadModuleFromString(nil, hdr+base+extra+"\n}\n")
		if err != nil {
			return nil, err
		}
		dm, w := walk.Dump(m)
		for _, pr := range w.Problems {
			// a node a deviation removed is gone for lookups by name too
			c.Violate("deviation/by-name/"+strings.SplitN(pr, ":", 2)[0]+"/"+d.name, "%s\n%s", pr, hdr+base+extra)
		}
		var generic interface{}
		if e := jsonUnmarshal(walk.JSON(dm), &generic); e != nil {
			return nil, e
		}
		out := map[string]string{}
		dumpPaths(generic, "", out)
		return out, nil
	}
	c.Eval()
	c.Shape("deviation/%s", d.name)
	c.SetSample(map[string]interface{}{"deviation": d.text})
	var without, with map[string]string
	var err0, err1 error
	if c.Guard("load deviation "+d.name, func() { without, err0 = load(""); with, err1 = load(d.text) }) {
		return
	}
	if err0 != nil {
		c.Violate("deviation/harness", "base module does not load: %v", err0)
		return
	}
	if d.wantErr {
		if err1 == nil {
			c.Violate("deviation/"+d.name+"/accepted", "an illegal deviation was accepted: %s", d.text)
		}
		return
	}
	if err1 != nil {
		c.Violate("deviation/"+d.name+"/load-error", "a legal deviation was rejected: %v\n%s", err1, d.text)
		return
	}
	// exactly the named paths change (module-level bookkeeping of the deviation itself excluded)
	allowed := func(path string) bool {
		for _, pre := range d.changed {
			if strings.HasPrefix(path, pre) {
				return true
			}
		}
		return false
	}
	changedAny := false
	var extra []string
	keys := map[string]bool{}
	for k := range without {
		keys[k] = true
	}
	for k := range with {
		keys[k] = true
	}
	for k := range keys {
		if without[k] != with[k] {
			if allowed(k) {
				changedAny = true
			} else {
				extra = append(extra, fmt.Sprintf("%s: %q -> %q", k, without[k], with[k]))
			}
		}
	}
	sort.Strings(extra)
	if !changedAny {
		c.Violate("deviation/"+d.name+"/no-effect", "the deviation changed nothing at %v\n%s", d.changed, d.text)
	}
	if len(extra) > 0 {
		if len(extra) > 8 {
			extra = extra[:8]
		}
		c.Violate("deviation/"+d.name+"/changed-more", "the deviation changed more than the named property:\n%s\n%s", strings.Join(extra, "\n"), d.text)
	}
	// specific value checks
	switch d.name {
	case "add/two-add-statements":
		p.want(c, d.name, with, ".children.3.units", "kg")
		p.want(c, d.name, with, ".children.3.default", "d")
	case "delete/one-default-of-leaf-list":
		p.want(c, d.name, with, ".children.9.default", "[c b]")
	case "delete/unique-keeps-order-of-others":
		p.want(c, d.name, with, ".children.11.unique.0.0", "u2")
		p.want(c, d.name, with, ".children.11.unique.0.1", "u1")
	case "replace/units":
		p.want(c, d.name, with, ".children.2.units", "cm")
	case "replace/default":
		p.want(c, d.name, with, ".children.2.default", "7")
	case "add/units":
		p.want(c, d.name, with, ".children.3.units", "kg")
	case "delete/units":
		p.want(c, d.name, with, ".children.2.units", "")
	case "replace/max-elements":
		p.want(c, d.name, with, ".children.1.max", "3")
	case "add/must":
		n := 0
		for k := range with {
			if strings.HasPrefix(k, ".children.3.musts.") && strings.HasSuffix(k, ".expr") {
				n++
			}
		}
		if n != 1 {
			c.Violate("deviation/add/must/count", "deviate add { must } left %d must statements on the target, want 1\n%s", n, d.text)
		}
	case "multi/add+replace+delete":
		p.want(c, d.name, with, ".children.2.units", "cm")
		p.want(c, d.name, with, ".children.2.has-default", "false")
		if with[".children.2.musts.2.expr"] != "c > 3" {
			c.Violate("deviation/"+d.name+"/wrong-value", "the added must is missing: %v", with[".children.2.musts.2.expr"])
		}
	case "multi/replace+delete":
		p.want(c, d.name, with, ".children.1.max", "3")
		if _, still := with[".children.1.unique.0.0"]; still {
			c.Violate("deviation/"+d.name+"/wrong-value", "unique u1 was not deleted")
		}
	case "replace/type":
		p.want(c, d.name, with, ".children.2.type.format", "string")
		p.want(c, d.name, with, ".children.2.type.length.0.s", "1..4")
	case "replace/type-leaf-list":
		p.want(c, d.name, with, ".children.4.type.format", "int8-list")
	case "add/unique-per-use":
		p.want(c, d.name, with, ".children.7.children.0.unique.3.0", "k")
		p.want(c, d.name, with, ".children.7.children.0.unique.3.1", "g1")
		p.want(c, d.name, with, ".children.8.children.0.unique.3.1", "g4")
	case "delete/both-musts":
		for k := range with {
			if strings.HasPrefix(k, ".children.2.musts.") && strings.HasSuffix(k, ".expr") {
				c.Violate("deviation/delete/both-musts/left", "deviate delete naming both must statements left %q", with[k])
			}
		}
	case "delete/must":
		n := 0
		for k := range with {
			if strings.HasPrefix(k, ".children.2.musts.") && strings.HasSuffix(k, ".expr") {
				n++
			}
		}
		if n != 1 {
			c.Violate("deviation/delete/must/count", "deviate delete { must } left %d must statements, want 1", n)
		}
	}
}

func (p c11) want(c *core.Ctx, name string, dump map[string]string, path, want string) {
	if got := dump[path]; got != want {
		c.Violate("deviation/"+name+"/wrong-value", "after the deviation %s = %q, want %q", path, got, want)
	}
}
