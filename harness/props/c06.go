package props

import (
	"fmt"
	"hash/fnv"
	"math/rand"
	"strconv"
	"strings"

	"github.com/freeconf/yang/meta"
	"github.com/freeconf/yang/parser"

	"verif/core"
	"verif/sup"
	"verif/walk"
)

// C06 — nothing written in a module is lost or altered on the way into the schema.

type c06 struct{}

func init() { core.Register(c06{}) }

func (c06) ID() string    { return "C06" }
func (c06) Level() string { return "exploration" }
func (c06) Rule() string {
	return "generated module texts: header statements, revisions, features, identities, extension definitions, typedefs, data nodes of every kind with " +
		"their property statements (config, mandatory, presence, min/max-elements, ordered-by, key, unique, when, must + error-message/error-app-tag, status, " +
		"units, default, description, reference), rpc/notification, extension statements with arguments; every string argument spelled in one of 6 quoting " +
		"styles (double quoted with escapes, single quoted, unquoted where legal, '+' concatenation of 2..100 parts, comments and whitespace between tokens). " +
		"Oracle: the renderer records what each argument denotes (RFC 7950 6.1.3) and where it must be found in the canonical dump (public accessors); " +
		"sibling order; dump equality across 5 loads in-process and across worker processes. A shape = (statement kind, quoting style, parent kind)"
}
func (c06) MinEvals(string) int { return 2000 }

func (c06) NumCases(tier string, seed int64) int {
	if tier == "thorough" {
		return 3000
	}
	return 300
}

type exp6 struct {
	path string // dotted path into the dump
	want interface{}
	stmt string // statement kind (for signatures)
	sty  string
}

type gen6 struct {
	cfgFalse int // depth of enclosing config false statements
	r        *rand.Rand
	b        strings.Builder
	exp      []exp6
	style    int // -1: per string random
	ind      int
	seq      int
	noEsc    bool
	longCat  bool
	pfx      string // the module's prefix
	// the last line still lacks its line break; tight counts the statements written without one
	pendingNL bool
	tight     int
}

var textCatalog = []string{"plain text", "x", "two words", "with 'single' quotes", "semi;colon", "curly{brace}", "slash/and//slashes", "star/*not comment*/", "plus + sign", "tab\there",
	"line\nbreak", "quote\"inside", "back\\slash", "é世界", "trailing space ", " leading", "", "a", "1234", "-5", "true", "module", "leaf x { type string; }", "$var @at #hash", "a/b:c", "100%",
	// a backslash followed by n, t, backslash or a double quote: two characters each, which only a double-quoted string decodes
	"literal\\nnot a line break", "literal\\ttab", "two\\\\backslashes", "bs\\\"dq", "ends with backslash\\"}

var styleNames = []string{"dquote", "squote", "unquoted", "concat", "dquote-escapes", "concat-many"}

// spell renders text in a quoting style that denotes exactly text; it returns the spelling and the style used.
func (g *gen6) spell(text string) (string, string) { return g.spellC(text, true) }

// spellC: concatOK tells whether the statement's grammar takes a concatenated string.
func (g *gen6) spellC(text string, concatOK bool) (string, string) {
	st := g.style
	if st < 0 {
		st = g.r.Intn(len(styleNames))
	}
	if !concatOK && (st == 3 || st == 5) {
		st = 0
	}
	needsEsc := strings.ContainsAny(text, "\"\\\n\t")
	dq := func(t string) string {
		t = strings.ReplaceAll(t, "\\", "\\\\")
		t = strings.ReplaceAll(t, "\"", "\\\"")
		t = strings.ReplaceAll(t, "\n", "\\n")
		t = strings.ReplaceAll(t, "\t", "\\t")
		return "\"" + t + "\""
	}
	sq := func(t string) (string, bool) {
		if strings.Contains(t, "'") {
			return "", false
		}
		return "'" + t + "'", true
	}
	switch st {
	case 1: // single quoted: no escapes, cannot hold a single quote
		if s, ok := sq(text); ok {
			return s, "squote"
		}
	case 2: // unquoted: no whitespace, no ; { } quotes, not starting a comment, non-empty
		if text != "" && !strings.ContainsAny(text[:1], "0123456789-+.") && !strings.ContainsAny(text, " \t\n;{}\"'") && !strings.Contains(text, "//") && !strings.Contains(text, "/*") && !strings.Contains(text, "*/") && !strings.Contains(text, "+") {
			return text, "unquoted"
		}
	case 3, 5: // concatenation
		n := 2 + g.r.Intn(3)
		if st == 5 {
			n = 20 + g.r.Intn(81)
			if !g.longCat {
				n = 2 + g.r.Intn(3)
			}
		}
		runes := []rune(text)
		var parts []string
		for i := 0; i < n; i++ {
			lo := len(runes) * i / n
			hi := len(runes) * (i + 1) / n
			part := string(runes[lo:hi])
			if s, ok := sq(part); ok && g.r.Intn(2) == 0 && !strings.ContainsAny(part, "\n") {
				parts = append(parts, s)
			} else {
				parts = append(parts, dq(part))
			}
		}
		sep := " + "
		if g.r.Intn(3) == 0 {
			sep = "\n" + strings.Repeat(" ", g.ind+4) + "+ "
		}
		name := "concat"
		if n > 10 {
			name = "concat-many"
		}
		if needsEsc {
			name += "-escapes"
		}
		return strings.Join(parts, sep), name
	}
	if needsEsc {
		return dq(text), "dquote-escapes"
	}
	return dq(text), "dquote"
}

// kwArg spells an argument that is a word of the language (true, current, user, unbounded, an identifier, a type name): bare, or quoted
// like any other argument may be (RFC 7950 6.1.3)
func (g *gen6) kwArg(word string) string {
	switch g.r.Intn(4) {
	case 0:
		return "\"" + word + "\""
	case 1:
		return "'" + word + "'"
	}
	return word
}

func (g *gen6) pad() string { return strings.Repeat(" ", g.ind) }

// ws returns whitespace / comments legal between two tokens.
func (g *gen6) ws() string {
	switch g.r.Intn(13) {
	case 12:
		// stars next to the delimiters, a slash inside (also right after the opening star, which does not close the comment), several lines
		return []string{" /** c **/ ", " /***/ ", " /**/ ", " /* c **/ ", " /**** c ****/ ", " /* a / b * c */ ", " /*\n * c\n **/ ", " /* // */ ", " /*/ c */ ", " /*/ leaf zz { type string; } */ "}[g.r.Intn(10)]
	case 0:
		return " /* c */ "
	case 1:
		return "\n" + g.pad() + "  "
	case 2:
		return "  "
	case 3:
		return " // trailing comment\n" + g.pad() + "  "
	}
	return " "
}

func (g *gen6) line(format string, a ...interface{}) {
	// now and then a statement follows the brace or the semicolon before it without any white space ("module m {prefix m;leaf ...")
	if g.pendingNL {
		if g.r.Intn(12) == 0 {
			g.tight++
		} else {
			g.b.WriteString("\n" + g.pad())
		}
	} else {
		g.b.WriteString(g.pad())
	}
	fmt.Fprintf(&g.b, format, a...)
	g.pendingNL = true
}

// strStmt writes `kw <spelled text>;` and records the expectation.
func (g *gen6) strStmt(kw, text, path string) {
	sp, sty := g.spellC(text, kw != "units" && kw != "yang-version")
	g.line("%s%s%s;", kw, g.ws(), sp)
	g.exp = append(g.exp, exp6{path: path, want: text, stmt: kw, sty: sty})
}

func (g *gen6) text() string {
	t := textCatalog[g.r.Intn(len(textCatalog))]
	if g.noEsc {
		for strings.ContainsAny(t, "\"\\\n\t") {
			t = textCatalog[g.r.Intn(len(textCatalog))]
		}
	}
	return t
}

func (g *gen6) descRef(path string) {
	if g.r.Intn(2) == 0 {
		g.strStmt("description", g.text(), path+".description")
	}
	if g.r.Intn(3) == 0 {
		g.strStmt("reference", g.text(), path+".reference")
	}
}

func (g *gen6) ext(path string, n *int) {
	if *n < 0 {
		return
	}
	if g.r.Intn(4) == 0 {
		arg := g.text()
		sp, sty := g.spellC(arg, false)
		if g.r.Intn(6) == 0 {
			// an unquoted argument that starts like a number and is none
			arg = []string{"2020-01-01", "10.0.0.1/24", "1.2.3-rc", "5-3", "-x"}[g.r.Intn(5)]
			sp, sty = arg, "unquoted-numberlike"
		}
		g.line("%s:ext1%s%s;", g.pfx, g.ws(), sp)
		g.exp = append(g.exp, exp6{path: fmt.Sprintf("%s.ext.%d.arg", path, *n), want: arg, stmt: "extension-use", sty: sty})
		g.exp = append(g.exp, exp6{path: fmt.Sprintf("%s.ext.%d.ident", path, *n), want: "ext1", stmt: "extension-use", sty: sty})
		g.exp = append(g.exp, exp6{path: fmt.Sprintf("%s.ext.%d.prefix", path, *n), want: g.pfx, stmt: "extension-use", sty: sty})
		*n++
	}
}

func (g *gen6) musts(path string) {
	n := g.r.Intn(3)
	for i := 0; i < n; i++ {
		expr := []string{"x > 1", "../a = 'b'", "count(l) < 5", "true()", "a and b"}[g.r.Intn(5)]
		sp, sty := g.spell(expr)
		mp := fmt.Sprintf("%s.musts.%d", path, i)
		g.exp = append(g.exp, exp6{path: mp + ".expr", want: expr, stmt: "must", sty: sty})
		if g.r.Intn(2) == 0 {
			g.line("must%s%s;", g.ws(), sp)
			continue
		}
		g.line("must%s%s {", g.ws(), sp)
		g.ind += 2
		{
			g.strStmt("error-message", g.text(), mp+".error-message")
		}
		if g.r.Intn(2) == 0 {
			g.strStmt("error-app-tag", g.text(), mp+".error-app-tag")
		}
		if g.r.Intn(2) == 0 {
			g.strStmt("description", g.text(), mp+".description")
		}
		g.ind -= 2
		g.line("}")
	}
}

func (g *gen6) common(path string, kind string) {
	extN := 0
	if g.r.Intn(12) == 0 {
		// an extension statement below the description: it is listed with the node, marked with the keyword it stands under
		arg := g.text()
		sp, sty := g.spellC(arg, false)
		dsp, _ := g.spell("d")
		g.line("description%s%s {", g.ws(), dsp)
		g.line("  %s:ext1%s%s;", g.pfx, g.ws(), sp)
		g.line("}")
		g.exp = append(g.exp, exp6{path: path + ".description", want: "d", stmt: "description"})
		g.exp = append(g.exp, exp6{path: path + ".ext.0.arg", want: arg, stmt: "extension-use", sty: sty})
		g.exp = append(g.exp, exp6{path: path + ".ext.0.keyword", want: "description", stmt: "extension-use", sty: sty})
		g.exp = append(g.exp, exp6{path: path + ".ext.#", want: 1, stmt: "secondary-extension-count"})
		extN = -1 // no further extension statements on this node: the count above is all of them
	} else {
		g.descRef(path)
	}
	g.ext(path, &extN)
	if g.r.Intn(4) == 0 {
		cfg := g.r.Intn(2) == 0
		if g.cfgFalse > 0 {
			cfg = false // config true below config false is not a valid module
		}
		g.line("config %s;", g.kwArg(fmt.Sprint(cfg)))
		g.exp = append(g.exp, exp6{path: path + ".config", want: cfg, stmt: "config"})
		if !cfg && (kind == "container" || kind == "list") {
			g.cfgFalse += 1000 // marks: set by this node (undone by the caller)
		}
	}
	if g.r.Intn(4) == 0 {
		w := []string{"a = 'x'", "b > 2", "../c"}[g.r.Intn(3)]
		sp, sty := g.spell(w)
		g.line("when%s%s;", g.ws(), sp)
		g.exp = append(g.exp, exp6{path: path + ".when", want: w, stmt: "when", sty: sty})
	}
	if g.r.Intn(5) == 0 {
		st := []string{"current", "deprecated", "obsolete"}[g.r.Intn(3)]
		g.line("status %s;", g.kwArg(st))
		g.exp = append(g.exp, exp6{path: path + ".status", want: map[string]string{"current": "0", "deprecated": "1", "obsolete": "2"}[st], stmt: "status"})
	}
	if kind != "choice" && kind != "case" && kind != "anydata" {
		g.musts(path)
	}
	g.ext(path, &extN)
}

func (g *gen6) leafType(path string) {
	switch g.r.Intn(7) {
	case 0:
		g.line("type string {")
		g.ind += 2
		ln := []string{"1..10", "0..5 | 10", "min..max", "3"}[g.r.Intn(4)]
		sp, sty := g.spell(ln)
		g.line("length%s%s;", g.ws(), sp)
		g.exp = append(g.exp, exp6{path: path + ".type.length.0.s", want: ln, stmt: "length", sty: sty})
		pat := []string{"[a-z]+", "\\d{2}", "a|b", "[^;]*", "x'y"}[g.r.Intn(5)]
		sp, sty = g.spell(pat)
		g.line("pattern%s%s;", g.ws(), sp)
		g.exp = append(g.exp, exp6{path: path + ".type.patterns.0.pattern", want: pat, stmt: "pattern", sty: sty})
		g.ind -= 2
		g.line("}")
		g.exp = append(g.exp, exp6{path: path + ".type.format", want: "string", stmt: "type"})
	case 1:
		rg := []string{"0..100", "1..10 | 20..30", "min..5", "-5..max", "7"}[g.r.Intn(5)]
		sp, sty := g.spell(rg)
		g.line("type int32 { range%s%s; }", g.ws(), sp)
		g.exp = append(g.exp, exp6{path: path + ".type.range.0.s", want: rg, stmt: "range", sty: sty})
		g.exp = append(g.exp, exp6{path: path + ".type.format", want: "int32", stmt: "type"})
	case 2:
		g.line("type enumeration {")
		g.ind += 2
		names := []string{"alpha", "beta-1", "gamma_2", "d.e"}
		for i, n := range names[:2+g.r.Intn(3)] {
			sp := n
			sty := "unquoted"
			switch g.r.Intn(3) {
			case 1:
				sp, sty = "\""+n+"\"", "dquote"
			case 2:
				sp, sty = "'"+n+"'", "squote"
			}
			g.line("enum %s;", sp)
			g.exp = append(g.exp, exp6{path: fmt.Sprintf("%s.type.enum.%d.label", path, i), want: n, stmt: "enum", sty: sty})
			g.exp = append(g.exp, exp6{path: fmt.Sprintf("%s.type.enum.%d.id", path, i), want: float64(i), stmt: "enum-value", sty: sty})
		}
		g.ind -= 2
		g.line("}")
	case 3:
		fd := 1 + g.r.Intn(5)
		g.line("type decimal64 { fraction-digits %d; }", fd)
		g.exp = append(g.exp, exp6{path: path + ".type.fraction-digits", want: float64(fd), stmt: "fraction-digits"})
	case 4:
		g.line("type td1;")
		g.exp = append(g.exp, exp6{path: path + ".type.ident", want: "td1", stmt: "type"})
	case 5:
		g.line("type boolean;")
		g.exp = append(g.exp, exp6{path: path + ".type.format", want: "boolean", stmt: "type"})
	default:
		g.line("type uint16;")
		g.exp = append(g.exp, exp6{path: path + ".type.format", want: "uint16", stmt: "type"})
	}
}

// node emits one data definition and returns its kind.
func (g *gen6) node(path string, depth int, name string) {
	kinds := []string{"leaf", "leaf", "container", "list", "leaf-list", "choice", "anydata"}
	if depth >= 2 {
		kinds = []string{"leaf", "leaf-list", "anydata"}
	}
	kind := kinds[g.r.Intn(len(kinds))]
	g.exp = append(g.exp, exp6{path: path + ".ident", want: name, stmt: kind + "-ident"})
	switch kind {
	case "leaf":
		g.line("leaf %s {", g.kwArg(name))
		g.ind += 2
		// statement order inside a leaf is free
		if g.r.Intn(2) == 0 {
			g.leafType(path)
			g.common(path, kind)
		} else {
			g.common(path, kind)
			g.leafType(path)
		}
		if g.r.Intn(3) == 0 {
			u := g.text()
			if u == "" {
				u = "u" // an empty units string cannot be told from 'not stated' through the accessors
			}
			g.strStmt("units", u, path+".units")
		}
		if g.r.Intn(4) == 0 {
			m := g.r.Intn(2) == 0
			g.line("mandatory %s;", g.kwArg(fmt.Sprint(m)))
			g.exp = append(g.exp, exp6{path: path + ".mandatory", want: m, stmt: "mandatory"})
		}
		g.ind -= 2
		g.line("}")
	case "leaf-list":
		g.line("leaf-list %s {", g.kwArg(name))
		g.ind += 2
		g.line("type %s;", g.kwArg("string"))
		g.common(path, kind)
		g.listDetails(path)
		g.ind -= 2
		g.line("}")
	case "container":
		g.line("container %s {", g.kwArg(name))
		g.ind += 2
		saved := g.cfgFalse
		defer func() { g.cfgFalse = saved }()
		g.common(path, kind)
		if g.r.Intn(3) == 0 {
			g.strStmt("presence", g.text(), path+".presence")
		}
		g.kids(path, depth+1)
		g.ind -= 2
		g.line("}")
	case "list":
		g.line("list %s {", name)
		g.ind += 2
		nk := 1 + g.r.Intn(2)
		var keys []interface{}
		var keyNames []string
		for i := 0; i < nk; i++ {
			keyNames = append(keyNames, fmt.Sprintf("k%d", i))
			keys = append(keys, fmt.Sprintf("k%d", i))
		}
		// the names of a key / unique argument are separated by white space of any length (RFC 7950 sec 14: sep)
		seps := []string{" ", " ", " ", "  ", "\t", "\n", " \n  "}
		sp, sty := g.spell(strings.Join(keyNames, seps[g.r.Intn(len(seps))]))
		g.line("key%s%s;", g.ws(), sp)
		g.exp = append(g.exp, exp6{path: path + ".key", want: keys, stmt: "key", sty: sty})
		saved := g.cfgFalse
		defer func() { g.cfgFalse = saved }()
		g.common(path, kind)
		g.listDetails(path)
		if g.r.Intn(3) == 0 {
			sp, sty := g.spell("u1" + seps[g.r.Intn(len(seps))] + "u2")
			g.line("unique%s%s;", g.ws(), sp)
			g.exp = append(g.exp, exp6{path: path + ".unique.0", want: []interface{}{"u1", "u2"}, stmt: "unique", sty: sty})
		}
		for i, k := range keyNames {
			g.line("leaf %s { type string; }", k)
			g.exp = append(g.exp, exp6{path: fmt.Sprintf("%s.children.%d.ident", path, i), want: k, stmt: "leaf-ident"})
		}
		g.line("leaf u1 { type string; }")
		g.line("leaf u2 { type string; }")
		g.ind -= 2
		g.line("}")
	case "choice":
		g.line("choice %s {", name)
		g.ind += 2
		g.common(path, kind)
		for i := 0; i < 2; i++ {
			cn := fmt.Sprintf("%sc%d", name, i)
			g.line("case %s {", cn)
			g.ind += 2
			cp := fmt.Sprintf("%s.cases.%s", path, cn)
			g.descRef(cp)
			g.line("leaf %sl { type string; }", cn)
			g.exp = append(g.exp, exp6{path: cp + ".children.0.ident", want: cn + "l", stmt: "leaf-ident"})
			g.ind -= 2
			g.line("}")
		}
		g.ind -= 2
		g.line("}")
	case "anydata":
		kw := []string{"anydata", "anyxml"}[g.r.Intn(2)]
		g.line("%s %s {", kw, name)
		g.ind += 2
		g.strStmt("description", g.text(), path+".description")
		g.ind -= 2
		g.line("}")
	}
}

func (g *gen6) listDetails(path string) {
	if g.r.Intn(3) == 0 {
		n := g.r.Intn(5)
		sp := strconv.Itoa(n)
		if g.r.Intn(2) == 0 {
			sp = "\"" + sp + "\""
		}
		g.line("min-elements %s;", sp)
		g.exp = append(g.exp, exp6{path: path + ".min", want: float64(n), stmt: "min-elements"})
	}
	if g.r.Intn(3) == 0 {
		if g.r.Intn(3) == 0 {
			g.line("max-elements %s;", g.kwArg("unbounded"))
			g.exp = append(g.exp, exp6{path: path + ".unbounded", want: true, stmt: "max-elements"})
		} else {
			n := 5 + g.r.Intn(100)
			g.line("max-elements %d;", n)
			g.exp = append(g.exp, exp6{path: path + ".max", want: float64(n), stmt: "max-elements"})
		}
	}
	if g.r.Intn(4) == 0 {
		ob := []string{"user", "system"}[g.r.Intn(2)]
		g.line("ordered-by %s;", g.kwArg(ob))
		g.exp = append(g.exp, exp6{path: path + ".ordered-by", want: map[string]string{"system": "0", "user": "1"}[ob], stmt: "ordered-by"})
	}
}

func (g *gen6) kids(path string, depth int) int {
	n := 1 + g.r.Intn(4)
	for i := 0; i < n; i++ {
		g.seq++
		name := fmt.Sprintf("%s%d", []string{"n", "leafy", "list", "type-x", "key", "config"}[g.r.Intn(6)], g.seq)
		g.node(fmt.Sprintf("%s.children.%d", path, i), depth, name)
	}
	return n
}

func (g *gen6) module() {
	g.line("module m {")
	g.ind += 2
	if g.r.Intn(3) == 0 {
		v := []string{"1", "1.1"}[g.r.Intn(2)]
		sp, sty := g.spellC(v, false)
		g.line("yang-version %s;", sp)
		g.exp = append(g.exp, exp6{path: "version", want: v, stmt: "yang-version", sty: sty})
	}
	g.strStmt("namespace", "urn:example:m", "namespace")
	// a prefix may begin like a word of the language (ietf-key-chain has "key-chain")
	g.pfx = []string{"m", "m", "m", "key-chain", "leaf-x", "type2", "list-of", "min", "config-x"}[g.r.Intn(9)]
	g.line("prefix %s;", g.pfx)
	g.exp = append(g.exp, exp6{path: "prefix", want: g.pfx, stmt: "prefix"})
	if g.r.Intn(2) == 0 {
		g.strStmt("organization", g.text(), "organization")
	}
	if g.r.Intn(2) == 0 {
		g.strStmt("contact", g.text(), "contact")
	}
	g.descRef("")
	nrev := g.r.Intn(3)
	for i := 0; i < nrev; i++ {
		date := fmt.Sprintf("20%02d-0%d-1%d", 20-i, 1+g.r.Intn(9), g.r.Intn(9))
		sp := date
		sty := "unquoted"
		if g.r.Intn(2) == 0 {
			sp, sty = "\""+date+"\"", "dquote"
		}
		g.exp = append(g.exp, exp6{path: fmt.Sprintf("revisions.%d.ident", i), want: date, stmt: "revision", sty: sty})
		if g.r.Intn(2) == 0 {
			g.line("revision %s;", sp)
		} else {
			g.line("revision %s {", sp)
			g.ind += 2
			g.strStmt("description", g.text(), fmt.Sprintf("revisions.%d.description", i))
			g.ind -= 2
			g.line("}")
		}
	}
	g.line("extension ext1 { argument a; description \"an extension\"; }")
	g.line("feature f1 {")
	g.ind += 2
	g.strStmt("description", g.text(), "features.f1.description")
	g.ind -= 2
	g.line("}")
	g.line("identity id1 {")
	g.ind += 2
	g.strStmt("description", g.text(), "identities.id1.description")
	g.ind -= 2
	g.line("}")
	g.line("typedef td1 {")
	g.ind += 2
	g.line("type string;")
	if g.r.Intn(2) == 0 {
		g.strStmt("units", g.text(), "typedefs.td1.units")
	}
	g.descRef("typedefs.td1")
	g.ind -= 2
	g.line("}")
	ntop := g.kids("", 1)
	if g.r.Intn(2) == 0 {
		// what a refine states is written in the module too: it is read back from the refined node
		g.line("grouping gr { container rc { leaf rl { type string; } } list rls { key k; min-elements 1; max-elements 10; leaf k { type string; } } leaf-list rll { type string; min-elements 2; max-elements 20; } }")
		sp := fmt.Sprintf(".children.%d", ntop)
		g.exp = append(g.exp, exp6{path: sp + ".ident", want: "site", stmt: "container-ident"})
		g.line("container site {")
		g.ind += 2
		g.line("uses gr {")
		g.ind += 2
		g.line("refine rc/rl {")
		g.ind += 2
		g.musts(sp + ".children.0.children.0")
		g.descRef(sp + ".children.0.children.0")
		g.ind -= 2
		g.line("}")
		g.line("refine rc {")
		g.ind += 2
		g.descRef(sp + ".children.0")
		g.musts(sp + ".children.0")
		g.ind -= 2
		g.line("}")
		// the numbers one use refines are this use's only: the other use of the grouping reads back what the grouping says
		refined := g.r.Intn(2) == 0
		lmin, lmax, llmin, llmax := 1, 10, 2, 20
		if refined {
			lmin, lmax, llmin, llmax = 3+g.r.Intn(3), 30+g.r.Intn(5), 4+g.r.Intn(3), 40+g.r.Intn(5)
			g.line("refine rls { min-elements %d; max-elements %d; }", lmin, lmax)
			g.line("refine rll { min-elements %d; max-elements %d; }", llmin, llmax)
		}
		g.ind -= 2
		g.line("}")
		g.ind -= 2
		g.line("}")
		g.line("container site2 { uses gr; }")
		for _, e := range []struct {
			path string
			want int
		}{{sp + ".children.1.min", lmin}, {sp + ".children.1.max", lmax}, {sp + ".children.2.min", llmin}, {sp + ".children.2.max", llmax}} {
			g.exp = append(g.exp, exp6{path: e.path, want: float64(e.want), stmt: "refine-min-max"})
		}
		sp2 := fmt.Sprintf(".children.%d", ntop+1)
		g.exp = append(g.exp, exp6{path: sp2 + ".ident", want: "site2", stmt: "container-ident"})
		for _, e := range []struct {
			path string
			want int
		}{{sp2 + ".children.1.min", 1}, {sp2 + ".children.1.max", 10}, {sp2 + ".children.2.min", 2}, {sp2 + ".children.2.max", 20}} {
			g.exp = append(g.exp, exp6{path: e.path, want: float64(e.want), stmt: "grouping-min-max"})
		}
	}
	if g.r.Intn(2) == 0 {
		g.line("rpc r1 {")
		g.ind += 2
		g.strStmt("description", g.text(), "actions.r1.description")
		g.line("input { leaf i1 { type string; } }")
		g.line("output { leaf o1 { type string; } }")
		g.exp = append(g.exp, exp6{path: "actions.r1.input.children.0.ident", want: "i1", stmt: "rpc-input"})
		g.exp = append(g.exp, exp6{path: "actions.r1.output.children.0.ident", want: "o1", stmt: "rpc-output"})
		g.ind -= 2
		g.line("}")
	}
	if g.r.Intn(2) == 0 {
		g.line("notification ev1 {")
		g.ind += 2
		g.descRef("notifications.ev1")
		g.line("leaf e1 { type string; }")
		g.exp = append(g.exp, exp6{path: "notifications.ev1.children.0.ident", want: "e1", stmt: "notification"})
		g.ind -= 2
		g.line("}")
	}
	g.ind -= 2
	g.line("}")
}

func lookup(d interface{}, path string) (interface{}, bool) {
	cur := d
	if path == "" {
		return cur, true
	}
	for _, seg := range strings.Split(strings.TrimPrefix(path, "."), ".") {
		switch x := cur.(type) {
		case map[string]interface{}:
			v, ok := x[seg]
			if !ok {
				return nil, false
			}
			cur = v
		case []interface{}:
			if seg == "#" {
				cur = float64(len(x))
				continue
			}
			i, err := strconv.Atoi(seg)
			if err != nil || i < 0 || i >= len(x) {
				return nil, false
			}
			cur = x[i]
		default:
			return nil, false
		}
	}
	return cur, true
}

func normJSON(v interface{}) interface{} {
	switch x := v.(type) {
	case int:
		return float64(x)
	case []string:
		out := make([]interface{}, len(x))
		for i, s := range x {
			out[i] = s
		}
		return out
	case [][]string:
		out := make([]interface{}, len(x))
		for i, s := range x {
			out[i] = normJSON(s)
		}
		return out
	case []interface{}:
		out := make([]interface{}, len(x))
		for i, s := range x {
			out[i] = normJSON(s)
		}
		return out
	case walk.M:
		return map[string]interface{}(x)
	}
	return v
}

func (p c06) Run(c *core.Ctx, idx int) {
	// pairs of cases (idx, idx+half) generate the same module so that different worker processes load it
	half := p.NumCases(c.Tier, c.Seed) / 2
	modID := idx % half
	h := fnv.New64a()
	fmt.Fprintf(h, "C06/%d/%d", c.Seed, modID)
	r := rand.New(rand.NewSource(int64(h.Sum64())))
	if modID%10 == 5 && idx < half {
		c06Directed(c, modID/10)
	}
	g := &gen6{r: r, style: -1}
	if modID%8 < 6 {
		g.style = modID % 8 // one style for the whole module (0..5)
	}
	g.noEsc = modID%3 == 0
	g.longCat = modID%5 == 0
	g.module()
	text := g.b.String() + "\n"
	c.SetSample(map[string]interface{}{"module": head(text, 2500), "expectations": len(g.exp)})
	var m *meta.Module
	var err error
	c.Eval()
	if c.Guard("load", func() { m, err = parser.LoadModuleFromString(nil, text) }) {
		return
	}
	if err != nil {
		// which statement? the error names a line
		kw := "unknown"
		var line int
		if i := strings.Index(err.Error(), "line "); i >= 0 {
			fmt.Sscanf(err.Error()[i+5:], "%d", &line)
			lines := strings.Split(text, "\n")
			if line >= 0 && line < len(lines) {
				f := strings.Fields(lines[line])
				if len(f) > 0 {
					kw = f[0]
				}
			}
		}
		sig := "rejected/" + kw + "/" + styleOf(g)
		if g.longCat && (g.style == 5 || g.style < 0) {
			// more than ~30 concatenated parts exceed the lexer's 64 slot token ring
			sig = "rejected/long-concatenation"
		}
		c.Violate(sig, "a well-formed module was rejected: %v\n%s", err, numbered(text))
		return
	}
	d0, w := walk.Dump(m)
	for _, pn := range w.Panics {
		c.Violate("walk-panic/"+strings.SplitN(pn, ":", 2)[0], "%s\n%s", pn, numbered(text))
	}
	js := walk.JSON(d0)
	var dump interface{}
	if err := jsonUnmarshal(js, &dump); err != nil {
		c.Violate("harness/dump-json", "%v", err)
		return
	}
	for _, e := range g.exp {
		c.Eval()
		got, ok := lookup(dump, e.path)
		want := normJSON(e.want)
		if e.stmt == "range" || e.stmt == "length" {
			// only the parsed form is observable (Range.String()): alternatives joined by '|' without blanks
			want = strings.ReplaceAll(e.want.(string), " | ", "|")
		}
		sty := e.sty
		if sty == "" {
			sty = "plain"
		}
		c.Shape("%s/%s", e.stmt, sty)
		if !ok {
			c.Violate("lost/"+e.stmt+"/"+sty, "%s: nothing found at %q in the compiled schema; wanted %#v\n%s", e.stmt, e.path, want, numbered(text))
			continue
		}
		if fmt.Sprintf("%#v", got) != fmt.Sprintf("%#v", want) {
			cls := "altered"
			if gs, ok := got.(string); ok {
				if ws, ok2 := want.(string); ok2 {
					switch {
					case strings.Trim(gs, "\"'") == ws && gs != ws:
						cls = "quotes-kept"
					case strings.ContainsAny(ws, "\"\\\n\t"):
						cls = "escape-not-decoded"
					}
				}
			}
			if cls == "quotes-kept" {
				sty = "quoted"
			}
			c.Violate(cls+"/"+e.stmt+"/"+sty, "%s at %q: schema holds %#v, the text denotes %#v\n%s", e.stmt, e.path, got, want, numbered(text))
		}
	}
	// repeated loads in this process
	for k := 0; k < 4; k++ {
		c.Eval()
		var m2 *meta.Module
		if c.Guard("reload", func() { m2, err = parser.LoadModuleFromString(nil, text) }) || err != nil {
			c.Violate("reload/error", "second load of the same text failed: %v", err)
			break
		}
		d2, _ := walk.Dump(m2)
		if js2 := walk.JSON(d2); js2 != js {
			c.Violate("reload/different-schema", "loading the same text again gives a different schema\nfirst:  %s\nsecond: %s", head(js, 600), head(js2, 600))
			break
		}
	}
	hh := fnv.New64a()
	hh.Write([]byte(js))
	c.Count(fmt.Sprintf("dumphash/%d/%x", modID, hh.Sum64()))
}

func styleOf(g *gen6) string {
	if g.style < 0 {
		return "mixed"
	}
	return styleNames[g.style]
}

func numbered(text string) string {
	lines := strings.Split(text, "\n")
	var b strings.Builder
	for i, l := range lines {
		fmt.Fprintf(&b, "%3d| %s\n", i, l)
		if i > 150 {
			b.WriteString("...\n")
			break
		}
	}
	return b.String()
}

// PostProcess: the same module must give the same dump in every worker process.
func (p c06) PostProcess(pc *sup.PostCtx) {
	byMod := map[string]map[string]bool{}
	for k := range pc.Counters() {
		if strings.HasPrefix(k, "dumphash/") {
			parts := strings.Split(k, "/")
			if byMod[parts[1]] == nil {
				byMod[parts[1]] = map[string]bool{}
			}
			byMod[parts[1]][parts[2]] = true
		}
	}
	multi := 0
	for mod, hs := range byMod {
		if len(hs) > 1 {
			pc.Violate("cross-process/different-schema", fmt.Sprintf("module #%s compiled to %d different dumps in different worker processes", mod, len(hs)), -1)
		}
		multi++
	}
	pc.DropCounters("dumphash/")
	pc.Count("modules_compared_across_processes", multi)
}
