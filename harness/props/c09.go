package props

import (
	"fmt"

	"github.com/freeconf/yang/node"
	"github.com/freeconf/yang/nodeutil"

	"verif/core"
	"verif/dp"
)

// C09 — at most one case of a choice ever holds data.

type c09 struct{}

func init() { core.Register(c09{}) }

func (c09) ID() string    { return "C09" }
func (c09) Level() string { return "exploration" }
func (c09) Rule() string {
	return "generated schema with 1..3 choices per container (nested choices in cases, shorthand cases, cases holding leaf/leaf-list/container/list, " +
		"choices inside lists) + histories of 2..12 upserts whose sources select different cases; sources {reference store, JSON reader}; targets " +
		"{reference store, nodeutil.Reflect over Go maps, nodeutil.Node over Go maps} (the implementations with case detection over unambiguous data); " +
		"monitors after every step: (a) invariant scan of the target store: every choice has data in at most one case; (b) target == model " +
		"(SwitchCase semantics, everything outside the choice untouched); (c) export reports the selected case only, in schema order. " +
		"A shape = (choice nesting depth, kinds in old and new case, entry kind, source impl); trivial = step that stays in the same case"
}
func (c09) MinEvals(string) int { return 500 }

func (c09) NumCases(tier string, seed int64) int {
	if tier == "thorough" {
		return 6000
	}
	return 600
}

// caseViolations scans a tree for choices with data in more than one case.
func caseViolations(s *dp.Schema, d *dp.DNode, path string, out *[]string) {
	var kids []*dp.SNode
	if d.S == nil {
		kids = s.Top
	} else {
		kids = d.S.Children
	}
	var scan func(cs []*dp.SNode)
	scan = func(cs []*dp.SNode) {
		for _, c := range cs {
			switch c.Kind {
			case dp.Choice:
				var with []string
				for _, k := range c.Children {
					if dp.HasData(d, k) {
						with = append(with, k.Name)
					}
					scan(k.Children)
				}
				if len(with) > 1 {
					*out = append(*out, fmt.Sprintf("%s: choice %s holds data of cases %v", path, c.Name, with))
				}
			case dp.Case:
				scan(c.Children)
			}
		}
	}
	scan(kids)
	for n, k := range d.Kids {
		caseViolations(s, k, path+"/"+n, out)
	}
	for n, l := range d.Lists {
		for _, e := range l.Entries {
			caseViolations(s, e, fmt.Sprintf("%s/%s=%v", path, n, e.Key()), out)
		}
	}
}

func choiceDepth(n *dp.SNode) int {
	return len(n.CaseChain())
}

func (p c09) Run(c *core.Ctx, idx int) {
	r := c.Rand
	o := dp.DefaultGen()
	o.Choices = true
	o.NestedChoice = idx%3 != 0
	o.MaxDepth = 2 + r.Intn(2)
	o.MaxChildren = 4
	o.Defaults = idx%4 == 0
	// target: the reference store (2 of 4) or a map-shaped reflection store, the ones with case detection over unambiguous data
	storeKind := 0
	if k := (idx / 3) % 4; k >= 2 {
		storeKind = k - 1
	}
	var gm dp.GoMode
	cmp := dp.CmpOpts{}
	if storeKind > 0 {
		gm = dp.GoModes[storeKind-1]
		dp.GoGen(&o, gm)
		o.CompoundKeys = false
		cmp = dp.CmpOpts{IgnoreListOrder: true, EmptyListIsAbsent: true}
	}
	// cases and case members contributed by an augmenting module (the choice learns of them after it was compiled)
	o.Aug = idx%5 == 2
	s := dp.GenSchema(r, o)
	if o.Aug && s.AugName != "" {
		// always: a choice of the main module that the augmenting module gives one more case and one more shorthand member
		var ch *dp.SNode
		for _, t := range s.Top {
			if t.Kind == dp.Choice && t.Module == "" {
				ch = t
				break
			}
		}
		if ch == nil {
			ch = &dp.SNode{Kind: dp.Choice, Name: "augch", Children: []*dp.SNode{
				{Kind: dp.Case, Name: "augch-own", Children: []*dp.SNode{{Kind: dp.Leaf, Name: "augch-own1", Type: &dp.SType{Base: "string"}}}}}}
			s.Top = append(s.Top, ch)
		}
		ch.Children = append(ch.Children,
			&dp.SNode{Kind: dp.Case, Name: "zaug", Module: s.AugName, Children: []*dp.SNode{
				{Kind: dp.Leaf, Name: "zaug1", Module: s.AugName, Type: &dp.SType{Base: "string"}}, {Kind: dp.Leaf, Name: "zaug2", Module: s.AugName, Type: &dp.SType{Base: "int32"}}}},
			&dp.SNode{Kind: dp.Case, Name: "zshort", Short: true, Module: s.AugName, Children: []*dp.SNode{{Kind: dp.Leaf, Name: "zshort", Module: s.AugName, Type: &dp.SType{Base: "string"}}}})
	}
	hasChoice := false
	maxNest := 0
	s.Walk(func(n *dp.SNode) {
		if n.Kind == dp.Choice {
			hasChoice = true
		}
		if d := choiceDepth(n); d > maxNest {
			maxNest = d
		}
	})
	if !hasChoice {
		// force one
		s.Top = append(s.Top, &dp.SNode{Kind: dp.Choice, Name: "forced", Children: []*dp.SNode{
			{Kind: dp.Case, Name: "fa", Children: []*dp.SNode{{Kind: dp.Leaf, Name: "fa1", Type: &dp.SType{Base: "string"}}, {Kind: dp.Leaf, Name: "fa2", Type: &dp.SType{Base: "int32"}}}},
			{Kind: dp.Case, Name: "fb", Children: []*dp.SNode{{Kind: dp.Container, Name: "fb1", Children: []*dp.SNode{{Kind: dp.Leaf, Name: "x", Type: &dp.SType{Base: "string"}}}}}},
		}})
	}
	if err := s.Compile(); err != nil {
		c.R.Inconclusive = "generated schema does not compile: " + head(err.Error(), 300)
		return
	}
	do := dp.DefaultData()
	do.PSet, do.PKid = 0.8, 0.8
	do.MaxEntries = 2
	t := dp.GenTree(r, s, do)
	model := t.Clone()
	var target c18store
	storeName := "reference-store"
	if storeKind == 0 {
		st := dp.NewStore(s, t)
		if idx%2 == 1 {
			// a target that hands out a node for a container before it holds anything (value-typed struct fields do)
			st.Eager = true
			storeName = "reference-store-eager"
			cmp.EmptyContainerIsAbsent = true
		}
		if idx%4 == 2 {
			// a target whose new containers and list entries come into being holding data of a case already (an application
			// constructor): an edit that creates such a node and writes another case into it leaves that other case only
			st.Prefill = true
			dp.ModelPrefill = true
			defer func() { dp.ModelPrefill = false }()
			storeName = "reference-store-prefilling"
		}
		target = &c18ref{st}
	} else {
		if why := dp.GoSupports(s, gm); why != "" {
			c.Count("go_store_schema_outside_domain")
			return
		}
		target = &c18go{dp.NewGoStore(r, s, gm, t)}
		storeName = gm.String()
	}
	c.Count("store_" + storeName)
	defer func() { reportHooks(c, target) }()
	nops := 2 + r.Intn(11)
	var history []string
	for op := 0; op < nops+2; op++ {
		src := dp.Derive(r, s, model, s.Top, do)
		if r.Intn(3) == 0 {
			src = dp.GenTree(r, s, do)
		}
		// the last two steps are directed: one leaf of a case that is not the selected one of a top-level choice is written, (a) with
		// Set on the leaf's own selection, (b) by an upsert through a selection whose request parameters hide a node of the selected case.
		// Either way the data of the selected case goes
		directed, hideName := "", ""
		var dleaf *dp.SNode
		if op >= nops {
			for _, ch := range s.Top {
				if ch.Kind != dp.Choice || ch.Module != "" {
					continue
				}
				var selected *dp.SNode
				for _, kase := range ch.Children {
					if dp.HasData(model, kase) {
						selected = kase
					}
				}
				if selected == nil {
					continue
				}
				for _, kase := range ch.Children {
					if kase == selected || dleaf != nil {
						continue
					}
					for _, m := range kase.Children {
						if m.Kind == dp.Leaf && m.Module == "" && m.Type.Base != "empty" && m.Type.Wrap != "leafref" {
							dleaf = m
							break
						}
					}
				}
				if dleaf != nil {
					for _, m := range selected.DataChildren() {
						if dp.HasData(model, m) {
							hideName = m.Name
						}
					}
					break
				}
			}
			if dleaf == nil {
				break
			}
			directed = []string{"set-on-leaf", "upsert-thru-xfields"}[(op-nops+idx)%2]
			if directed == "upsert-thru-xfields" && (hideName == "" || s.AugName != "") {
				break
			}
			src = dp.NewDNode(nil)
			src.Leaves[dleaf.Name] = &dp.LVal{V: []string{dp.RandScalar(r, dleaf.Type, false)}}
		}
		useJSON := r.Intn(3) == 0 && directed == ""
		impl := "refstore"
		var srcNode node.Node = dp.NewStore(s, src).Node()
		if useJSON {
			impl = "json"
			n, err := nodeutil.ReadJSON(dp.EncodeJSON(s, src, dp.JOpts{}))
			if err != nil {
				c.Violate("harness/json-source", "ReadJSON failed: %v", err)
				return
			}
			srcNode = n
		}
		switch directed {
		case "":
			history = append(history, fmt.Sprintf("upsertFrom(%s) S=%s", impl, head(oneLineTree(s, src), 400)))
		case "set-on-leaf":
			impl = "set-on-leaf"
			history = append(history, fmt.Sprintf("Find(%q).Set(%s)", dleaf.Name, src.Leaves[dleaf.Name]))
		default:
			impl = "upsert-thru-xfields"
			history = append(history, fmt.Sprintf("Root().Constrain(fc.xfields=%s).UpsertFrom S=%s", hideName, head(oneLineTree(s, src), 400)))
		}
		before := model.Clone()
		if e := dp.Apply(s, dp.Upsert, src, model, false); e != dp.OK {
			c.Violate("harness/model", "model upsert failed: %v", e)
			return
		}
		c.Eval()
		sw := switchClass(s, before, model)
		if sw != "" {
			c.Shape("nest%d/%s/%s/%s", maxNest, sw, impl, storeName)
			c.Count("steps_switching_case")
		} else {
			c.Count("steps_same_case")
		}
		var err error
		if c.Guard("UpsertFrom", func() {
			switch directed {
			case "set-on-leaf":
				var lsel *node.Selection
				if lsel, err = target.Browser().Root().Find(dleaf.Name); err == nil && lsel != nil {
					err = lsel.Set(dp.ToVal(dleaf.Type, src.Leaves[dleaf.Name]))
				} else if err == nil {
					err = fmt.Errorf("verif: leaf %s not found", dleaf.Name)
				}
			case "upsert-thru-xfields":
				var csel *node.Selection
				if csel, err = target.Browser().Root().Constrain("fc.xfields=" + hideName); err == nil {
					err = csel.UpsertFrom(srcNode)
				}
			default:
				err = target.Browser().Root().UpsertFrom(srcNode)
			}
		}) {
			return
		}
		snap, snapErr := target.Snap()
		wit := func() string {
			after := "<unreadable>"
			if snap != nil {
				after = snap.Dump(s)
			}
			return fmt.Sprintf("store: %s %s\nhistory:\n  %s\nschema:\n%starget before the last step:\n%s\ntarget after:\n%s", storeName, target.Describe(), joinLines(history), s.Yang(), before.Dump(s), after)
		}
		nestTag := fmt.Sprintf("nest%d", min(maxNest, 2)) + storeSig(storeName)
		if snapErr != nil {
			c.Violate("store-corrupt/"+nestTag, "the Go values no longer denote a tree of the schema: %v\n%s", snapErr, wit())
			return
		}
		if err != nil {
			c.Violate("upsert-error/"+nestTag+"/"+impl+"/"+errClassText(err), "upsert returned %v\n%s", err, wit())
			return
		}
		var cv []string
		caseViolations(s, snap, "", &cv)
		if len(cv) > 0 {
			c.Violate("two-cases/"+nestTag+"/"+impl, "%s\n%s", cv[0], wit())
			return
		}
		if d := dp.Diff(s, model, snap, cmp); d != "" {
			c.Violate("result/"+nestTag+"/"+impl+"/"+diffClass(d), "target differs from the model after a case switch:\n%s\n%s", d, wit())
			return
		}
		// read: export reports the selected case only
		capt := dp.NewCapture(s)
		if c.Guard("export", func() { err = target.Browser().Root().UpsertInto(capt.Node()) }) {
			return
		}
		if err != nil {
			c.Violate("export-error/"+nestTag, "export failed: %v\n%s", err, wit())
			return
		}
		if d := dp.Diff(s, model, capt.Root, dp.CmpOpts{DefaultsMayAppear: true, IgnoreListOrder: cmp.IgnoreListOrder, EmptyListIsAbsent: cmp.EmptyListIsAbsent, EmptyContainerIsAbsent: cmp.EmptyContainerIsAbsent}); d != "" {
			c.Violate("export/"+nestTag+"/"+diffClass(d), "export differs from the store:\n%s\n%s", d, wit())
			return
		}
		for _, pr := range capt.OrderProblems() {
			c.Violate("export-order/"+nestTag, "%s\n%s", pr, wit())
		}
	}
	c.SetSample(map[string]interface{}{"yang": head(s.Yang(), 1500), "history": history})
}

func min(a, b int) int {
	if a < b {
		return a
	}
	return b
}

// switchClass describes the first choice whose selected case changed between two trees ("" if none).
func switchClass(s *dp.Schema, a, b *dp.DNode) string {
	res := ""
	var rec func(x, y *dp.DNode)
	rec = func(x, y *dp.DNode) {
		if res != "" || x == nil || y == nil {
			return
		}
		var kids []*dp.SNode
		if x.S == nil {
			kids = s.Top
		} else {
			kids = x.S.Children
		}
		var scan func(cs []*dp.SNode)
		scan = func(cs []*dp.SNode) {
			for _, cdef := range cs {
				if cdef.Kind == dp.Choice {
					var ca, cb *dp.SNode
					for _, k := range cdef.Children {
						if dp.HasData(x, k) {
							ca = k
						}
						if dp.HasData(y, k) {
							cb = k
						}
						scan(k.Children)
					}
					if ca != nil && cb != nil && ca != cb && res == "" {
						res = fmt.Sprintf("d%d:%s->%s", choiceDepth(cdef), kindsOf(ca), kindsOf(cb))
					}
				} else if cdef.Kind == dp.Case {
					scan(cdef.Children)
				}
			}
		}
		scan(kids)
		for n, k := range x.Kids {
			rec(k, y.Kids[n])
		}
		for n, l := range x.Lists {
			if yl := y.Lists[n]; yl != nil {
				for _, e := range l.Entries {
					ye, _ := yl.Find(e.Key())
					rec(e, ye)
				}
			}
		}
	}
	rec(a, b)
	return res
}

func kindsOf(kase *dp.SNode) string {
	out := ""
	for _, c := range kase.Children {
		out += c.Kind.String()[:2]
	}
	if kase.Short {
		out += "!"
	}
	return out
}
