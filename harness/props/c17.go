package props

import (
	"bytes"
	"fmt"
	"math"
	"math/big"
	"strings"

	"github.com/freeconf/yang/val"

	"verif/core"
)

// C17 — typed values are totally ordered like what they denote.
// Part 1 (this file): law checking on Compare / Equal / CompareVals / EqualVals.
// Part 2 (c17_lookup.go): keyed lookups on slice- and map-backed nodes.

type c17 struct{}

func init() { core.Register(c17{}) }

func (c17) ID() string    { return "C17" }
func (c17) Level() string { return "exploration" }
func (c17) Rule() string {
	return "law monitor on val.Compare/Equal/CompareVals/EqualVals against math/big denotations: all 256x256 pairs of int8 and uint8 " +
		"(exhaustive), all pairs and triples over boundary sets of wider formats, seeded random pairs/tuples; plus Find(list=key) on " +
		"slice/map-backed nodes vs the model list for every key type. A shape is distinct per (format, law, sign-pattern of the operands' " +
		"denoted order / list size+key-type+hit-or-miss); trivial = pair of identical operands for order laws"
}
func (c17) Exhaustive(string) bool   { return false }
func (c17) MinEvals(tier string) int { return 100000 }

type c17fmt struct {
	name string
	mk   func(i int) val.Value // i-th boundary value
	n    int
	den  func(v val.Value) *big.Rat // numeric denotation (nil for strings)
	sden func(v val.Value) string   // string denotation
}

func bigOf(v interface{}) *big.Rat {
	r := new(big.Rat)
	switch x := v.(type) {
	case int8:
		r.SetInt64(int64(x))
	case int16:
		r.SetInt64(int64(x))
	case int32:
		r.SetInt64(int64(x))
	case int:
		r.SetInt64(int64(x))
	case int64:
		r.SetInt64(x)
	case uint8:
		r.SetInt(new(big.Int).SetUint64(uint64(x)))
	case uint16:
		r.SetInt(new(big.Int).SetUint64(uint64(x)))
	case uint32:
		r.SetInt(new(big.Int).SetUint64(uint64(x)))
	case uint:
		r.SetInt(new(big.Int).SetUint64(uint64(x)))
	case uint64:
		r.SetInt(new(big.Int).SetUint64(x))
	case float64:
		if math.IsNaN(x) || math.IsInf(x, 0) {
			return nil
		}
		r.SetFloat64(x)
	default:
		return nil
	}
	return r
}

var i64b = []int64{math.MinInt64, math.MinInt64 + 1, -(1 << 62), -(1 << 53) - 1, -(1 << 32), -(1 << 31) - 1, -(1 << 31), -65536, -32769, -32768, -257, -256, -129, -128, -127, -2, -1, 0, 1, 2, 126, 127, 128, 255, 256, 32767, 32768, 65535, 65536, (1 << 31) - 1, 1 << 31, (1 << 32) - 1, 1 << 32, 1 << 53, (1 << 53) + 1, 1 << 62, math.MaxInt64 - 1, math.MaxInt64}
var u64b = []uint64{0, 1, 2, 127, 128, 255, 256, 32767, 32768, 65535, 65536, (1 << 31) - 1, 1 << 31, (1 << 32) - 1, 1 << 32, 1 << 53, (1 << 53) + 1, (1 << 63) - 1, 1 << 63, (1 << 63) + 1, math.MaxUint64 - 1, math.MaxUint64}
var f64b = []float64{-9223372036854775.808, -1e15, -65536.5, -1.5, -1, -0.5, -0.001, math.Copysign(0, -1), 0, 0.001, 0.5, 0.7, 1, 1.5, 2, 100.25, 65536.5, 1e15, 9223372036854775.807,
	// neighbours closer than any "tolerance": decimal64 has up to 18 fraction digits
	1e-18, 1e-12, 6e-10, 1.2e-9, 0.5000000004, 0.5000000008, 2.5000000001, 2.5, 6.9999999995, 7}
var strb = []string{"", " ", "a", "A", "a ", "aa", "ab", "b", "B", "Z", "z", "0", "1", "10", "2", "-1", "é", "e", "世", "\x7f", "~", "a\x00", "a\x00b", "\U0001F600", "￿"}
var enumIds = []int{math.MinInt32, -100, -2, -1, 0, 1, 2, 3, 7, 100, 65536, math.MaxInt32}

func clampI(vals []int64, lo, hi int64) []int64 {
	var out []int64
	for _, v := range vals {
		if v >= lo && v <= hi {
			out = append(out, v)
		}
	}
	return out
}
func clampU(vals []uint64, hi uint64) []uint64 {
	var out []uint64
	for _, v := range vals {
		if v <= hi {
			out = append(out, v)
		}
	}
	return out
}

func numDen(v val.Value) *big.Rat { return bigOf(v.Value()) }

func c17formats() []c17fmt {
	i16 := clampI(i64b, math.MinInt16, math.MaxInt16)
	i32 := clampI(i64b, math.MinInt32, math.MaxInt32)
	u16 := clampU(u64b, math.MaxUint16)
	u32 := clampU(u64b, math.MaxUint32)
	return []c17fmt{
		{name: "int8", n: 256, mk: func(i int) val.Value { return val.Int8(int8(i - 128)) }, den: numDen},
		{name: "uint8", n: 256, mk: func(i int) val.Value { return val.UInt8(uint8(i)) }, den: numDen},
		{name: "int16", n: len(i16), mk: func(i int) val.Value { return val.Int16(int16(i16[i])) }, den: numDen},
		{name: "uint16", n: len(u16), mk: func(i int) val.Value { return val.UInt16(uint16(u16[i])) }, den: numDen},
		{name: "int32", n: len(i32), mk: func(i int) val.Value { return val.Int32(int32(i32[i])) }, den: numDen},
		{name: "uint32", n: len(u32), mk: func(i int) val.Value { return val.UInt32(uint32(u32[i])) }, den: numDen},
		{name: "int64", n: len(i64b), mk: func(i int) val.Value { return val.Int64(i64b[i]) }, den: numDen},
		{name: "uint64", n: len(u64b), mk: func(i int) val.Value { return val.UInt64(u64b[i]) }, den: numDen},
		{name: "decimal64", n: len(f64b), mk: func(i int) val.Value { return val.Decimal64(f64b[i]) }, den: numDen},
		{name: "string", n: len(strb), mk: func(i int) val.Value { return val.String(strb[i]) }, sden: func(v val.Value) string { return v.Value().(string) }},
		{name: "identityref", n: len(strb) - 1, mk: func(i int) val.Value { return val.IdentRef{Label: strb[i+1]} }, sden: func(v val.Value) string { return v.(val.IdentRef).Label }},
		{name: "enum", n: len(enumIds), mk: func(i int) val.Value { return val.Enum{Id: enumIds[i], Label: fmt.Sprintf("L%d", len(enumIds)-i)} }, den: func(v val.Value) *big.Rat { return bigOf(v.(val.Enum).Id) }},
		{name: "boolean", n: 2, mk: func(i int) val.Value { return val.Bool(i == 1) }, den: func(v val.Value) *big.Rat {
			if v.Value().(bool) {
				return big.NewRat(1, 1)
			}
			return big.NewRat(0, 1)
		}},
		{name: "binary", n: len(strb), mk: func(i int) val.Value { return val.Binary([]byte(strb[i])) }, sden: func(v val.Value) string { return string([]byte(v.(val.Binary))) }},
	}
}

func sgn(i int) int {
	if i < 0 {
		return -1
	}
	if i > 0 {
		return 1
	}
	return 0
}

func (f c17fmt) denCmp(a, b val.Value) int {
	if f.den != nil {
		return f.den(a).Cmp(f.den(b))
	}
	if f.name == "binary" {
		return bytes.Compare([]byte(f.sden(a)), []byte(f.sden(b)))
	}
	return strings.Compare(f.sden(a), f.sden(b))
}

func (c17) NumCases(tier string, seed int64) int {
	n := 16 + 16 + 12 + 5 + 12 // int8 rows, uint8 rows, wide formats, non-comparable equality, tuple cases
	n += c17LookupCases(tier)
	if tier == "thorough" {
		n += 64 // random extension
	} else {
		n += 8
	}
	return n
}

func (p c17) Run(c *core.Ctx, idx int) {
	fs := c17formats()
	switch {
	case idx < 32:
		f := fs[idx/16]
		row0 := (idx % 16) * 16
		for i := row0; i < row0+16; i++ {
			for j := 0; j < f.n; j++ {
				p.pair(c, f, f.mk(i), f.mk(j))
			}
		}
		if idx%16 == 0 {
			// triples over a 16-value boundary subset
			sub := []int{0, 1, 2, 63, 64, 126, 127, 128, 129, 130, 191, 192, 253, 254, 255, 100}
			p.triples(c, f, sub)
		}
		c.SetSample(fmt.Sprintf("%s: all pairs (a,b) with a in rows %d..%d of the 256 values, b over all 256", f.name, row0, row0+15))
	case idx < 44:
		f := fs[2+idx-32]
		all := make([]int, f.n)
		for i := range all {
			all[i] = i
		}
		for _, i := range all {
			for _, j := range all {
				p.pair(c, f, f.mk(i), f.mk(j))
			}
		}
		p.triples(c, f, all)
		c.SetSample(fmt.Sprintf("%s: all pairs and triples over %d boundary values, e.g. %v, %v, %v", f.name, f.n, f.mk(0), f.mk(f.n/2), f.mk(f.n-1)))
	case idx < 49:
		p.nonComparable(c, idx-44)
	case idx < 61:
		p.tuples(c, fs, idx-49)
	case idx < 61+c17LookupCases(c.Tier):
		c17Lookup(c, idx-61)
	default:
		p.random(c, fs)
	}
}

func (p c17) pair(c *core.Ctx, f c17fmt, a, b val.Value) {
	c.Eval()
	want := f.denCmp(a, b)
	var ab, ba int
	var eq bool
	pv, st := core.Try(func() {
		ab = a.(val.Comparable).Compare(b.(val.Comparable))
		ba = b.(val.Comparable).Compare(a.(val.Comparable))
		eq = val.Equal(a, b)
	})
	if pv != nil {
		c.Violate("order/"+f.name+"/panic", "Compare/Equal(%v,%v) panicked: %v\n%s", a, b, pv, core.TrimStack(st))
		return
	}
	if want != 0 {
		c.Shape("%s/pair/%d", f.name, want)
	}
	if sgn(ab) != want {
		c.Violate("order/"+f.name+"/denoted", "%s: Compare(%v,%v)=%d but denoted order is %d", f.name, a, b, ab, want)
	}
	if sgn(ab) != -sgn(ba) {
		c.Violate("order/"+f.name+"/antisymmetry", "%s: Compare(%v,%v)=%d and Compare(%v,%v)=%d", f.name, a, b, ab, b, a, ba)
	}
	if eq != (want == 0) {
		c.Violate("order/"+f.name+"/equal-agrees", "%s: Equal(%v,%v)=%v but denotations compare %d", f.name, a, b, eq, want)
	}
	if eq != (ab == 0) {
		c.Violate("order/"+f.name+"/equal-vs-compare", "%s: Equal(%v,%v)=%v but Compare=%d", f.name, a, b, eq, ab)
	}
}

func (p c17) triples(c *core.Ctx, f c17fmt, idxs []int) {
	if len(idxs) > 24 {
		// keep the triple enumeration bounded: spread subset
		step := len(idxs) / 24
		var sub []int
		for i := 0; i < len(idxs); i += step + 1 {
			sub = append(sub, idxs[i])
		}
		sub = append(sub, idxs[len(idxs)-1])
		idxs = sub
	}
	vals := make([]val.Comparable, len(idxs))
	for i, k := range idxs {
		vals[i] = f.mk(k).(val.Comparable)
	}
	for _, a := range vals {
		for _, b := range vals {
			for _, d := range vals {
				c.Eval()
				var ab, bd, ad int
				pv, _ := core.Try(func() { ab, bd, ad = a.Compare(b), b.Compare(d), a.Compare(d) })
				if pv != nil {
					continue // reported by pair()
				}
				if ab <= 0 && bd <= 0 && !(ad <= 0) {
					c.Violate("order/"+f.name+"/transitivity", "%s: %v<=%v and %v<=%v but Compare(%v,%v)=%d", f.name, a, b, b, d, a, d, ad)
				}
				if ab == 0 && bd == 0 && ad != 0 {
					c.Violate("order/"+f.name+"/eq-transitivity", "%s: %v==%v==%v but Compare(%v,%v)=%d", f.name, a, b, d, a, d, ad)
				}
			}
		}
	}
	c.Shape("%s/triples/%d", f.name, len(vals))
}

// Equality on formats without an order (bits, empty, any, list formats) must still be an equivalence.
func (p c17) nonComparable(c *core.Ctx, k int) {
	type grp struct {
		name string
		vals []val.Value
		key  func(v val.Value) string
	}
	groups := []grp{
		{"bits", []val.Value{val.Bits{}, val.Bits{Positions: 1, Labels: []string{"a"}}, val.Bits{Positions: 1, Labels: []string{"a"}}, val.Bits{Positions: 3, Labels: []string{"a", "b"}}, val.Bits{Positions: 2, Labels: []string{"b"}}},
			func(v val.Value) string { return fmt.Sprint(v.(val.Bits).Positions) }},
		{"empty", []val.Value{val.NotEmpty, val.NotEmpty}, func(v val.Value) string { return "e" }},
		{"string-list", []val.Value{val.StringList{}, val.StringList{"a"}, val.StringList{"a"}, val.StringList{"a", "b"}, val.StringList{"b", "a"}},
			func(v val.Value) string { return fmt.Sprintf("%q", v.Value()) }},
		{"int32-list", []val.Value{val.Int32List{1, 2}, val.Int32List{1, 2}, val.Int32List{2, 1}, val.Int32List{1}},
			func(v val.Value) string { return fmt.Sprint(v.Value()) }},
		// members of a union of two enumerations: the same value under two names is two values
		{"enum-of-union", []val.Value{val.Enum{Id: 0, Label: "x"}, val.Enum{Id: 0, Label: "z"}, val.Enum{Id: 1, Label: "y"}, val.Enum{Id: 1, Label: "w"}, val.Enum{Id: 0, Label: "x"}, val.Enum{Id: 2, Label: "x2"}},
			func(v val.Value) string { return fmt.Sprintf("%d/%s", v.(val.Enum).Id, v.(val.Enum).Label) }},
	}
	g := groups[k]
	for _, a := range g.vals {
		for _, b := range g.vals {
			c.Eval()
			var eq, eqr bool
			pv, st := core.Try(func() { eq = val.Equal(a, b); eqr = val.Equal(b, a) })
			if pv != nil {
				c.Violate("equal/"+g.name+"/panic", "val.Equal(%#v,%#v) panicked: %v\n%s", a, b, pv, core.TrimStack(st))
				continue
			}
			want := g.key(a) == g.key(b)
			c.Shape("%s/equal/%v", g.name, want)
			if eq != want {
				c.Violate("equal/"+g.name+"/denoted", "val.Equal(%#v,%#v)=%v want %v", a, b, eq, want)
			}
			if eq != eqr {
				c.Violate("equal/"+g.name+"/symmetry", "val.Equal(%#v,%#v)=%v but reversed %v", a, b, eq, eqr)
			}
		}
	}
	// nil handling: Equal(nil,nil) true, Equal(x,nil) false
	c.Eval()
	pv, _ := core.Try(func() {
		if !val.Equal(nil, nil) || val.Equal(g.vals[0], nil) || val.Equal(nil, g.vals[0]) {
			c.Violate("equal/"+g.name+"/nil", "nil handling of val.Equal wrong")
		}
	})
	if pv != nil {
		c.Violate("equal/"+g.name+"/nil-panic", "val.Equal with nil panicked: %v", pv)
	}
	c.SetSample(fmt.Sprintf("Equal over %d %s values", len(g.vals), g.name))
}

// key tuples: CompareVals must be lexicographic, EqualVals component-wise.
func (p c17) tuples(c *core.Ctx, fs []c17fmt, k int) {
	arity := 1 + k%3
	for n := 0; n < 400; n++ {
		a := make([]val.Value, arity)
		b := make([]val.Value, arity)
		want := 0
		names := ""
		for i := 0; i < arity; i++ {
			f := fs[c.Rand.Intn(len(fs))]
			if f.name == "boolean" && c.Rand.Intn(2) == 0 {
				f = fs[(k+i)%len(fs)]
			}
			names += f.name + ","
			a[i] = f.mk(c.Rand.Intn(f.n))
			if c.Rand.Intn(3) == 0 {
				b[i] = a[i]
			} else {
				b[i] = f.mk(c.Rand.Intn(f.n))
			}
			if want == 0 {
				want = f.denCmp(a[i], b[i])
			}
		}
		c.Eval()
		var got, rev int
		var eq bool
		pv, st := core.Try(func() { got = val.CompareVals(a, b); rev = val.CompareVals(b, a); eq = val.EqualVals(a, b) })
		if pv != nil {
			c.Violate("tuple/panic", "CompareVals(%v,%v) [%s] panicked: %v\n%s", a, b, names, pv, core.TrimStack(st))
			continue
		}
		c.Shape("tuple/%d/%s/%d", arity, names, want)
		// a defect of one format's Compare is reported by pair(); here only flag tuple logic, so
		// recompute the expectation from the library's own component compares when those agree
		// with the denotation, else skip
		ok := true
		for i := 0; i < arity; i++ {
			ci := a[i].(val.Comparable).Compare(b[i].(val.Comparable))
			fi := fmtByName(fs, a[i])
			if sgn(ci) != fi.denCmp(a[i], b[i]) {
				ok = false
			}
		}
		if !ok {
			c.Count("tuple_skipped_component_defect")
			continue
		}
		if sgn(got) != want {
			c.Violate("tuple/lexicographic", "CompareVals(%v,%v)=%d want sign %d", a, b, got, want)
		}
		if sgn(got) != -sgn(rev) {
			c.Violate("tuple/antisymmetry", "CompareVals(%v,%v)=%d reversed %d", a, b, got, rev)
		}
		if eq != (want == 0) {
			c.Violate("tuple/equalvals", "EqualVals(%v,%v)=%v want %v", a, b, eq, want == 0)
		}
	}
	// different lengths are never equal
	c.Eval()
	if val.EqualVals([]val.Value{val.Int32(1)}, []val.Value{val.Int32(1), val.Int32(2)}) {
		c.Violate("tuple/equalvals-length", "EqualVals of tuples with different arity is true")
	}
	// lexicographic order also between tuples of different length: a proper prefix sorts first
	one, two := val.Int32(1), val.Int32(2)
	for _, t := range []struct {
		a, b []val.Value
		want int
	}{
		{[]val.Value{one}, []val.Value{one, two}, -1}, {[]val.Value{one, two}, []val.Value{one}, 1}, {[]val.Value{two}, []val.Value{one, two}, 1},
		{[]val.Value{one, two}, []val.Value{two}, -1}, {[]val.Value{}, []val.Value{one}, -1}, {[]val.Value{one}, []val.Value{}, 1}, {[]val.Value{}, []val.Value{}, 0},
	} {
		c.Eval()
		var got int
		pv, st := core.Try(func() { got = val.CompareVals(t.a, t.b) })
		if pv != nil {
			c.Violate("tuple/length/panic", "CompareVals(%v,%v) panicked: %v\n%s", t.a, t.b, pv, core.TrimStack(st))
		} else if sgn(got) != t.want {
			c.Violate("tuple/length/lexicographic", "CompareVals(%v,%v)=%d want sign %d", t.a, t.b, got, t.want)
		}
	}
	c.SetSample(fmt.Sprintf("400 random key tuples of arity %d over mixed formats", arity))
}

func fmtByName(fs []c17fmt, v val.Value) c17fmt {
	name := ""
	switch v.(type) {
	case val.Int8:
		name = "int8"
	case val.UInt8:
		name = "uint8"
	case val.Int16:
		name = "int16"
	case val.UInt16:
		name = "uint16"
	case val.Int32:
		name = "int32"
	case val.UInt32:
		name = "uint32"
	case val.Int64:
		name = "int64"
	case val.UInt64:
		name = "uint64"
	case val.Decimal64:
		name = "decimal64"
	case val.String:
		name = "string"
	case val.IdentRef:
		name = "identityref"
	case val.Enum:
		name = "enum"
	case val.Bool:
		name = "boolean"
	case val.Binary:
		name = "binary"
	}
	for _, f := range fs {
		if f.name == name {
			return f
		}
	}
	panic("no format for " + fmt.Sprintf("%T", v))
}

func (p c17) random(c *core.Ctx, fs []c17fmt) {
	r := c.Rand
	mk := []struct {
		name string
		f    func() val.Value
	}{
		{"int16", func() val.Value { return val.Int16(int16(r.Uint32())) }},
		{"uint16", func() val.Value { return val.UInt16(uint16(r.Uint32())) }},
		{"int32", func() val.Value { return val.Int32(int32(r.Uint32())) }},
		{"uint32", func() val.Value { return val.UInt32(r.Uint32()) }},
		{"int64", func() val.Value { return val.Int64(int64(r.Uint64())) }},
		{"uint64", func() val.Value { return val.UInt64(r.Uint64()) }},
		{"decimal64", func() val.Value { return val.Decimal64(float64(int64(r.Uint64())) / 1000) }},
		{"string", func() val.Value {
			b := make([]byte, r.Intn(4))
			for i := range b {
				b[i] = "ab\x00z"[r.Intn(4)]
			}
			return val.String(string(b))
		}},
	}
	for n := 0; n < 4000; n++ {
		m := mk[r.Intn(len(mk))]
		var f c17fmt
		for _, x := range fs {
			if x.name == m.name {
				f = x
			}
		}
		a, b := m.f(), m.f()
		p.pair(c, f, a, b)
	}
	c.SetSample("4000 random pairs over 16/32/64-bit, decimal64 and short strings")
}
