package props

import (
	"encoding/base64"
	"fmt"
	"math/big"
	"regexp"
	"strconv"
	"strings"
	"unicode/utf8"

	"github.com/freeconf/yang/meta"
	"github.com/freeconf/yang/node"
	"github.com/freeconf/yang/nodeutil"
	"github.com/freeconf/yang/parser"
	"github.com/freeconf/yang/val"

	"verif/core"
	"verif/dp"
)

// C05 — no write stores a value outside the leaf's effective type.

type c05 struct{}

func init() { core.Register(c05{}) }

func (c05) ID() string    { return "C05" }
func (c05) Level() string { return "exploration" }
func (c05) Rule() string {
	return "one leaf (or leaf-list) per case with a restriction chain: base type x up to 3 typedef levels each adding range / length / pattern " +
		"(alternatives, open ends, min/max, single values, negative and 64-bit bounds, decimal64, invert-match), enums, bits, identityref; candidates = " +
		"every bound, bound+-1, far outside, inside each gap, multi-byte strings at the length bounds, pattern near-misses; write paths {Set typed, " +
		"SetValue, UpsertFrom JSON, UpsertFrom XML, UpsertFrom node}. Oracle: independent membership evaluator (math/big intervals ANDed over levels, " +
		"code-point lengths, anchored patterns ANDed): outside => error and stored value unchanged; never a panic. Rejections of members are counted " +
		"as information only. A shape = (base type, restriction kinds per level, candidate class, write path); trivial = unrestricted type"
}
func (c05) MinEvals(string) int { return 2000 }

func (c05) NumCases(tier string, seed int64) int {
	if tier == "thorough" {
		return 3000
	}
	return 400
}

type ivl struct{ lo, hi *big.Rat }

type c05level struct {
	rng, length string
	pats        []c05pat
}
type c05pat struct {
	re     string
	invert bool
}

type c05type struct {
	base   string
	fd     int
	levels []c05level // levels[0] is the outermost typedef (closest to the base type), last is on the leaf
	enums  []string
	bits   []string
	idents []string
	list   bool
	// twoBases: identityref { base base-id; base other-base; }: the values are the identities derived from both
	twoBases bool
}

func baseBounds(base string, fd int) (lo, hi *big.Rat) {
	switch base {
	case "decimal64":
		scale := new(big.Int).Exp(big.NewInt(10), big.NewInt(int64(fd)), nil)
		max := new(big.Rat).SetFrac(new(big.Int).SetInt64(9223372036854775807), scale)
		min := new(big.Rat).SetFrac(new(big.Int).SetInt64(-9223372036854775808), scale)
		return min, max
	case "string", "binary":
		return big.NewRat(0, 1), new(big.Rat).SetInt(new(big.Int).SetUint64(18446744073709551615))
	}
	l, h := dp.IntBounds(base)
	return new(big.Rat).SetInt(l), new(big.Rat).SetInt(h)
}

func parseRange(expr string, lo, hi *big.Rat) []ivl {
	var out []ivl
	for _, part := range strings.Split(expr, "|") {
		part = strings.TrimSpace(part)
		num := func(s string) *big.Rat {
			s = strings.TrimSpace(s)
			switch s {
			case "min":
				return lo
			case "max":
				return hi
			}
			r, ok := new(big.Rat).SetString(s)
			if !ok {
				panic("harness: bad range number " + s)
			}
			return r
		}
		if i := strings.Index(part, ".."); i >= 0 {
			out = append(out, ivl{num(part[:i]), num(part[i+2:])})
		} else {
			n := num(part)
			out = append(out, ivl{n, n})
		}
	}
	return out
}

func inIvls(v *big.Rat, is []ivl) bool {
	for _, i := range is {
		if v.Cmp(i.lo) >= 0 && v.Cmp(i.hi) <= 0 {
			return true
		}
	}
	return false
}

// member decides whether the canonical scalar s belongs to the type (the specification).
func (t *c05type) member(s string) bool {
	switch t.base {
	case "enumeration":
		for i, e := range t.enums {
			if e == s || strconv.Itoa(i) == s {
				return true // a declared name or value
			}
		}
		return false
	case "identityref":
		if strings.HasPrefix(s, "m:") {
			s = s[2:] // qualified with the defining module's name
		}
		for _, e := range t.idents {
			if e == s {
				return true
			}
		}
		return false
	case "bits":
		for _, w := range strings.Fields(s) {
			ok := false
			for _, b := range t.bits {
				if b == w {
					ok = true
				}
			}
			if !ok {
				return false
			}
		}
		return true
	case "binary":
		raw, err := base64.StdEncoding.DecodeString(s)
		if err != nil {
			return false
		}
		n := new(big.Rat).SetInt64(int64(len(raw)))
		lo, hi := baseBounds("string", 0)
		for _, l := range t.levels {
			if l.length != "" && !inIvls(n, parseRange(l.length, lo, hi)) {
				return false
			}
		}
		return true
	case "string":
		n := new(big.Rat).SetInt64(int64(utf8.RuneCountInString(s)))
		lo, hi := baseBounds("string", 0)
		for _, l := range t.levels {
			if l.length != "" && !inIvls(n, parseRange(l.length, lo, hi)) {
				return false
			}
			for _, p := range l.pats {
				m := regexp.MustCompile(`^(?:` + p.re + `)$`).MatchString(s)
				if m == p.invert {
					return false
				}
			}
		}
		return true
	}
	v, ok := new(big.Rat).SetString(s)
	if !ok {
		return false
	}
	lo, hi := baseBounds(t.base, t.fd)
	if v.Cmp(lo) < 0 || v.Cmp(hi) > 0 {
		return false
	}
	if t.base != "decimal64" && !v.IsInt() {
		return false
	}
	if t.base == "decimal64" {
		// the value space has fraction-digits digits after the point and no more
		scale := new(big.Rat).SetInt(new(big.Int).Exp(big.NewInt(10), big.NewInt(int64(t.fd)), nil))
		if !new(big.Rat).Mul(v, scale).IsInt() {
			return false
		}
	}
	for _, l := range t.levels {
		if l.rng != "" && !inIvls(v, parseRange(l.rng, lo, hi)) {
			return false
		}
	}
	return true
}

func (t *c05type) yang() (typedefs string, leafType string) {
	name := t.base
	var b strings.Builder
	restr := func(l c05level) string {
		var r strings.Builder
		if l.rng != "" {
			fmt.Fprintf(&r, " range \"%s\";", l.rng)
		}
		if l.length != "" {
			fmt.Fprintf(&r, " length \"%s\";", l.length)
		}
		for _, p := range l.pats {
			if p.invert {
				fmt.Fprintf(&r, " pattern '%s' { modifier invert-match; }", p.re)
			} else {
				fmt.Fprintf(&r, " pattern '%s';", p.re)
			}
		}
		return r.String()
	}
	body := func(l c05level, first bool) string {
		extra := ""
		if first {
			switch t.base {
			case "decimal64":
				extra = fmt.Sprintf(" fraction-digits %d;", t.fd)
			case "enumeration":
				for _, e := range t.enums {
					extra += " enum " + e + ";"
				}
			case "bits":
				for i, e := range t.bits {
					extra += fmt.Sprintf(" bit %s { position %d; }", e, i)
				}
			case "identityref":
				extra = " base base-id;"
				if t.twoBases {
					extra += " base other-base;"
				}
			}
		}
		return extra + restr(l)
	}
	levels := t.levels
	if len(levels) == 0 {
		levels = []c05level{{}}
	}
	for i, l := range levels {
		last := i == len(levels)-1
		bd := body(l, i == 0)
		if last {
			if bd == "" {
				leafType = "type " + name + ";"
			} else {
				leafType = "type " + name + " {" + bd + " }"
			}
		} else {
			td := fmt.Sprintf("td%d", i)
			if bd == "" {
				fmt.Fprintf(&b, "  typedef %s { type %s; }\n", td, name)
			} else {
				fmt.Fprintf(&b, "  typedef %s { type %s {%s } }\n", td, name, bd)
			}
			name = td
		}
	}
	return b.String(), leafType
}

var rangeCatalog = map[string][]string{
	"int8":      {"0..10", "-5..5", "min..0", "10..max", "-128..-100 | 100..127", "5", "1 | 3 | 5..7", "min..max", "-1..1", "min | 5..7", "1 | max"},
	"uint8":     {"0..10", "250..max", "min..5", "1..2 | 4 | 200..255", "128", "100..200"},
	"int16":     {"-32768..-1", "0..1000", "min..max", "300", "-1..1 | 1000..2000"},
	"uint16":    {"1024..65535", "0..0", "min..80 | 443 | 8000..8999", "1..max", "min | 100 | max"},
	"int32":     {"-2147483648..-2147483647", "0..100", "1..10 | 20..30", "min..-1", "2147483646..max", "-100..100", "min | 5..10"},
	"uint32":    {"0..4294967295", "4294967290..max", "1..65535", "min..0", "10 | 20 | 30"},
	"int64":     {"-9223372036854775808..-9223372036854775807", "9223372036854775806..max", "-10..10", "min..0", "0..9007199254740993", "4611686018427387904..4611686018427387910"},
	"uint64":    {"18446744073709551614..max", "0..10", "9223372036854775807..9223372036854775809", "min..1", "1..18446744073709551615"},
	"decimal64": {"0..10", "-1.5..1.5", "0.5", "min..0", "99.9..max", "1.1..2.2 | 3.3..4.4", "-0.1..0.1"},
}
var lengthCatalog = []string{"0..3", "1..max", "2", "min..1", "1 | 3..4", "0", "3..5", "5..max", "2..2 | 6", "min | 3", "2 | max"}
var patternCatalog = []c05pat{{"[a-z]+", false}, {"[0-9]{2}", false}, {"a.*", false}, {".*z", false}, {"ab", false}, {"[a-z]+", true}, {"x?y*", false}, {"(ab|cd)+", false}, {"[^0-9]*", false}, {"a|b", false}, {"\\d+", false}, {"[é世]+", false},
	{"on|off", false}, {"[0-9]+ms|[0-9]+s|never", false}, {"ab|cd|z", true}}

func genC05Type(c *core.Ctx, idx int) *c05type {
	r := c.Rand
	bases := []string{"int8", "uint8", "int16", "uint16", "int32", "uint32", "int64", "uint64", "decimal64", "string", "string", "string", "enumeration", "bits", "identityref", "binary"}
	// (the number of bases is a multiple of 4: take the list flag from another digit of idx so that every base comes as a leaf-list too)
	t := &c05type{base: bases[idx%len(bases)], list: (idx+idx/len(bases))%4 == 3}
	nlev := 1 + r.Intn(3)
	switch t.base {
	case "enumeration":
		t.enums = []string{"zero", "one", "two"}
		return t
	case "bits":
		t.bits = []string{"b0", "b1", "b2"}
		return t
	case "identityref":
		t.idents = []string{"id-a", "id-b", "id-ab"}
		if r.Intn(2) == 0 {
			t.twoBases = true
			t.idents = []string{"id-ab"}
		}
		return t
	case "decimal64":
		t.fd = 1 + r.Intn(3)
	}
	if t.base == "string" && idx%len(bases) == 9 {
		// one level, one pattern, every catalog pattern in turn: the only shape whose verdict is not absorbed by the
		// coarse "several patterns are ORed" signature
		t.levels = []c05level{{pats: []c05pat{patternCatalog[(idx/len(bases))%len(patternCatalog)]}}}
		return t
	}
	for i := 0; i < nlev; i++ {
		var l c05level
		if t.base == "binary" {
			// length of a binary is counted in octets
			if r.Intn(4) != 0 {
				l.length = lengthCatalog[r.Intn(len(lengthCatalog))]
			}
		} else if t.base == "string" {
			if r.Intn(2) == 0 {
				l.length = lengthCatalog[r.Intn(len(lengthCatalog))]
			}
			np := r.Intn(3)
			for k := 0; k < np; k++ {
				l.pats = append(l.pats, patternCatalog[r.Intn(len(patternCatalog))])
			}
		} else if r.Intn(4) != 0 {
			cat := rangeCatalog[t.base]
			l.rng = cat[r.Intn(len(cat))]
		}
		t.levels = append(t.levels, l)
	}
	return t
}

// candidates for the type in canonical form.
func (t *c05type) candidates(c *core.Ctx) []string {
	switch t.base {
	case "enumeration":
		return []string{"zero", "one", "two", "three", "ZERO", "0", "2", "3", "7", "-1", "zer"}
	case "bits":
		return []string{"b0", "b0 b2", "b1 b2 b0", "b3", "b0 nope", "nope", "b0 b0"}
	case "identityref":
		// base-id is the base, not one of the identities derived from it; id-o derives from other-base only
		return []string{"id-a", "id-b", "id-ab", "id-c", "id-o", "base-id", "other-base", "m:id-a", "m:id-ab", "m:base-id", "id-", "ID-A", "nope"}
	case "binary":
		var out []string
		for _, raw := range []string{"", "a", "ab", "abc", "abcd", "abcde", "abcdef", "\x00\xff", "é", "\x00\x00\x00", strings.Repeat("x", 300)} {
			out = append(out, base64.StdEncoding.EncodeToString([]byte(raw)))
		}
		return append(out, "!!!", "YQ", "YWJj YWJj")
	case "string":
		out := []string{"", "a", "ab", "abc", "abcd", "abcde", "abcdef", "z", "az", "xxabxx", "abz", "12", "123", "a1", "é", "éé", "ééé", "世世世世", "世", "y", "xyy", "cdab", "abab", "b", "A", " ", "aé世", strings.Repeat("a", 300),
			"on", "off", "only", "onoff", "takeoff", "10ms", "10s", "never", "whenever", "x10s", "10ms or so", "cd", "abx", "xz", "zebra"}
		return out
	}
	lo, hi := baseBounds(t.base, t.fd)
	set := map[string]bool{}
	add := func(r *big.Rat) {
		if r.Cmp(lo) < 0 || r.Cmp(hi) > 0 {
			return
		}
		if t.base == "decimal64" {
			// float64 cannot hold values near the decimal64 extremes exactly: stay well inside
			if new(big.Rat).Abs(r).Cmp(big.NewRat(1000000000000, 1)) > 0 {
				return
			}
			f, _ := r.Float64()
			set[dp.CanonDecimal(f)] = true
			return
		}
		if r.IsInt() {
			set[r.Num().String()] = true
		}
	}
	step := big.NewRat(1, 1)
	if t.base == "decimal64" {
		step = new(big.Rat).SetFrac(big.NewInt(1), new(big.Int).Exp(big.NewInt(10), big.NewInt(int64(t.fd)), nil))
	}
	if t.base != "decimal64" {
		add(lo)
		add(hi)
	} else {
		// float64 cannot hold the decimal64 extremes exactly: stay well inside
		add(big.NewRat(-1000000, 1))
		add(big.NewRat(1000000, 1))
	}
	add(big.NewRat(0, 1))
	add(big.NewRat(1, 1))
	add(big.NewRat(-1, 1))
	if t.base == "decimal64" {
		add(new(big.Rat).Add(big.NewRat(1, 1), new(big.Rat).Quo(step, big.NewRat(2, 1))))
		add(new(big.Rat).Quo(step, big.NewRat(4, 1)))
	}
	for _, l := range t.levels {
		if l.rng == "" {
			continue
		}
		for _, iv := range parseRange(l.rng, lo, hi) {
			for _, b := range []*big.Rat{iv.lo, iv.hi} {
				add(b)
				add(new(big.Rat).Add(b, step))
				add(new(big.Rat).Sub(b, step))
				add(new(big.Rat).Add(b, big.NewRat(1000, 1)))
				add(new(big.Rat).Sub(b, big.NewRat(1000, 1)))
				if t.base == "decimal64" {
					// one digit more than the type has
					half := new(big.Rat).Quo(step, big.NewRat(2, 1))
					add(new(big.Rat).Add(b, half))
					add(new(big.Rat).Sub(b, half))
				}
			}
			mid := new(big.Rat).Add(iv.lo, iv.hi)
			mid.Quo(mid, big.NewRat(2, 1))
			if t.base != "decimal64" {
				mid = new(big.Rat).SetInt(new(big.Int).Quo(mid.Num(), mid.Denom()))
			}
			add(mid)
		}
	}
	var out []string
	for k := range set {
		out = append(out, k)
	}
	// deterministic order
	for i := 1; i < len(out); i++ {
		for j := i; j > 0 && out[j] < out[j-1]; j-- {
			out[j], out[j-1] = out[j-1], out[j]
		}
	}
	return out
}

func (t *c05type) stype() *dp.SType {
	return &dp.SType{Base: t.base, FD: t.fd, Enums: t.enums, Bits: t.bits, Idents: t.idents}
}

func levelKinds(t *c05type) string {
	out := ""
	for _, l := range t.levels {
		k := ""
		if l.rng != "" {
			k += "r"
			if strings.Contains(l.rng, "min") || strings.Contains(l.rng, "max") {
				k += "m"
			}
			if strings.Contains(l.rng, "|") {
				k += "a"
			}
		}
		if l.length != "" {
			k += "l"
		}
		for _, p := range l.pats {
			if p.invert {
				k += "P"
			} else {
				k += "p"
			}
		}
		out += "[" + k + "]"
	}
	return out
}

var c05NestedUnion *meta.Module

// nestedUnion: a union inside a union, none of whose members holds numbers as wide as the outer union's other member: a value
// is one of the inner member's range (when it fits that member) or of the outer member's range
func (p c05) nestedUnion(c *core.Ctx) {
	if c05NestedUnion == nil {
		m, err := parser.LoadModuleFromString(nil, `module nu { namespace "urn:nu"; prefix nu; revision 2020-01-01;
  leaf nested { type union { type union { type int8 { range "1..10"; } type boolean; } type int32 { range "100..200"; } } }
  leaf-list nl { type union { type union { type uint8 { range "1..10"; } } type int32 { range "100..200 | 1000"; } } } }`)
		if err != nil {
			c.Violate("harness/nested-union-module", "%v", err)
			return
		}
		c05NestedUnion = m
	}
	for _, v := range []int64{0, 1, 5, 10, 11, 50, 99, 100, 150, 200, 201, 300, 1000, 1001, -1, -129, 127, 128, 255, 256, 100000} {
		for _, leaf := range []string{"nested", "nl"} {
			want := (v >= 1 && v <= 10) || (v >= 100 && v <= 200) || (leaf == "nl" && v == 1000)
			doc := fmt.Sprintf(`{"nested":%d}`, v)
			if leaf == "nl" {
				doc = fmt.Sprintf(`{"nl":[5,%d]}`, v)
			}
			c.Eval()
			c.Shape("nested-union/%s/%v", leaf, want)
			data := map[string]interface{}{}
			var err error
			if c.Guard("nested union", func() {
				n, e := nodeutil.ReadJSON(doc)
				if e != nil {
					err = e
					return
				}
				err = node.NewBrowser(c05NestedUnion, nodeutil.ReflectChild(data)).Root().UpsertFrom(n)
			}) {
				continue
			}
			if (err == nil) != want {
				cls := "accepted-outside"
				if want {
					cls = "rejected-inside"
				}
				c.Violate(cls+"/nested-union/"+leaf, "%s: accepted=%v (%v), want %v: inner union int8/uint8 1..10, outer member int32 100..200 (nl: also 1000)\nstored: %v", doc, err == nil, err, want, data)
			} else if err != nil && len(data) > 0 {
				c.Violate("stored-outside/nested-union/"+leaf, "%s was refused (%v) and yet something is stored: %v", doc, err, data)
			}
		}
	}
}

var c05Decimals *meta.Module

// fractionDigits: a decimal64 with no more digits after the point than its type has is a value of the type however large it
// is before the point; one digit more is not
func (p c05) fractionDigits(c *core.Ctx) {
	if c05Decimals == nil {
		m, err := parser.LoadModuleFromString(nil, `module fd { namespace "urn:fd"; prefix fd; revision 2020-01-01;
  leaf d4 { type decimal64 { fraction-digits 4; } } leaf d2 { type decimal64 { fraction-digits 2; } } leaf d1 { type decimal64 { fraction-digits 1; } } leaf-list l3 { type decimal64 { fraction-digits 3; } } }`)
		if err != nil {
			c.Violate("harness/fraction-digits-module", "%v", err)
			return
		}
		c05Decimals = m
	}
	for _, tc := range []struct {
		leaf, text string
		want       bool
	}{{"d4", "97964648.165", true}, {"d4", "10943301.9687", true}, {"d4", "0.0001", true}, {"d4", "123456789012.1234", true}, {"d4", "1.99999", false}, {"d4", "0.12345", false}, {"d4", "97964648.16501", false},
		{"d2", "17894603384501.85", true}, {"d2", "0.01", true}, {"d2", "-99999999999.99", true}, {"d2", "1.999", false}, {"d2", "17894603384.855", false},
		{"d1", "922337203685477.5", true}, {"d1", "0.25", false}, {"l3", "4503599627370.125", true}, {"l3", "1.0005", false}} {
		doc := fmt.Sprintf(`{"%s":%s}`, tc.leaf, tc.text)
		if tc.leaf == "l3" {
			doc = fmt.Sprintf(`{"l3":[0.5,%s]}`, tc.text)
		}
		c.Eval()
		c.Shape("fraction-digits/%s/%v", tc.leaf, tc.want)
		data := map[string]interface{}{}
		var err error
		if c.Guard("fraction digits", func() {
			n, e := nodeutil.ReadJSON(doc)
			if e != nil {
				err = e
				return
			}
			err = node.NewBrowser(c05Decimals, nodeutil.ReflectChild(data)).Root().UpsertFrom(n)
		}) {
			continue
		}
		if (err == nil) != tc.want {
			cls := "accepted-outside"
			if tc.want {
				cls = "rejected-inside"
			}
			c.Violate(cls+"/decimal64/fraction-digits-directed", "%s: accepted=%v (%v), want %v\nstored: %v", doc, err == nil, err, tc.want, data)
		}
	}
}

func (p c05) Run(c *core.Ctx, idx int) {
	if idx%40 == 7 {
		p.nestedUnion(c)
	}
	if idx%40 == 9 {
		p.fractionDigits(c)
	}
	t := genC05Type(c, idx)
	tds, leafType := t.yang()
	kw := "leaf"
	if t.list {
		kw = "leaf-list"
	}
	idents := ""
	if t.base == "identityref" {
		idents = "  identity base-id;\n  identity other-base;\n  identity id-a { base base-id; }\n  identity id-b { base base-id; }\n  identity id-o { base other-base; }\n  identity id-ab { base base-id; base other-base; }\n  identity id-c;\n"
	}
	// decoy leaves: the same pattern / range texts with the opposite modifier or other bounds elsewhere in the
	// module must not influence x (statements are independent objects)
	decoy := ""
	for i, l := range t.levels {
		for j, pt := range l.pats {
			if pt.invert {
				decoy += fmt.Sprintf("    leaf decoy%d%d { type string { pattern '%s'; } }\n", i, j, pt.re)
			} else {
				decoy += fmt.Sprintf("    leaf decoy%d%d { type string { pattern '%s' { modifier invert-match; } } }\n", i, j, pt.re)
			}
		}
	}
	// how the leaf reaches the restricted type: directly, as the first member of a union whose other member accepts no candidate, or as a
	// leafref to a sibling leaf of that type. The effective type - what the leaf may hold - is the same in all three.
	via := []string{"", "", "union", "leafref"}[(idx/15)%4]
	if t.base == "enumeration" || t.base == "bits" || t.base == "identityref" {
		via = ""
	}
	switch via {
	case "union":
		leafType = "type union { " + leafType + " type enumeration { enum never-a-candidate; } }"
	case "leafref":
		decoy += "    leaf tgt { " + leafType + " }\n"
		leafType = "type leafref { path \"../tgt\"; }"
	}
	// where the typedefs of the chain live: in the module, or in container c itself with a sibling container (written first) that
	// defines typedefs of the same names and quite another meaning (RFC 7950 5.5: sibling scopes may reuse a name)
	localTds, sibling := "", ""
	if tds != "" && (idx/7)%3 == 1 {
		localTds = strings.ReplaceAll(tds, "  typedef", "    typedef")
		sibling = "  container sib {\n"
		for i := 0; i+1 < len(t.levels); i++ {
			sibling += fmt.Sprintf("    typedef td%d { type string; }\n", i)
		}
		sibling += fmt.Sprintf("    leaf sx { type td%d; }\n  }\n", len(t.levels)-2)
		tds = ""
	}
	yang := fmt.Sprintf("module m {\n  namespace \"urn:m\";\n  prefix m;\n  revision 2020-01-01;\n%s%s%s  container c {\n%s    %s x { %s }\n    leaf other { type string; }\n%s  }\n}\n", idents, tds, sibling, localTds, kw, leafType, decoy)
	var mod *meta.Module
	var err error
	if c.Guard("load", func() { mod, err = parser.LoadModuleFromString(nil, yang) }) {
		return
	}
	if err != nil {
		c.R.Inconclusive = "schema does not load: " + err.Error() + "\n" + yang
		return
	}
	c.SetSample(map[string]interface{}{"yang": yang})
	// bind a dp schema by hand so that the reference store can be used
	xs := &dp.SNode{Kind: dp.Leaf, Name: "x", Type: t.stype()}
	if t.list {
		xs.Kind = dp.LeafList
	}
	cs := &dp.SNode{Kind: dp.Container, Name: "c", Children: []*dp.SNode{xs, {Kind: dp.Leaf, Name: "other", Type: &dp.SType{Base: "string"}}}}
	for i, l := range t.levels {
		for j := range l.pats {
			cs.Children = append(cs.Children, &dp.SNode{Kind: dp.Leaf, Name: fmt.Sprintf("decoy%d%d", i, j), Type: &dp.SType{Base: "string"}})
		}
	}
	if via == "leafref" {
		cs.Children = append(cs.Children, &dp.SNode{Kind: dp.Leaf, Name: "tgt", Type: t.stype()})
	}
	s := &dp.Schema{Name: "m", Prefix: "m", NS: "urn:m", Top: []*dp.SNode{cs}}
	if sibling != "" {
		s.Top = []*dp.SNode{{Kind: dp.Container, Name: "sib", Children: []*dp.SNode{{Kind: dp.Leaf, Name: "sx", Type: &dp.SType{Base: "string"}}}}, cs}
	}
	if err := s.BindTo(mod); err != nil {
		c.R.Inconclusive = "bind: " + err.Error()
		return
	}
	cands := t.candidates(c)
	// a member to pre-store
	var v0 string
	for _, cd := range cands {
		if t.member(cd) {
			v0 = cd
			break
		}
	}
	havePre := v0 != "" || (t.base == "string" && t.member(""))
	kinds := levelKinds(t)
	paths := []string{"set-typed", "setvalue", "json", "xml", "node", "node-into"}
	for _, cand := range cands {
		in := t.member(cand)
		// leaf-list: mix one candidate with members
		var lval *dp.LVal
		if t.list {
			lval = &dp.LVal{List: true, V: []string{cand}}
			// members other than the candidate, lowest and highest first where the values are numbers: the candidate is written alone,
			// next to one member, or between (and before, and after) two members that lie on either side of it
			var lo, hi string
			var loR, hiR *big.Rat
			for _, cd := range cands {
				if cd == cand || !t.member(cd) {
					continue
				}
				r, ok := new(big.Rat).SetString(cd)
				if !ok {
					r = nil
				}
				if lo == "" || (r != nil && loR != nil && r.Cmp(loR) < 0) {
					lo, loR = cd, r
				}
				if hi == "" || (r != nil && hiR != nil && r.Cmp(hiR) > 0) || (hi == lo && cd != lo) {
					hi, hiR = cd, r
				}
			}
			switch k := c.Rand.Intn(6); {
			case k == 0 && havePre && v0 != cand:
				lval.V = []string{v0, cand}
			case k == 1 && havePre && v0 != cand:
				lval.V = []string{cand, v0}
			case k >= 2 && k <= 4 && lo != "" && hi != "" && lo != hi:
				lval.V = [][]string{{lo, cand, hi}, {hi, cand, lo}, {lo, hi, cand}, {cand, lo, hi}}[c.Rand.Intn(4)]
				c.Count("leaf_list_candidate_among_members")
			}
		} else {
			lval = &dp.LVal{V: []string{cand}}
		}
		for _, path := range paths {
			if (path == "set-typed" || path == "node" || path == "node-into") && (t.base == "enumeration" || t.base == "bits" || t.base == "identityref") {
				continue // membership of labels is decided while converting; typed values carry what the caller built
			}
			if (path == "set-typed" || path == "node" || path == "node-into") && t.base == "binary" && restrictionClass(t, cand) == "not-base64" {
				continue // likewise: a typed binary whose text is no base64 is the caller's construction
			}
			root := dp.NewDNode(nil)
			cn := dp.NewDNode(cs)
			root.Kids["c"] = cn
			cn.Leaves["other"] = &dp.LVal{V: []string{"keep"}}
			if havePre {
				if t.list {
					cn.Leaves["x"] = &dp.LVal{List: true, V: []string{v0}}
				} else {
					cn.Leaves["x"] = &dp.LVal{V: []string{v0}}
				}
			}
			before := root.Clone()
			store := dp.NewStore(s, root)
			b := store.Browser()
			c.Eval()
			c.Progress()
			cls := "member"
			if !in {
				cls = "outside"
			}
			c.Shape("%s/%s/%s/%s/list=%v", t.base, kinds, cls, path, t.list)
			var werr error
			desc := fmt.Sprintf("%s write of %s to %s x { %s }", path, lval, kw, leafType)
			// the selection the write goes through: found plainly, found with request parameters, or narrowed afterwards (what a server
			// does with the query string of a PUT / PATCH): the type of x is checked all the same
			how := (idx/4 + len(cand)) % 4
			panicked := c.Guard(desc, func() {
				var csel *node.Selection
				var e error
				switch how {
				case 1:
					csel, e = b.Root().Find("c?depth=10")
				case 2:
					if csel, e = b.Root().Find("c"); e == nil && csel != nil {
						csel, e = csel.Constrain("content=all")
					}
				default:
					csel, e = b.Root().Find("c")
				}
				if e != nil || csel == nil {
					werr = fmt.Errorf("verif: container not found: %v", e)
					return
				}
				switch path {
				case "set-typed":
					lsel, e := csel.Find("x")
					if e != nil {
						werr = e
						return
					}
					werr = lsel.Set(dp.ToVal(xs.Type, lval))
				case "setvalue":
					lsel, e := csel.Find("x")
					if e != nil {
						werr = e
						return
					}
					werr = lsel.SetValue(goValue(t, lval))
				case "json":
					holder := dp.NewDNode(cs)
					holder.Leaves["x"] = lval
					n, e := nodeutil.ReadJSON(dp.EncodeJSON(s, holder, dp.JOpts{Int64AsString: true}))
					if e != nil {
						werr = e
						return
					}
					werr = csel.UpsertFrom(n)
				case "xml":
					holder := dp.NewDNode(cs)
					holder.Leaves["x"] = lval
					doc := dp.EncodeXML(s, "c", holder, nil)
					n, e := nodeutil.ReadXMLDoc(strings.NewReader(doc))
					if e != nil {
						werr = e
						return
					}
					werr = csel.UpsertFrom(n)
				case "node":
					holder := dp.NewDNode(cs)
					holder.Leaves["x"] = lval
					werr = csel.UpsertFrom(dp.NewStore(s, nil).NodeAt(holder))
				case "node-into":
					// the same edit started from the source side: its selection is split onto the target node
					srcRoot := dp.NewDNode(nil)
					holder := dp.NewDNode(cs)
					holder.Leaves["x"] = lval
					srcRoot.Kids["c"] = holder
					ssel, e := dp.NewStore(s, srcRoot).Browser().Root().Find("c")
					if e != nil || ssel == nil {
						werr = fmt.Errorf("verif: source container not found: %v", e)
						return
					}
					werr = ssel.UpsertInto(store.NodeAt(cn))
				}
			})
			if panicked {
				continue
			}
			rc := restrictionClass(t, cand)
			sig := fmt.Sprintf("%s/%s", t.base, rc)
			if t.list {
				sig += "/leaf-list"
			}
			sig += "/" + path
			if via != "" {
				sig += "/via-" + via
			}
			if how == 1 || how == 2 {
				sig += "/constrained-selection"
			}
			if sibling != "" {
				sig += "/local-typedefs"
			}
			if strings.Contains(rc, "one-of-several") {
				// several pattern statements: the library accepts a value matching ANY of them (pinned by its own
				// test suite); one coarse signature so that the known finding does not fan out
				sig = "string/patterns-ored"
				// ... but only what that explains: the library checks the patterns of the nearest level that states any and takes the
				// value when one of them accepts it. A value none of those accepts is a different matter.
				explained := false
				for i := len(t.levels) - 1; i >= 0; i-- {
					if len(t.levels[i].pats) == 0 {
						continue
					}
					for _, pt := range t.levels[i].pats {
						if regexp.MustCompile(`^(?:`+pt.re+`)$`).MatchString(cand) != pt.invert {
							explained = true
						}
					}
					break
				}
				if !explained {
					sig = "string/pattern-of-nearest-level-violated/" + path
				}
			}
			if !in {
				if werr == nil {
					c.Violate("accepted-outside/"+sig, "%s was accepted although %q is outside the effective type\nmodule:\n%s", desc, cand, yang)
				}
				if d := dp.Diff(s, before, store.Root, dp.CmpOpts{}); d != "" {
					c.Violate("stored-outside/"+sig, "%s (error: %v) changed the store although %q is outside the effective type:\n%s\nmodule:\n%s", desc, werr, cand, d, yang)
				}
			} else {
				if werr != nil {
					c.Count("over_rejections")
					c.Count("over_rejection_" + t.base + "_" + path)
				} else {
					c.Count("accepted_members")
				}
			}
		}
	}
}

// restrictionClass names which kind of restriction the candidate violates first (for signatures).
func restrictionClass(t *c05type, cand string) string {
	switch t.base {
	case "enumeration", "bits", "identityref":
		return "label"
	case "binary":
		if _, err := base64.StdEncoding.DecodeString(cand); err != nil {
			return "not-base64"
		}
		if t.member(cand) {
			return "member"
		}
		return "length-in-octets"
	case "string":
		n := new(big.Rat).SetInt64(int64(utf8.RuneCountInString(cand)))
		lo, hi := baseBounds("string", 0)
		for i, l := range t.levels {
			lvl := "leaf-level"
			if i < len(t.levels)-1 {
				lvl = "typedef-level"
			}
			if l.length != "" && !inIvls(n, parseRange(l.length, lo, hi)) {
				if len(cand) != utf8.RuneCountInString(cand) {
					return "length-multibyte/" + lvl
				}
				return "length/" + lvl
			}
			for k, p := range l.pats {
				m := regexp.MustCompile(`^(?:` + p.re + `)$`).MatchString(cand)
				if m == p.invert {
					cls := "pattern"
					if p.invert {
						cls = "pattern-inverted"
					}
					if regexp.MustCompile(p.re).MatchString(cand) != p.invert {
						cls += "-unanchored-match"
					}
					if len(l.pats) > 1 || len(t.levels) > 1 {
						cls += "-one-of-several"
					}
					_ = k
					return cls + "/" + lvl
				}
			}
		}
		return "member"
	}
	v, _ := new(big.Rat).SetString(cand)
	lo, hi := baseBounds(t.base, t.fd)
	nr := 0
	for _, l := range t.levels {
		if l.rng != "" {
			nr++
		}
	}
	for i, l := range t.levels {
		if l.rng != "" && !inIvls(v, parseRange(l.rng, lo, hi)) {
			lvl := "leaf-level"
			if i < len(t.levels)-1 {
				lvl = "typedef-level"
			}
			cls := "range"
			if nr > 1 {
				cls = "range-one-of-several-levels"
			}
			if strings.Contains(l.rng, "min") || strings.Contains(l.rng, "max") {
				cls += "-minmax"
			}
			return cls + "/" + lvl
		}
	}
	return "member"
}

// goValue is the untyped Go value a caller of SetValue would pass.
func goValue(t *c05type, l *dp.LVal) interface{} {
	one := func(s string) interface{} {
		switch t.base {
		case "string", "enumeration", "bits", "identityref", "binary":
			return s
		case "decimal64":
			f, _ := strconv.ParseFloat(s, 64)
			return f
		case "uint64":
			u, _ := strconv.ParseUint(s, 10, 64)
			return u
		}
		i, _ := strconv.ParseInt(s, 10, 64)
		return i
	}
	if !l.List {
		return one(l.V[0])
	}
	out := make([]interface{}, len(l.V))
	for i, s := range l.V {
		out[i] = one(s)
	}
	return out
}

var _ = val.FmtString
var _ node.Node
