package props

import (
	"fmt"
	"strings"

	"github.com/freeconf/yang/meta"
	"github.com/freeconf/yang/parser"

	"verif/core"
)

// Two directed modules for C06, run once per ten generated modules.
//
// (1) when: the conditions written on a grouping's node, on the uses and on the augment around the uses are read back from every copy
// exactly as written for that copy - its own, then the uses', then the augment's - and nothing of what is written at the other copies.
//
// (2) sibling order: a module with many augments (13 to 40, more than the 12 below which Go's sort is an insertion sort) of different
// depth, several of them adding to the same target: every target lists what was added to it in the order of the text.
func c06Directed(c *core.Ctx, k int) {
	c06WhenOfCopies(c)
	c06ManyAugments(c, 13+(k*7)%28)
}

func c06WhenOfCopies(c *core.Ctx) {
	text := "module m {\n  namespace \"urn:m\";\n  prefix m;\n  revision 2020-01-01;\n" +
		"  grouping g { leaf p { type int32; } leaf v { when \"p>1\"; type string; } container k { when \"p>2\"; leaf k1 { type string; } } leaf plain { type string; } }\n" +
		"  container a { leaf o { type int32; } uses g { when \"o>1\"; } }\n" +
		"  container b { uses g; }\n" +
		"  container c { leaf r { type int32; } uses g { when \"r>1\"; } }\n" +
		"  container d { leaf s { type int32; } }\n" +
		"  augment \"/d\" { when \"s>1\"; uses g { when \"s>2\"; } }\n" +
		"  container e { uses g; }\n}\n"
	want := map[string][]string{
		"a/v": {"p>1", "o>1"}, "a/k": {"p>2", "o>1"}, "a/plain": {"o>1"},
		"b/v": {"p>1"}, "b/k": {"p>2"}, "b/plain": nil,
		"c/v": {"p>1", "r>1"}, "c/k": {"p>2", "r>1"}, "c/plain": {"r>1"},
		"d/v": {"p>1", "s>2", "s>1"}, "d/k": {"p>2", "s>2", "s>1"}, "d/plain": {"s>2", "s>1"},
		"e/v": {"p>1"}, "e/k": {"p>2"}, "e/plain": nil,
	}
	c.Eval()
	c.Shape("directed/when-of-copies")
	var m *meta.Module
	var err error
	if c.Guard("load when of copies", func() { m, err = parser.LoadModuleFromString(nil, text) }) {
		return
	}
	if err != nil {
		c.Violate("rejected/when-of-copies", "%v\n%s", err, text)
		return
	}
	for _, site := range []string{"a", "b", "c", "d", "e"} {
		for _, leaf := range []string{"v", "k", "plain"} {
			c.Eval()
			def := meta.Find(m, site+"/"+leaf)
			var got []string
			if hw, ok := def.(meta.HasWhen); ok {
				for w, n := hw.When(), 0; w != nil && n < 10; w, n = w.And(), n+1 {
					got = append(got, w.Expression())
				}
			}
			if fmt.Sprint(got) != fmt.Sprint(want[site+"/"+leaf]) {
				c.Violate("altered/when/copies-of-a-grouping-node", "%s/%s reads back the conditions %q, written for this copy: %q (its own, then the uses', then the augment's)\n%s", site, leaf, got, want[site+"/"+leaf], text)
			}
		}
	}
}

func c06ManyAugments(c *core.Ctx, n int) {
	// targets of depth 1, 2 and 3; augment i goes to target i%3 (so depths alternate in the text) and adds leaf x<i>
	targets := []string{"/t", "/t/u", "/t/u/w"}
	var b strings.Builder
	b.WriteString("module m {\n  namespace \"urn:m\";\n  prefix m;\n  revision 2020-01-01;\n  container t { container u { container w { leaf w0 { type string; } } leaf u0 { type string; } } leaf t0 { type string; } }\n")
	want := map[string][]string{"/t": {"u", "t0"}, "/t/u": {"w", "u0"}, "/t/u/w": {"w0"}}
	for i := 0; i < n; i++ {
		tg := targets[(i*2+i/3)%3]
		name := fmt.Sprintf("x%d", i)
		fmt.Fprintf(&b, "  augment \"%s\" { leaf %s { type string; } }\n", tg, name)
		want[tg] = append(want[tg], name)
	}
	b.WriteString("}\n")
	text := b.String()
	c.Eval()
	c.Shape("directed/many-augments/%d", n)
	var m *meta.Module
	var err error
	if c.Guard("load many augments", func() { m, err = parser.LoadModuleFromString(nil, text) }) {
		return
	}
	if err != nil {
		c.Violate("rejected/many-augments", "%v\n%s", err, text)
		return
	}
	for _, tg := range targets {
		c.Eval()
		def, ok := meta.Find(m, strings.TrimPrefix(tg, "/")).(meta.HasDataDefinitions)
		if !ok {
			c.Violate("lost/many-augments/target", "%s not found after loading\n%s", tg, text)
			continue
		}
		var got []string
		for _, d := range def.DataDefinitions() {
			got = append(got, d.Ident())
		}
		if fmt.Sprint(got) != fmt.Sprint(want[tg]) {
			c.Violate("altered/sibling-order/many-augments", "%d augments: %s lists %v, the text adds them in the order %v\n%s", n, tg, got, want[tg], head(text, 3000))
		}
	}
}
