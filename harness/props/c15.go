package props

import (
	"bytes"
	"errors"
	"fmt"
	"reflect"
	"strings"

	"github.com/freeconf/yang/node"
	"github.com/freeconf/yang/nodeutil"
	"github.com/freeconf/yang/parser"
	"github.com/freeconf/yang/val"

	"verif/core"
	"verif/dp"
)

// C15 — the JSON writer always emits one well-formed, correctly named and typed value.

type c15 struct{}

func init() { core.Register(c15{}) }

func (c15) ID() string    { return "C15" }
func (c15) Level() string { return "exploration" }
func (c15) Rule() string {
	return "generated schema/tree (all leaf types, strings from the full JSON-hostile catalog incl. C0 controls, U+2028/9, astral, invalid-free UTF-8; " +
		"augmenting module; nesting up to 70) x writer config {Pretty,EnumAsIds,QualifyNamespace}^3 x start selection {root,container,list,entry,leaf}; " +
		"monitor: output parsed by encoding/json (one value then EOF, token stream) and compared with the model tree: names, RFC 7951 qualification, " +
		"types, strings; pretty vs compact token streams equal; fault part: io.Writer failing at byte b must surface as an error. " +
		"A shape = (start kind, config, tree shape); trivial = empty object"
}
func (c15) MinEvals(string) int { return 1000 }

func (c15) NumCases(tier string, seed int64) int {
	if tier == "thorough" {
		return 5000
	}
	return 500
}

var jsonHostile = []string{"", " ", "\"", "\\", "/", "<", ">", "&", " ", " ", "a b", "\x01", "\x1f", "\x7f", "\b\f\n\r\t", "\x00", "é", "世界", "\U0001F600", "\U0010FFFF", "�",
	"</script>", "a\"b\\c", "\\u0041", "\\n", "{\"a\":1}", "[1,2]", "null", "true", "1e5", "'", "`", " ", "​", "tab\there", "line\nbreak", strings.Repeat("x", 300), strings.Repeat("\"", 40)}

// boundaryStrings: a multi-byte character straddling every byte offset around the buffer sizes writers like to use
func boundaryStrings() []string {
	var out []string
	for _, b := range []int{256, 512, 1024, 2048, 4096, 8192, 32768, 65536} {
		for _, ch := range []string{"é", "€", "\U0001F600"} {
			for back := 1; back < len(ch)+1; back++ {
				if b > 8192 && back > 1 {
					continue
				}
				out = append(out, strings.Repeat("a", b-back)+ch+"z")
			}
		}
	}
	out = append(out, strings.Repeat("€", 1000), strings.Repeat("\"", 1030), strings.Repeat("\\", 700)+"é")
	return out
}

func init() {
	jsonHostile = append(jsonHostile, boundaryStrings()...)
	xmlHostile = append(xmlHostile, boundaryStrings()...)
}

type failWriter struct {
	n      int // bytes accepted before failing
	wrote  int
	failed bool
}

var errSentinel = errors.New("verif: injected output stream failure")

func (f *failWriter) Write(p []byte) (int, error) {
	if f.wrote+len(p) > f.n {
		k := f.n - f.wrote
		if k < 0 {
			k = 0
		}
		f.wrote += k
		f.failed = true
		return k, errSentinel
	}
	f.wrote += len(p)
	return len(p), nil
}

func deepSchema(depth int) (*dp.Schema, *dp.DNode) {
	s := &dp.Schema{Name: "m", Prefix: "m", NS: "urn:m"}
	var top *dp.SNode
	var cur *dp.SNode
	for i := 0; i < depth; i++ {
		n := &dp.SNode{Kind: dp.Container, Name: fmt.Sprintf("c%d", i)}
		if i%5 == 4 {
			n.Kind = dp.List
			n.Keys = []string{"k"}
			n.Children = []*dp.SNode{{Kind: dp.Leaf, Name: "k", Type: &dp.SType{Base: "string"}}}
		}
		if cur == nil {
			top = n
		} else {
			cur.Children = append(cur.Children, n)
		}
		cur = n
	}
	cur.Children = append(cur.Children, &dp.SNode{Kind: dp.Leaf, Name: "x", Type: &dp.SType{Base: "int32"}})
	s.Top = []*dp.SNode{top}
	if err := s.Compile(); err != nil {
		panic(err)
	}
	root := dp.NewDNode(nil)
	d := root
	for sn := top; sn != nil; {
		var next *dp.SNode
		if sn.Kind == dp.List {
			e := dp.NewDNode(sn)
			e.Leaves["k"] = &dp.LVal{V: []string{"e"}}
			d.Lists[sn.Name] = &dp.DList{S: sn, Entries: []*dp.DNode{e}}
			d = e
		} else {
			k := dp.NewDNode(sn)
			d.Kids[sn.Name] = k
			d = k
		}
		for _, c := range sn.Children {
			if c.Kind != dp.Leaf {
				next = c
			} else if c.Name == "x" {
				d.Leaves["x"] = &dp.LVal{V: []string{"7"}}
			}
		}
		sn = next
	}
	return s, root
}

// enumNames: an enum name is an arbitrary string (RFC 7950 9.6.4); in by-name mode it is a JSON string like any other
func (p c15) enumNames(c *core.Ctx) {
	names := []string{"plain", "3.5\" floppy", "c:\\temp", "tab\there", "two words", "é世", "</script>", "{}", "a,b", "nl\nx"}
	var enums strings.Builder
	for i, n := range names {
		q := strings.NewReplacer("\\", "\\\\", "\"", "\\\"", "\n", "\\n", "\t", "\\t").Replace(n)
		fmt.Fprintf(&enums, " enum \"%s\" { value %d; }", q, i*3)
	}
	text := "module en { namespace \"urn:en\"; prefix en; revision 2020-01-01; typedef et { type enumeration {" + enums.String() + " } }\n" +
		" leaf e { type et; } leaf-list el { type et; } leaf u { type union { type int8; type et; } } list l { key k; leaf k { type et; } leaf v { type string; } } }"
	m, err := parser.LoadModuleFromString(nil, text)
	if err != nil {
		c.Violate("enum-names/load", "%v\n%s", err, text)
		return
	}
	for i, n := range names {
		for _, asIds := range []bool{false, true} {
			c.Eval()
			c.Shape("enum-name/%d/ids=%v", i, asIds)
			e := val.Enum{Id: i * 3, Label: n}
			data := map[string]interface{}{"e": e, "el": val.EnumList{e, {Id: 0, Label: names[0]}}, "u": e,
				"l": map[string]interface{}{n: map[string]interface{}{"k": e, "v": "x"}}}
			var js string
			var werr error
			if c.Guard("write enum "+n, func() {
				w := nodeutil.JSONWtr{EnumAsIds: asIds}
				js, werr = w.JSON(node.NewBrowser(m, nodeutil.ReflectChild(data)).Root())
			}) {
				continue
			}
			if werr != nil {
				c.Violate("enum-names/write-error", "writing enum %q: %v", n, werr)
				continue
			}
			var top map[string]interface{}
			if e := jsonUnmarshal(js, &top); e != nil {
				c.Violate("enum-names/malformed", "enum name %q (ids=%v) gives malformed JSON: %v\n%s", n, asIds, e, js)
				continue
			}
			var want interface{} = n
			if asIds {
				want = float64(i * 3)
			}
			el, _ := top["el"].([]interface{})
			ll, _ := top["l"].([]interface{})
			var lk interface{}
			if len(ll) == 1 {
				lk = ll[0].(map[string]interface{})["k"]
			}
			if top["e"] != want || len(el) != 2 || el[0] != want || top["u"] != want || lk != want {
				c.Violate("enum-names/value-changed", "enum name %q (ids=%v) is written as e=%v el=%v u=%v key=%v\n%s", n, asIds, top["e"], el, top["u"], lk, js)
			}
		}
	}
}

func (p c15) Run(c *core.Ctx, idx int) {
	if idx == 0 {
		p.enumNames(c)
	}
	r := c.Rand
	var s *dp.Schema
	var t *dp.DNode
	if idx%50 == 49 {
		depth := []int{10, 30, 43, 44, 45, 60, 70}[(idx/50)%7]
		s, t = deepSchema(depth)
		c.Count("deep_schemas")
	} else {
		o := dp.DefaultGen()
		o.Choices = idx%3 == 0 || idx%6 == 1 // with the augmenting module half of the time: cases and case members from another module
		o.Aug = idx%3 == 1
		o.AugSub = idx%6 == 1            // the augments written in a submodule of the augmenting module: still that module's nodes
		o.Sub = idx%3 == 2 || idx%6 == 4 // some top-level nodes written in a submodule: they are the module's own in data
		o.Presence = true
		o.ListsOfAll = true
		o.NumericEnumNames = true
		o.MaxDepth = 2 + r.Intn(3)
		if idx%4 == 3 {
			o.Types = []string{"string", "enumeration", "empty", "bits", "identityref", "binary", "boolean", "uint64", "decimal64"}
		}
		s = dp.GenSchema(r, o)
		if err := s.Compile(); err != nil {
			c.R.Inconclusive = "generated schema does not compile: " + head(err.Error(), 300)
			return
		}
		do := dp.DefaultData()
		do.Hostile = true
		do.Strings = jsonHostile
		do.EmptyLists = true
		t = dp.GenTree(r, s, do)
	}
	wit := func() string { return "schema:\n" + s.Yang() + s.AugYang() + s.SubYang() + "tree:\n" + t.Dump(s) }
	c.SetSample(map[string]interface{}{"yang": head(s.Yang()+s.AugYang()+s.SubYang(), 3000), "tree": head(t.Dump(s), 2000)})
	src := dp.NewStore(s, t)
	b := src.Browser()

	// start selections: root + up to 4 random addressable nodes + one leaf
	type start struct {
		kind string
		path dp.DPath
		leaf string
	}
	starts := []start{{kind: "root"}}
	paths := t.AllPaths()
	for i := 0; i < 4 && len(paths) > 0; i++ {
		pth := paths[r.Intn(len(paths))]
		n, l, _ := t.Resolve(pth)
		k := "container"
		if l != nil {
			k = "list"
		} else if n != nil && pth[len(pth)-1].Key != nil {
			k = "entry"
		}
		starts = append(starts, start{kind: k, path: pth})
	}
	// a leaf start: any set leaf at root or under the first addressable container
	for name, lv := range t.Leaves {
		if !lv.List || true {
			starts = append(starts, start{kind: "leaf", leaf: name})
			break
		}
	}

	// in every other case one writer per configuration writes all the documents of the case, one after the other (what a
	// writer remembers from one document must not show in the next)
	var kept [8]*nodeutil.JSONWtr
	reuse := idx%2 == 0
	for _, st := range starts {
		var sel *node.Selection
		var err error
		if c.Guard("Find", func() {
			sel, err = dp.FindSel(b, st.path)
			if err == nil && sel != nil && st.leaf != "" {
				sel, err = sel.Find(st.leaf)
			}
		}) {
			continue
		}
		if err != nil || sel == nil {
			// keys from the hostile catalog may not survive the path syntax: that is C08's business
			c.Count("start_not_reachable")
			continue
		}
		// expected tree under the start selection
		var expParent *dp.SNode
		exp := t
		var expList *dp.DList
		if len(st.path) > 0 {
			n, l, _ := t.Resolve(st.path)
			if l != nil {
				expList = l
			} else {
				exp = n
				expParent = n.S
			}
		}
		var compactTokens []string
		for cfg := 0; cfg < 8; cfg++ {
			w := nodeutil.JSONWtr{Pretty: cfg&1 != 0, EnumAsIds: cfg&2 != 0, QualifyNamespace: cfg&4 != 0}
			cfgName := fmt.Sprintf("pretty=%v,enumids=%v,qualified=%v", w.Pretty, w.EnumAsIds, w.QualifyNamespace)
			c.Eval()
			var js string
			if c.Guard("JSONWtr.JSON start="+st.kind+" "+cfgName, func() {
				if !reuse {
					js, err = w.JSON(sel)
					return
				}
				if kept[cfg] == nil {
					kept[cfg] = &nodeutil.JSONWtr{Pretty: w.Pretty, EnumAsIds: w.EnumAsIds, QualifyNamespace: w.QualifyNamespace}
				}
				buf := new(bytes.Buffer)
				kept[cfg].Out = buf
				err = sel.InsertInto(kept[cfg].Node())
				js = buf.String()
			}) {
				continue
			}
			if err != nil {
				c.Violate("write-error/"+errClassText(err), "JSONWtr{%s}.JSON(start %s %s): %v\n%s", cfgName, st.kind, st.path, err, wit())
				continue
			}
			c.Shape("%s/%d/%s", st.kind, cfg, head(exp.Shape(), 60))
			jo := dp.JOpts{Qualify: w.QualifyNamespace, EnumAsIds: w.EnumAsIds, TopBelowRoot: len(st.path) > 0 || st.leaf != ""}
			var jd *dp.JDecoded
			var want *dp.DNode
			switch {
			case st.leaf != "":
				jd = dp.DecodeJSON(s, nil, js, jo)
				want = dp.NewDNode(nil)
				want.Leaves[st.leaf] = t.Leaves[st.leaf]
			case expList != nil:
				// {"list":[...]}: decode as an object holding only that list, child of the list's parent
				_, _, parent := t.Resolve(st.path)
				jd = dp.DecodeJSON(s, parent.S, js, jo)
				want = dp.NewDNode(parent.S)
				want.Lists[expList.S.Name] = expList
			default:
				jd = dp.DecodeJSON(s, expParent, js, jo)
				want = exp
			}
			for _, pr := range jd.Problems {
				cls := strings.SplitN(pr, ":", 2)[0]
				if cls == "name/qualification" && jo.TopBelowRoot {
					cls = "name/qualification-start-below-root"
				}
				c.Violate("json/"+cls, "JSONWtr{%s} start=%s %q: %s\njson: %s\n%s", cfgName, st.kind, st.path.String(), pr, head(js, 1200), wit())
			}
			if len(jd.Problems) == 0 {
				if d := dp.Diff(s, want, jd.Tree, dp.CmpOpts{DefaultsMayAppear: true}); d != "" {
					c.Violate("json/"+diffClass(d)+typeClass(s, d), "JSONWtr{%s} start=%s %q decodes to something else than stored:\n%s\njson: %s\n%s", cfgName, st.kind, st.path.String(), d, head(js, 1200), wit())
				}
			}
			toks, terr := dp.TokenStream(js)
			if terr == nil {
				// pretty printing changes whitespace only: same tokens as the compact spelling of the same config
				if cfg&1 == 0 {
					compactTokens = toks
				} else if compactTokens != nil && !reflect.DeepEqual(compactTokens, toks) {
					c.Violate("pretty-differs", "pretty and compact output differ in more than whitespace (%s)\njson: %s", cfgName, head(js, 1200))
				}
			}
			// fault part: fail the stream at several byte positions
			if cfg == 0 || cfg == 5 {
				n := len(js)
				pos := []int{0, 1, n / 2, n - 1}
				if n > 4096 {
					pos = append(pos, 4095, 4096, 4097)
				}
				if n <= 40 {
					pos = nil
					for i := 0; i < n; i++ {
						pos = append(pos, i)
					}
				}
				for _, b := range pos {
					if b < 0 || b >= n {
						continue
					}
					fw := &failWriter{n: b}
					w2 := nodeutil.JSONWtr{Out: fw, Pretty: w.Pretty, EnumAsIds: w.EnumAsIds, QualifyNamespace: w.QualifyNamespace}
					c.Eval()
					var werr error
					if c.Guard("JSONWtr with failing stream", func() { werr = sel.InsertInto(w2.Node()) }) {
						continue
					}
					c.Count("stream_faults_injected")
					if !fw.failed {
						c.Count("stream_fault_not_reached")
						continue
					}
					if werr == nil {
						where := "middle"
						if n <= 4096 {
							where = "within-first-buffer"
						} else if b >= n-(n%4096) {
							where = "last-buffer"
						}
						c.Violate("stream-error-lost/"+where, "output stream failed after %d of %d bytes but InsertInto returned nil (%s, start %s)", b, n, cfgName, st.kind)
					} else if !errors.Is(werr, errSentinel) {
						c.Count("stream_error_not_wrapped")
					}
				}
			}
		}
	}
}
