package props

import (
	"fmt"
	"strings"

	"github.com/freeconf/yang/node"
	"github.com/freeconf/yang/nodeutil"
	"github.com/freeconf/yang/parser"

	"verif/core"
)

// Lists without a key (state data): an entry that is not an object / element with children - text, a number - is a shape mismatch at
// whatever position of the list it stands, and there is no missing key that would have it reported anyway. Documents with up to three
// entries and the odd one at every position, as XML and as JSON, into a map-backed reflection node.
func c13Keyless(c *core.Ctx) {
	yang := `module m { namespace "urn:m"; prefix m; revision 2020-01-01;
  container st { config false; list sample { leaf at { type string; } container d { leaf x { type string; } } } leaf after { type string; } }
  list top { config false; leaf v { type int32; } } }`
	mod, err := parser.LoadModuleFromString(nil, yang)
	if err != nil {
		c.R.Inconclusive = "keyless schema does not load: " + err.Error()
		return
	}
	try := func(kind, fam, doc string, src func() (node.Node, error), wantErr bool) {
		c.Eval()
		c.Shape("keyless/%s/%s/wantErr=%v", fam, kind, wantErr)
		data := map[string]interface{}{}
		b := node.NewBrowser(mod, nodeutil.ReflectChild(data))
		var uerr error
		if c.Guard("keyless "+fam+" "+kind, func() {
			n, e := src()
			if e != nil {
				uerr = e
				return
			}
			uerr = b.Root().UpsertFrom(n)
		}) {
			return
		}
		if wantErr && uerr == nil {
			c.Violate("shape-accepted/"+fam+"-shape/keyless-list/"+kind, "%s content whose shape disagrees with the schema (an entry of a list without a key that is %s) was accepted without an error; stored: %v\ninput: %s\nschema:\n%s", fam, kind, data, doc, yang)
		}
		if !wantErr && uerr != nil {
			c.Violate("valid-rejected/"+fam+"/keyless-list", "a conforming %s document was refused: %v\ninput: %s\nschema:\n%s", fam, uerr, doc, yang)
		}
	}
	for n := 1; n <= 3; n++ {
		for bad := -1; bad < n; bad++ {
			var xs, js, xt, jt []string
			for i := 0; i < n; i++ {
				if i == bad {
					xs = append(xs, "<sample>oops</sample>")
					js = append(js, `"oops"`)
					xt = append(xt, "<top>7</top>")
					jt = append(jt, "7")
				} else {
					xs = append(xs, fmt.Sprintf("<sample><at>a%d</at><d><x>x%d</x></d></sample>", i, i))
					js = append(js, fmt.Sprintf(`{"at":"a%d","d":{"x":"x%d"}}`, i, i))
					xt = append(xt, fmt.Sprintf("<top><v>%d</v></top>", i))
					jt = append(jt, fmt.Sprintf(`{"v":%d}`, i))
				}
			}
			kind := "text-entry"
			if bad < 0 {
				kind = "all-entries-conform"
			} else if bad == 0 {
				kind += "/first"
			} else {
				kind += "/later"
			}
			xdoc := `<m xmlns="urn:m"><st>` + strings.Join(xs, "") + `<after>z</after></st></m>`
			try(kind, "xml", xdoc, func() (node.Node, error) { return nodeutil.ReadXMLDoc(strings.NewReader(xdoc)) }, bad >= 0)
			jdoc := `{"st":{"sample":[` + strings.Join(js, ",") + `],"after":"z"}}`
			try(kind, "json", jdoc, func() (node.Node, error) { return nodeutil.ReadJSON(jdoc) }, bad >= 0)
			xdoc2 := `<m xmlns="urn:m">` + strings.Join(xt, "") + `</m>`
			try(kind+"/top-level", "xml", xdoc2, func() (node.Node, error) { return nodeutil.ReadXMLDoc(strings.NewReader(xdoc2)) }, bad >= 0)
			jdoc2 := `{"top":[` + strings.Join(jt, ",") + `]}`
			try(kind+"/top-level", "json", jdoc2, func() (node.Node, error) { return nodeutil.ReadJSON(jdoc2) }, bad >= 0)
		}
	}
}

var _ = core.Try
