package props

import (
	"errors"
	"fmt"
	"net/url"
	"strings"

	"github.com/freeconf/yang/fc"
	"github.com/freeconf/yang/node"
	"github.com/freeconf/yang/nodeutil"
	"github.com/freeconf/yang/parser"

	"verif/core"
	"verif/dp"
)

// C08 — Find reaches exactly the addressed node; paths render back.

type c08 struct{}

func init() { core.Register(c08{}) }

func (c08) ID() string    { return "C08" }
func (c08) Level() string { return "exploration" }
func (c08) Rule() string {
	return "every addressable node (container, list, entry, leaf) of generated trees (lists in lists, compound keys of all key types, key strings with " +
		"/ , = % + space and non-ASCII) x path spelling {plain, module-qualified segments, trailing slash, ../ from every ancestor start, minimal and " +
		"full percent-encoding} x store {reference store, JSON reader} x query parameters present; plus absent keys, absent containers, unknown names. " +
		"Oracle: model lookup: Path.Meta identity, key values, exported content; render-back of sel.Path; store unchanged. " +
		"A shape = (node kind, depth, key types, spelling, store); trivial = empty path"
}
func (c08) MinEvals(string) int { return 2000 }

func (c08) NumCases(tier string, seed int64) int {
	if tier == "thorough" {
		return 4000
	}
	return 400
}

func fullEscape(s string) string {
	var b strings.Builder
	for i := 0; i < len(s); i++ {
		fmt.Fprintf(&b, "%%%02X", s[i])
	}
	return b.String()
}

// spell renders a model path in one of the spellings.
func spell(s *dp.Schema, p dp.DPath, mode int) string {
	var parts []string
	for _, st := range p {
		name := st.Name
		if mode == 1 {
			name = s.Mod.Ident() + ":" + name
		}
		if st.Key == nil {
			parts = append(parts, name)
			continue
		}
		ks := make([]string, len(st.Key))
		for i, k := range st.Key {
			if mode == 3 {
				ks[i] = fullEscape(k)
			} else {
				ks[i] = url.QueryEscape(k)
			}
		}
		parts = append(parts, name+"="+strings.Join(ks, ","))
	}
	out := strings.Join(parts, "/")
	if mode == 2 {
		out += "/"
	}
	return out
}

var spellNames = []string{"plain", "qualified", "trailing-slash", "full-escape"}

func keyTypes(s *dp.Schema, t *dp.DNode, p dp.DPath) string {
	out := ""
	var cur *dp.SNode
	for _, st := range p {
		if cur == nil {
			cur = s.TopChild(st.Name)
		} else {
			cur = cur.Child(st.Name)
		}
		if st.Key != nil {
			for _, kn := range cur.Keys {
				out += cur.Child(kn).Type.Base[:3] + ","
			}
		}
	}
	return out
}

func schemaAt(s *dp.Schema, p dp.DPath) *dp.SNode {
	var cur *dp.SNode
	for _, st := range p {
		if cur == nil {
			cur = s.TopChild(st.Name)
		} else {
			cur = cur.Child(st.Name)
		}
		if cur == nil {
			return nil
		}
	}
	return cur
}

func hostileKey(p dp.DPath) bool { return !plainKeys(p) }

// terminal nodes of every kind: leaf, leaf-list, anydata, anyxml at the top, in a container and in a list entry, in every spelling
func (pp c08) terminals(c *core.Ctx) {
	m, err := parser.LoadModuleFromString(nil, `module a { namespace "urn:a"; prefix a; revision 2020-01-01;
  container c { anydata blob; anyxml doc; leaf x { type string; } leaf-list ll { type int32; }
    list l { key k; leaf k { type string; } anydata cfg; leaf v { type int8; } } }
  anydata top; leaf tl { type boolean; } }`)
	if err != nil {
		c.Violate("terminals/load", "%v", err)
		return
	}
	n, err := nodeutil.ReadJSON(`{"c":{"blob":{"a":1},"doc":{"b":2},"x":"v","ll":[1,2],"l":[{"k":"k1","cfg":{"z":1},"v":5}]},"top":{"q":1},"tl":true}`)
	if err != nil {
		c.Violate("terminals/read", "%v", err)
		return
	}
	b := node.NewBrowser(m, n)
	for _, t := range []struct{ path, ident, want string }{
		{"c/blob", "blob", "map[a:1]"}, {"c/doc", "doc", "map[b:2]"}, {"c/x", "x", "v"}, {"c/ll", "ll", "[1 2]"}, {"c/l=k1/cfg", "cfg", "map[z:1]"},
		{"c/l=k1/v", "v", "5"}, {"top", "top", "map[q:1]"}, {"tl", "tl", "true"},
	} {
		segs := strings.Split(t.path, "/")
		q := make([]string, len(segs))
		for i, sg := range segs {
			q[i] = "a:" + sg
		}
		for _, sp := range []string{t.path, t.path + "/", strings.Join(q, "/")} {
			c.Eval()
			c.Shape("terminal/%s/%s", t.ident, strings.NewReplacer(t.path, "P", strings.Join(q, "/"), "Q").Replace(sp))
			var sel *node.Selection
			var ferr error
			if c.Guard("Find "+sp, func() { sel, ferr = b.Root().Find(sp) }) {
				continue
			}
			if ferr != nil || sel == nil {
				c.Violate("terminals/not-found/"+t.ident, "Find(%q) = %v, %v although the node exists", sp, sel, ferr)
				continue
			}
			if sel.Path.Meta.Ident() != t.ident {
				c.Violate("terminals/wrong-meta/"+t.ident, "Find(%q) landed on %s (%s), want the %s node", sp, sel.Path.Meta.Ident(), sel.Path.String(), t.ident)
				continue
			}
			v, gerr := sel.Get()
			if gerr != nil || v == nil || fmt.Sprint(v.Value()) != t.want {
				c.Violate("terminals/wrong-content/"+t.ident, "Find(%q).Get() = %v, %v, want %s", sp, v, gerr, t.want)
			}
		}
	}
}

func (pp c08) Run(c *core.Ctx, idx int) {
	if idx == 0 {
		pp.terminals(c)
	}
	r := c.Rand
	o := dp.DefaultGen()
	o.MaxDepth = 2 + r.Intn(4)
	o.Choices = idx%3 == 0
	o.NestedChoice = idx%6 == 0
	o.NonConfig = idx%2 == 0
	if idx%5 == 3 {
		// nodes contributed by an augmenting module, incl. cases and case members added to choices of the main module
		o.Aug = true
		o.Choices = true
	}
	if idx%2 == 1 {
		// module name and prefix differ: a path segment is qualified with the module NAME
		o.Prefix = "pm"
	}
	if idx%4 == 2 {
		// a module name that is not a URL scheme
		o.ModName = "m_x.1"
	}
	o.Sub = idx%5 == 1 // some top-level nodes written in a submodule: "m:name" qualifies them like the module's own
	o.KeyTypes = []string{"string", "int32", "int64", "uint8", "uint32", "enumeration", "boolean", "int8", "uint16", "uint64", "int16", "identityref", "decimal64"}
	o.HostileEnumNames = true
	// the data of every 8th case (and of four fixed ones) lives in Go maps, slices and structs behind nodeutil.Reflect / nodeutil.Node
	goFixture := idx >= 3 && idx <= 6
	useGo := idx%8 == 7 || goFixture
	var gm dp.GoMode
	if useGo {
		gm = dp.GoModes[(idx/8)%len(dp.GoModes)]
		if goFixture {
			gm = dp.GoModes[idx-3]
		}
		dp.GoGen(&o, gm)
		o.Aug = false
		o.Choices = o.Choices && gm.Shape == "map"
		o.NestedChoice = o.NestedChoice && o.Choices
	}
	s := dp.GenSchema(r, o)
	fixture := idx == 1 || idx == 2
	if goFixture {
		// integer keys further apart than 2^63 (and the usual neighbours), strings that sort differently as text and as numbers
		lf := func(n, t string) *dp.SNode { return &dp.SNode{Kind: dp.Leaf, Name: n, Type: &dp.SType{Base: t}} }
		s = &dp.Schema{Name: "m", Prefix: "m", NS: "urn:m", Top: []*dp.SNode{
			{Kind: dp.List, Name: "li", Keys: []string{"k"}, Children: []*dp.SNode{lf("k", "int64"), lf("v", "string")}},
			{Kind: dp.List, Name: "ls", Keys: []string{"k"}, Children: []*dp.SNode{lf("k", "string"), lf("v", "string")}},
			{Kind: dp.List, Name: "l32", Keys: []string{"k"}, Children: []*dp.SNode{lf("k", "int32"), lf("v", "string")}},
			{Kind: dp.List, Name: "lj", Keys: []string{"k"}, Children: []*dp.SNode{lf("k", "int64"), lf("v", "string")}},
			{Kind: dp.List, Name: "lk", Keys: []string{"k"}, Children: []*dp.SNode{lf("k", "int64"), lf("v", "string")}},
		}}
		if gm.Shape == "struct" {
			// composite keys whose parts hold the separator of the path syntax
			s.Top = append(s.Top, &dp.SNode{Kind: dp.List, Name: "lc", Keys: []string{"a", "b"}, Children: []*dp.SNode{lf("a", "string"), lf("b", "string"), lf("v", "string")}})
		}
	}
	if fixture {
		// every reserved character as (part of) a key, single and composite, on every run
		str := func(n string) *dp.SNode { return &dp.SNode{Kind: dp.Leaf, Name: n, Type: &dp.SType{Base: "string"}} }
		s = &dp.Schema{Name: "m", Prefix: "m", NS: "urn:m", Top: []*dp.SNode{
			{Kind: dp.List, Name: "l", Keys: []string{"k"}, Children: []*dp.SNode{str("k"), str("v"), {Kind: dp.Container, Name: "sub", Children: []*dp.SNode{str("w")}}}},
			{Kind: dp.List, Name: "l2", Keys: []string{"a", "b"}, Children: []*dp.SNode{str("a"), str("b"), str("v")}},
		}}
	}
	if err := s.Compile(); err != nil {
		c.R.Inconclusive = "generated schema does not compile: " + head(err.Error(), 300)
		return
	}
	do := dp.DefaultData()
	do.Hostile = idx%2 == 1
	do.MaxEntries = 1 + r.Intn(4)
	do.PKid = 0.85
	t := dp.GenTree(r, s, do)
	if fixture {
		t = dp.NewDNode(nil)
		l1, l2 := &dp.DList{S: s.Top[0]}, &dp.DList{S: s.Top[1]}
		t.Lists["l"], t.Lists["l2"] = l1, l2
		keys := dp.HostileStrings()
		for i, k := range keys {
			if k == "" {
				continue
			}
			e := dp.NewDNode(s.Top[0])
			e.Leaves["k"] = &dp.LVal{V: []string{k}}
			e.Leaves["v"] = &dp.LVal{V: []string{fmt.Sprintf("v%d", i)}}
			sub := dp.NewDNode(s.Top[0].Children[2])
			sub.Leaves["w"] = &dp.LVal{V: []string{fmt.Sprintf("w%d", i)}}
			e.Kids["sub"] = sub
			l1.Entries = append(l1.Entries, e)
			e2 := dp.NewDNode(s.Top[1])
			e2.Leaves["a"] = &dp.LVal{V: []string{k}}
			e2.Leaves["b"] = &dp.LVal{V: []string{keys[(i*7+3)%len(keys)] + "x"}}
			e2.Leaves["v"] = &dp.LVal{V: []string{fmt.Sprintf("c%d", i)}}
			l2.Entries = append(l2.Entries, e2)
		}
	}
	if goFixture {
		t = dp.NewDNode(nil)
		for li, keys := range [][]string{
			{"-9223372036854775808", "-1", "0", "7", "9223372036854775807", "-9223372036854775807", "4611686018427387904"},
			{"10", "9", "a", "B", "b", "-1", "01"},
			{"-2147483648", "2147483647", "0", "-1", "65536"},
			{"-9223372036854775808", "-1", "0", "7", "9223372036854775807"},
			{"-9223372036854775808", "-4611686018427387905", "-3", "2", "4611686018427387904", "9223372036854775806", "100", "-100"},
		} {
			if li >= len(s.Top) {
				break
			}
			l := &dp.DList{S: s.Top[li]}
			t.Lists[s.Top[li].Name] = l
			if li != 3 {
				r.Shuffle(len(keys), func(i, j int) { keys[i], keys[j] = keys[j], keys[i] })
			}
			if li == 4 {
				keys = keys[:5]
			}
			for i, k := range keys {
				e := dp.NewDNode(s.Top[li])
				e.Leaves["k"] = &dp.LVal{V: []string{k}}
				e.Leaves["v"] = &dp.LVal{V: []string{fmt.Sprintf("v%d", i)}}
				l.Entries = append(l.Entries, e)
			}
		}
	}
	if useGo {
		dp.DropEmptyLists(t)
	}
	if s.SubName != "" {
		c.Count("schemas_with_submodule")
	}
	if goFixture && len(s.Top) > 5 {
		l := &dp.DList{S: s.Top[5]}
		t.Lists["lc"] = l
		for i, k := range [][2]string{{"a,b", "c"}, {"a", "b,c"}, {"a", "b"}, {",", ","}, {"x,", "y"}, {"x", ",y"}} {
			e := dp.NewDNode(s.Top[5])
			e.Leaves["a"] = &dp.LVal{V: []string{k[0]}}
			e.Leaves["b"] = &dp.LVal{V: []string{k[1]}}
			e.Leaves["v"] = &dp.LVal{V: []string{fmt.Sprintf("c%d", i)}}
			l.Entries = append(l.Entries, e)
		}
	}
	pristine := t.Clone()
	store := dp.NewStore(s, t)
	useJSON := idx%4 == 2 && !useGo
	storeName := "refstore"
	mkBrowser := func() *node.Browser { return store.Browser() }
	var gostore *dp.GoStore
	if useGo {
		if why := dp.GoSupports(s, gm); why != "" {
			c.Count("go_store_schema_outside_domain")
			return
		}
		gostore = dp.NewGoStore(r, s, gm, t)
		storeName = gm.String()
		mkBrowser = func() *node.Browser { return gostore.Browser() }
	}
	if useJSON {
		storeName = "json"
		doc := dp.EncodeJSON(s, t, dp.JOpts{Int64AsString: true})
		mkBrowser = func() *node.Browser {
			n, err := nodeutil.ReadJSON(doc)
			if err != nil {
				panic("harness: ReadJSON of reference encoding: " + err.Error())
			}
			return node.NewBrowser(s.Mod, n)
		}
	}
	useXML := idx%8 == 5 && !useGo && !useJSON
	if useXML {
		// an XML document as the data: key elements of numbers are also spelled the ways XML Schema allows besides the
		// canonical one (+15, 007, 1.50): the entry is still the one with key 15, 7, 1.5
		storeName = "xml"
		spelled := t.Clone()
		var respell func(d *dp.DNode)
		respell = func(d *dp.DNode) {
			for _, l := range d.Lists {
				for _, e := range l.Entries {
					for _, kn := range l.S.Keys {
						ks, v := l.S.Child(kn), e.Leaves[kn].V[0]
						if ks.Type.Wrap != "" || r.Intn(2) == 0 {
							continue
						}
						switch ks.Type.Base {
						case "int8", "int16", "int32", "int64", "uint8", "uint16", "uint32", "uint64":
							// (no plus sign on unsigned types: the library refuses it there, which C10 allows it to)
							if strings.HasPrefix(v, "-") {
								v = "-0" + v[1:]
							} else if r.Intn(2) == 0 && !strings.HasPrefix(ks.Type.Base, "u") {
								v = "+" + v
							} else {
								v = "00" + v
							}
						case "decimal64":
							if strings.Contains(v, ".") {
								v += "0"
							} else {
								v += ".0"
							}
						}
						e.Leaves[kn] = &dp.LVal{V: []string{v}}
					}
					respell(e)
				}
			}
			for _, k := range d.Kids {
				respell(k)
			}
		}
		respell(spelled)
		doc := dp.EncodeXML(s, "data", spelled, nil)
		mkBrowser = func() *node.Browser {
			n, err := nodeutil.ReadXMLDoc(strings.NewReader(doc))
			if err != nil {
				panic("harness: ReadXMLDoc of reference encoding: " + err.Error())
			}
			return node.NewBrowser(s.Mod, n)
		}
	}
	wit := func() string { return "schema:\n" + s.Yang() + s.SubYang() + "tree:\n" + t.Dump(s) }
	c.SetSample(map[string]interface{}{"yang": head(s.Yang(), 1200), "tree": head(t.Dump(s), 1200)})

	paths := t.AllPaths()
	if len(paths) > 40 && !fixture {
		r.Shuffle(len(paths), func(i, j int) { paths[i], paths[j] = paths[j], paths[i] })
		paths = paths[:40]
	}
	b := mkBrowser()
	check := func(what string, p dp.DPath, sel *node.Selection, err error, sigTail string) bool {
		// sel must be exactly the node at p
		mn, ml, mparent := t.Resolve(p)
		sn := schemaAt(s, p)
		if err != nil || sel == nil {
			c.Violate("not-found/"+sigTail, "%s = %v, %v although the node exists\n%s", what, sel, err, wit())
			return false
		}
		if sel.Path.Meta != sn.Meta {
			c.Violate("wrong-meta/"+sigTail, "%s landed on schema node %s, want %s\n%s", what, sel.Path.Meta.Ident(), sn.Name, wit())
			return false
		}
		if bad := pathChain(s, sel.Path, p); bad != "" {
			c.Violate("wrong-path-chain/"+sigTail, "%s: structured path of the selection does not identify the node: %s\n%s", what, bad, wit())
			return false
		}
		last := p[len(p)-1]
		if last.Key != nil {
			got := sel.Key()
			if len(got) != len(last.Key) {
				c.Violate("wrong-key/"+sigTail, "%s: selection key %v, want %q\n%s", what, got, last.Key, wit())
				return false
			}
			for i, kv := range got {
				ks := sn.Child(sn.Keys[i])
				lv, bad := dp.FromVal(ks.Type, false, kv)
				if bad != "" || lv == nil || lv.V[0] != last.Key[i] {
					c.Violate("wrong-key/"+sigTail, "%s: selection key %v, want %q\n%s", what, got, last.Key, wit())
					return false
				}
			}
		} else if len(sel.Key()) != 0 && ml == nil {
			c.Violate("wrong-key/"+sigTail, "%s: container selection carries key %v\n%s", what, sel.Key(), wit())
		}
		// content
		capt := dp.NewCapture(s)
		var xerr error
		if c.Guard("export of found selection", func() { xerr = sel.UpsertInto(captNodeFor(capt, sn, ml != nil)) }) {
			return false
		}
		if xerr != nil {
			c.Violate("content-error/"+sigTail, "%s: exporting the selection failed: %v\n%s", what, xerr, wit())
			return false
		}
		var want, got *dp.DNode
		if ml != nil {
			want = dp.NewDNode(nil)
			want.Lists[ml.S.Name] = ml
			got = capt.Root
			_ = mparent
		} else {
			want, got = mn, capt.Root
			got.S = mn.S
		}
		if useGo && gm.Shape == "struct" {
			// a struct field cannot tell its zero value from 'unset'
			want, got = dp.ZeroNormalize(want), dp.ZeroNormalize(got)
		}
		if d := diffAt(s, want, got, ml != nil, useGo); d != "" {
			c.Violate("wrong-content/"+sigTail, "%s: content of the selection differs from the addressed node:\n%s\n%s", what, d, wit())
			return false
		}
		return true
	}

	for _, p := range paths {
		mn, ml, _ := t.Resolve(p)
		kind := "container"
		if ml != nil {
			kind = "list"
		} else if p[len(p)-1].Key != nil {
			kind = "entry"
		}
		hostile := hostileKey(p)
		htag := "plain-keys"
		if hostile {
			htag = "hostile-keys"
		}
		for mode := 0; mode < 4; mode++ {
			if mode == 1 && (r.Intn(2) == 0 || s.AugName != "") {
				// which module name qualifies a node that arrives through a grouping of another module is C15's business
				continue
			}
			path := spell(s, p, mode)
			c.Eval()
			c.Shape("%s/d%d/%s/%s/%s", kind, len(p), keyTypes(s, t, p), spellNames[mode], storeName)
			var sel *node.Selection
			var err error
			if c.Guard("Find "+path, func() { sel, err = b.Root().Find(path) }) {
				continue
			}
			sig := fmt.Sprintf("%s/%s/%s/%s", kind, spellNames[mode], htag, storeName)
			if !check(fmt.Sprintf("Find(%q)", path), p, sel, err, sig) {
				continue
			}
			// render back
			if mode == 0 {
				c.Eval()
				rendered := sel.Path.StringNoModule()
				var sel2 *node.Selection
				if !c.Guard("Find rendered "+rendered, func() { sel2, err = b.Root().Find(rendered) }) {
					ok := err == nil && sel2 != nil && sel2.Path.Meta == sel.Path.Meta && sameKeys(sel, sel2)
					if !ok {
						c.Violate("render-back/"+kind+"/"+htag+"/"+storeName, "sel.Path renders as %q which does not lead back to the node (%v, %v); original path %q\n%s", rendered, sel2, err, path, wit())
					}
					if hostile {
						c.Count("render_back_hostile_keys")
					}
				}
			}
			// query parameters must not affect traversal
			if mode == 0 && r.Intn(2) == 0 {
				q := []string{"depth=1", "content=config", "content=nonconfig", "fields=zzz", "fc.xfields=" + p[0].Name, "with-defaults=trim", "fc.max-node-count=1"}[r.Intn(7)]
				c.Eval()
				var selq *node.Selection
				if !c.Guard("Find "+path+"?"+q, func() { selq, err = b.Root().Find(path + "?" + q) }) {
					if err != nil || selq == nil || selq.Path.Meta != sel.Path.Meta || !sameKeys(sel, selq) {
						c.Violate("filter-applied-to-traversal/"+strings.SplitN(q, "=", 2)[0]+"/"+storeName, "Find(%q) = %v, %v although Find without the query reaches the node\n%s", path+"?"+q, selq, err, wit())
					}
				}
			}
			// ../ from descendants: start at this node, go up to each ancestor and down again
			if mode == 0 && len(p) >= 1 && kind != "list" && r.Intn(2) == 0 {
				k := 1 + r.Intn(len(p))
				ups := 0
				// each list entry step costs two selections (list + entry) in the selection chain
				for _, st := range p[len(p)-k:] {
					ups++
					if st.Key != nil {
						ups++
					}
				}
				rest := spell(s, p[len(p)-k:], 0)
				rel := strings.Repeat("../", ups) + rest
				c.Eval()
				var selr *node.Selection
				if !c.Guard("Find "+rel, func() { selr, err = sel.Find(rel) }) {
					if err != nil || selr == nil || selr.Path.Meta != sel.Path.Meta || !sameKeys(sel, selr) {
						c.Violate("dotdot/"+kind+"/"+storeName, "from %q, Find(%q) = %v, %v; expected to come back to the same node\n%s", path, rel, selr, err, wit())
					}
				}
			}
		}
		// leaves below this node
		if mn != nil {
			for name, lv := range mn.Leaves {
				lp := spell(s, p, 0) + "/" + name
				c.Eval()
				var sel *node.Selection
				var err error
				if c.Guard("Find "+lp, func() { sel, err = b.Root().Find(lp) }) {
					continue
				}
				if err != nil || sel == nil || sel.Path.Meta != mn.S.Child(name).Meta {
					c.Violate("leaf/not-found/"+htag+"/"+storeName, "Find(%q) = %v, %v\n%s", lp, sel, err, wit())
					continue
				}
				// the same leaf selected from the node that holds it: the same place, so the same path
				if len(p) > 0 {
					c.Eval()
					var viaParent *node.Selection
					if !c.Guard("Find leaf from its parent", func() {
						if ps, e := b.Root().Find(spell(s, p, 0)); e == nil && ps != nil {
							viaParent, _ = ps.Find(name)
						}
					}) && viaParent != nil && viaParent.Path.String() != sel.Path.String() {
						c.Violate("leaf/path-from-start/"+storeName, "the leaf found as %q from the root has path %q, found as %q from its parent it has path %q\n%s", lp, sel.Path.String(), name, viaParent.Path.String(), wit())
					}
				}
				var v interface{ String() string }
				if !c.Guard("Get", func() {
					x, e := sel.Get()
					err = e
					if x != nil {
						got, bad := dp.FromVal(mn.S.Child(name).Type, lv.List, x)
						if bad != "" || !got.Equal(lv) {
							c.Violate("leaf/wrong-value/"+storeName, "Find(%q).Get() = %v, stored %s\n%s", lp, x, lv, wit())
						}
						v = x
					}
				}) && (err != nil || v == nil) {
					if err == nil && useGo && gm.Shape == "struct" && !lv.List && lv.V[0] == "" {
						// a string field holding "" is what such a store has for 'unset' (see ZeroNormalize)
						c.Count("struct_store_empty_string_reads_as_unset")
						continue
					}
					c.Violate("leaf/get-error/"+storeName, "Find(%q).Get() = %v, %v\n%s", lp, v, err, wit())
				}
				break
			}
		}
		// absent key in the same list / unknown name
		if kind == "entry" && !hostile {
			ap := append(dp.DPath{}, p...)
			sn := schemaAt(s, p)
			ak := make([]string, len(ap[len(ap)-1].Key))
			copy(ak, ap[len(ap)-1].Key)
			absent := dp.AbsentKeyComponent(r, sn.Child(sn.Keys[0]).Type)
			ak[0] = absent
			ap[len(ap)-1] = dp.Step{Name: ap[len(ap)-1].Name, Key: ak}
			if n, _, _ := t.Resolve(ap); n == nil && absent != "" {
				c.Eval()
				var sel *node.Selection
				var err error
				path := spell(s, ap, 0)
				if !c.Guard("Find absent "+path, func() { sel, err = b.Root().Find(path) }) {
					if sel != nil {
						c.Violate("absent-key-selected/"+storeName, "Find(%q) selects something although no entry has that key\n%s", path, wit())
					}
					if err != nil {
						c.Violate("absent-key-error/"+storeName, "Find(%q) returned %v; an absent key is 'no selection', not an error\n%s", path, err, wit())
					}
				}
			}
		}
		if r.Intn(4) == 0 && s.AugName == "" {
			// the right identifier qualified with a module that does not exist names nothing
			wp := spell(s, p[:len(p)-1], 0)
			if wp != "" {
				wp += "/"
			}
			lastSeg := spell(s, p[len(p)-1:], 0)
			path := wp + "zz-no-such-module:" + lastSeg
			c.Eval()
			var sel *node.Selection
			var err error
			if !c.Guard("Find wrong module "+path, func() { sel, err = b.Root().Find(path) }) {
				if sel != nil || err == nil || !errors.Is(err, fc.NotFoundError) {
					lvl := "nested"
					if len(p) == 1 {
						lvl = "top"
					}
					c.Violate("unknown-module/"+lvl+"/"+storeName, "Find(%q) = %v, %v; want a not-found error (no module zz-no-such-module)\n%s", path, sel, err, wit())
				}
			}
		}
		if r.Intn(3) == 0 && s.AugName == "" {
			// module-qualified first segment together with request parameters
			path := spell(s, p, 1) + "?depth=3"
			c.Eval()
			var sel *node.Selection
			var err error
			if !c.Guard("Find "+path, func() { sel, err = b.Root().Find(path) }) {
				if err != nil || sel == nil || sel.Path.Meta != schemaAt(s, p).Meta {
					c.Violate("qualified-with-parameters/"+storeName, "Find(%q) = %v, %v; without the parameters the node is found\n%s", path, sel, err, wit())
				}
			}
		}
		if r.Intn(4) == 0 {
			// odd spellings of the path of a node that is there: an empty segment in front or in the middle, more key values than the
			// list has keys. Whether they are errors or tolerated is not stated; what they never are is the path of ANOTHER node
			good := spell(s, p, 0)
			bads := []string{"/" + good}
			if i := strings.Index(good, "/"); i > 0 {
				bads = append(bads, good[:i]+"/"+good[i:])
			}
			if kind == "entry" {
				bads = append(bads, good+",surplus")
			}
			if i := strings.LastIndex(good, "/"); i > 0 {
				// a slash written %2F is part of a name, not a step: the path names no node at all
				bads = append(bads, good[:i]+"%2F"+good[i+1:])
			}
			for _, bad := range bads {
				c.Eval()
				var sel *node.Selection
				var err error
				if !c.Guard("Find malformed "+bad, func() { sel, err = b.Root().Find(bad) }) {
					_ = err
					surplus := strings.HasSuffix(bad, ",surplus")
					encoded := strings.Contains(bad, "%2F") && !strings.Contains(good, "%2F")
					if sel != nil && (surplus || encoded || sel.Path.Meta != schemaAt(s, p).Meta || pathChain(s, sel.Path, p) != "") {
						cls := "empty-segment"
						if surplus {
							cls = "surplus-key-value"
						}
						if encoded {
							cls = "encoded-slash"
						}
						c.Violate("malformed-path-selects/"+cls+"/"+storeName, "Find(%q) selects %s, which is not what the path spells (an error, no selection, or the node %q itself would do)\n%s", bad, sel.Path.String(), good, wit())
					}
				}
			}
		}
		if r.Intn(4) == 0 {
			path := spell(s, p, 0) + "/no-such-node-zz"
			if kind == "list" {
				path = spell(s, p[:len(p)-1], 0)
				if path != "" {
					path += "/"
				}
				path += "no-such-node-zz"
			}
			c.Eval()
			var sel *node.Selection
			var err error
			if !c.Guard("Find unknown "+path, func() { sel, err = b.Root().Find(path) }) {
				if sel != nil || err == nil || !errors.Is(err, fc.NotFoundError) {
					c.Violate("unknown-name/"+storeName, "Find(%q) = %v, %v; want a not-found error\n%s", path, sel, err, wit())
				}
			}
		}
	}
	// absent containers
	s.Walk(func(n *dp.SNode) {
		if n.Kind != dp.Container || n.DataParent() != nil {
			return
		}
		if t.Kids[n.Name] == nil {
			c.Eval()
			var sel *node.Selection
			var err error
			if !c.Guard("Find absent container", func() { sel, err = b.Root().Find(n.Name) }) && (sel != nil || err != nil) {
				c.Violate("absent-container/"+storeName, "Find(%q) = %v, %v; the container is not present\n%s", n.Name, sel, err, wit())
			}
		}
	})
	if gostore != nil {
		if snap, err := gostore.Snapshot(); err != nil {
			c.Violate("navigation-modified-data/"+storeName, "the Go values no longer denote a tree of the schema: %v\n%s", err, wit())
		} else if d := dp.Diff(s, pristine, snap, dp.CmpOpts{IgnoreListOrder: true, EmptyListIsAbsent: true}); d != "" && gm.Shape == "map" {
			c.Violate("navigation-modified-data/"+storeName, "the store changed while navigating:\n%s\n%s", d, wit())
		}
	} else if !useJSON && !useXML {
		if d := dp.Diff(s, pristine, store.Root, dp.CmpOpts{}); d != "" {
			c.Violate("navigation-modified-data", "the store changed while navigating:\n%s\n%s", d, wit())
		}
	}
}

func sameKeys(a, b *node.Selection) bool {
	ka, kb := a.Key(), b.Key()
	if len(ka) != len(kb) {
		return false
	}
	for i := range ka {
		if (ka[i] == nil) != (kb[i] == nil) {
			return false
		}
		if ka[i] != nil && (ka[i].Format() != kb[i].Format() || ka[i].String() != kb[i].String()) {
			return false
		}
	}
	return true
}

// captNodeFor returns the capture node matching the kind of the selection being exported.
func captNodeFor(capt *dp.Capture, sn *dp.SNode, isList bool) node.Node {
	if isList {
		capt.Root.Lists[sn.Name] = &dp.DList{S: sn}
		return capt.ListAt(capt.Root, sn.Name)
	}
	capt.Root.S = sn
	return capt.Node()
}

func diffAt(s *dp.Schema, want, got *dp.DNode, isList, anyOrder bool) string {
	// Go maps and sorted slices give their entries in key order, the model keeps the order of insertion
	o := dp.CmpOpts{DefaultsMayAppear: true, IgnoreListOrder: anyOrder, EmptyListIsAbsent: anyOrder}
	if isList {
		// compare only the list
		for name, wl := range want.Lists {
			gl := got.Lists[name]
			w := dp.NewDNode(nil)
			g := dp.NewDNode(nil)
			w.S, g.S = wl.S.DataParent(), wl.S.DataParent()
			w.Lists[name] = wl
			if gl != nil {
				g.Lists[name] = gl
			}
			return dp.Diff(s, w, g, o)
		}
		return ""
	}
	return dp.Diff(s, want, got, o)
}

// pathChain compares the structured path (Meta and Key of every segment) with the model path.
func pathChain(s *dp.Schema, path *node.Path, p dp.DPath) string {
	segs := path.Segments()
	// segs[0] is the module
	if len(segs) != len(p)+1 {
		return fmt.Sprintf("path has %d segments below the module, want %d", len(segs)-1, len(p))
	}
	var cur *dp.SNode
	for i, st := range p {
		if cur == nil {
			cur = s.TopChild(st.Name)
		} else {
			cur = cur.Child(st.Name)
		}
		seg := segs[i+1]
		if seg.Meta != cur.Meta {
			return fmt.Sprintf("segment %d is %s, want %s", i, seg.Meta.Ident(), st.Name)
		}
		if len(seg.Key) != len(st.Key) {
			return fmt.Sprintf("segment %d (%s) has %d key values, want %d", i, st.Name, len(seg.Key), len(st.Key))
		}
		for j, kv := range seg.Key {
			lv, bad := dp.FromVal(cur.Child(cur.Keys[j]).Type, false, kv)
			if bad != "" || lv == nil || lv.V[0] != st.Key[j] {
				return fmt.Sprintf("segment %d (%s) key %d is %v, want %q", i, st.Name, j, kv, st.Key[j])
			}
		}
	}
	return ""
}
