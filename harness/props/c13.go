package props

import (
	"encoding/json"
	"encoding/xml"
	"fmt"
	"net/url"
	"strings"

	"github.com/freeconf/yang/meta"
	"github.com/freeconf/yang/node"
	"github.com/freeconf/yang/nodeutil"
	"github.com/freeconf/yang/parser"

	"verif/core"
	"verif/dp"
)

// C13 — no request content can crash the library once the schema is valid.

type c13 struct{}

func init() { core.Register(c13{}) }

func (c13) ID() string    { return "C13" }
func (c13) Level() string { return "exploration" }
func (c13) Rule() string {
	return "valid schema (fixed rich schema + generated) with stored data; hostile request content: JSON shape mismatches at every position of a valid " +
		"document x 10 JSON kinds, missing/duplicate/wrong-kind keys, every truncation and single-character mutation of valid documents, paths and " +
		"queries, a path/query/XPath grammar-fuzz catalog, XML shape mismatches (text for element, element in leaf, attributes, foreign namespace, " +
		"mixed content, truncations), SetValue with every Go kind. Monitors: recovered panic, worker death, cpu/rss watchdog per input; read-only " +
		"requests must leave the store unchanged and the store must stay exportable. A shape = (input family, mutation kind, outcome); trivial = repeat"
}
func (c13) MinEvals(string) int      { return 5000 }
func (c13) Batch(string) int         { return 4 }
func (c13) CPUBudgetMs(string) int64 { return 20000 }

func (c13) NumCases(tier string, seed int64) int {
	if tier == "thorough" {
		return 1200
	}
	return 160
}

var jsonKinds = []interface{}{nil, true, 5.0, "s", []interface{}{}, map[string]interface{}{}, []interface{}{1.0, "a"}, []interface{}{[]interface{}{1.0}}, []interface{}{map[string]interface{}{}}, map[string]interface{}{"zz": 1.0}}
var jsonKindNames = []string{"null", "bool", "number", "string", "empty-array", "empty-object", "array-of-scalars", "array-of-arrays", "array-of-objects", "object"}

type c13env struct {
	c        *core.Ctx
	s        *dp.Schema
	t        *dp.DNode
	pristine *dp.DNode
	store    c18store
	gm       *dp.GoMode // nil: the reference store
}

func (e *c13env) browser() *node.Browser { return e.store.Browser() }

func (e *c13env) reset() {
	if e.gm != nil {
		e.store = &c18go{dp.NewGoStore(e.c.Rand, e.s, *e.gm, e.pristine.Clone())}
		return
	}
	e.store = &c18ref{dp.NewStore(e.s, e.pristine.Clone())}
}

// stored returns the store content read without the library, and the comparison options that go with the store
func (e *c13env) stored() (*dp.DNode, *dp.DNode, dp.CmpOpts, error) {
	snap, err := e.store.Snap()
	if e.gm == nil {
		return e.pristine, snap, dp.CmpOpts{}, err
	}
	want := e.pristine
	if e.gm.Shape == "struct" {
		want = dp.ZeroNormalize(want)
	}
	return want, snap, dp.CmpOpts{IgnoreListOrder: true, EmptyListIsAbsent: true}, err
}

// try runs one hostile input; fam names the input family for signatures.
func (e *c13env) try(fam, kind, input string, readOnly bool, f func() error) {
	c := e.c
	c.Eval()
	c.Progress()
	var err error
	pv, st := core.Try(func() { err = f() })
	outcome := "ok"
	switch {
	case pv != nil:
		outcome = "panic"
		c.Count("panics")
		c.Violate(core.CrashSig(pv, st)+"/"+fam, "%s input (%s) panicked: %v\ninput: %s\n%s\nschema:\n%s", fam, kind, pv, quoteHead(input, 1500), core.TrimStack(st), e.s.Yang())
	case err != nil:
		outcome = "error"
	}
	c.Count("outcome_" + outcome)
	c.Shape("%s/%s/%s", fam, kind, outcome)
	if readOnly {
		want, snap, cmp, serr := e.stored()
		if serr != nil {
			c.Violate("store-corrupt/"+fam, "%s input (%s) left Go values that no longer denote a tree of the schema: %v\ninput: %s", fam, kind, serr, quoteHead(input, 800))
			e.reset()
		} else if d := dp.Diff(e.s, want, snap, cmp); d != "" {
			c.Violate("read-modified-store/"+fam, "%s input (%s) changed stored data:\n%s\ninput: %s", fam, kind, d, quoteHead(input, 800))
			e.reset()
		}
		return
	}
	// after an edit request (accepted or rejected) the store must still be readable
	var xerr error
	pv, st = core.Try(func() { xerr = e.browser().Root().UpsertInto(dp.NewCapture(e.s).Node()) })
	if pv != nil {
		c.Violate("store-unreadable/"+core.CrashSig(pv, st)+"/"+fam, "after the %s request (%s) reading the store panicked: %v\ninput: %s\n%s", fam, kind, pv, quoteHead(input, 800), core.TrimStack(st))
	} else if xerr != nil {
		cls := "error"
		if strings.Contains(xerr.Error(), "is missing its key") && err != nil {
			// the rejected request failed inside a list entry it had just created, before that entry's key leaf was written
			cls = "keyless-entry-left-behind"
		}
		sig := "store-unreadable/" + cls + "/" + fam
		if cls == "keyless-entry-left-behind" {
			// one defect whatever kind of document the rejected request was (JSON, XML, a shape mismatch, an edit through a selection)
			sig = "store-unreadable/" + cls
		}
		c.Violate(sig, "after the %s request (%s, result: %v) reading the store fails: %v\ninput: %s\nstore: %s", fam, kind, err, xerr, quoteHead(input, 800), e.store.Describe())
	}
	e.reset()
}

// tryShape is try for content whose shape disagrees with the schema in one of the ways the property names: it has to be an error.
func (e *c13env) tryShape(fam, kind, input string, f func() error) {
	var err error
	e.try(fam, kind, input, false, func() error { err = f(); return err })
	if err == nil {
		e.c.Violate("shape-accepted/"+fam+"/"+kind, "%s content (%s) whose shape disagrees with the schema was accepted without an error\ninput: %s\nschema:\n%s", fam, kind, quoteHead(input, 1200), head(e.s.Yang(), 2500))
	}
}

func (p c13) Run(c *core.Ctx, idx int) {
	r := c.Rand
	var s *dp.Schema
	var gm *dp.GoMode
	if idx%2 == 0 {
		s = c12Schema()
		// widen with every leaf type
		for i, tn := range dp.AllTypes {
			t := &dp.SType{Base: tn}
			switch tn {
			case "decimal64":
				t.FD = 2
			case "enumeration":
				t.Enums = []string{"zero", "one"}
			case "bits":
				t.Bits = []string{"b0", "b1"}
			case "identityref":
				t.Idents = []string{"id-a", "id-b"}
			}
			s.Top = append(s.Top, &dp.SNode{Kind: dp.Leaf, Name: fmt.Sprintf("t%d", i), Type: t})
		}
		s.Top = append(s.Top, &dp.SNode{Kind: dp.List, Name: "ck", Keys: []string{"k1", "k2"}, Children: []*dp.SNode{
			{Kind: dp.Leaf, Name: "k1", Type: &dp.SType{Base: "int32"}}, {Kind: dp.Leaf, Name: "k2", Type: &dp.SType{Base: "string"}}, {Kind: dp.LeafList, Name: "ll", Type: &dp.SType{Base: "uint8"}}}})
	} else {
		o := dp.DefaultGen()
		o.Choices = true
		o.NestedChoice = true
		o.MaxDepth = 3
		if k := (idx / 16) % 5; k > 0 {
			// the hostile requests go to one of the library's reflection nodes over plain Go values
			m := dp.GoModes[k-1]
			gm = &m
			dp.GoGen(&o, m)
			o.Choices = m.Shape == "map"
			o.NestedChoice = o.Choices
			o.Defaults = false
		}
		s = dp.GenSchema(r, o)
	}
	if err := s.Compile(); err != nil {
		c.R.Inconclusive = "schema does not compile: " + head(err.Error(), 200)
		return
	}
	do := dp.DefaultData()
	do.PSet, do.PKid = 0.85, 0.9
	do.MaxEntries = 2
	t := dp.GenTree(r, s, do)
	if gm != nil && dp.GoSupports(s, *gm) != "" {
		gm = nil
	}
	e := &c13env{c: c, s: s, t: t, pristine: t.Clone(), gm: gm}
	e.reset()
	if gm != nil {
		c.Count("store_" + gm.String())
	}
	// the family of requests is independent of the schema (fixed / generated) and of the store the requests go to
	family := (idx / 2) % 8
	if idx%16 == 12 {
		c13Keyless(c) // xml family, fixed schema: once per sixteen cases
	}
	c.SetSample(map[string]interface{}{"yang": head(s.Yang(), 800), "family": family})
	switch family {
	case 0, 1:
		p.jsonShapes(e)
	case 2:
		p.jsonText(e)
	case 3:
		p.paths(e)
	case 4:
		p.queries(e)
	case 5:
		p.xpaths(e)
	case 6:
		p.xmlDocs(e)
	case 7:
		p.setValues(e)
	}
}

func upsertJSON(e *c13env, doc string) error {
	n, err := nodeutil.ReadJSON(doc)
	if err != nil {
		return err
	}
	return e.browser().Root().UpsertFrom(n)
}

// jsonShapes: every position of a valid document x every JSON kind.
func (p c13) jsonShapes(e *c13env) {
	src := dp.GenTree(e.c.Rand, e.s, dp.DataOpts{PSet: 0.9, PKid: 0.95, MaxEntries: 2})
	valid := dp.EncodeJSON(e.s, src, dp.JOpts{})
	var root interface{}
	if err := json.Unmarshal([]byte(valid), &root); err != nil {
		e.c.Violate("harness/json", "reference encoding is not JSON: %v", err)
		return
	}
	e.try("json-shape", "valid", valid, false, func() error { return upsertJSON(e, valid) })
	// enumerate positions as access paths
	type pos struct{ path []interface{} }
	var positions []pos
	var walk func(v interface{}, path []interface{})
	walk = func(v interface{}, path []interface{}) {
		positions = append(positions, pos{append([]interface{}{}, path...)})
		switch x := v.(type) {
		case map[string]interface{}:
			for k, c := range x {
				walk(c, append(path, k))
			}
		case []interface{}:
			for i, c := range x {
				walk(c, append(path, i))
			}
		}
	}
	walk(root, nil)
	if len(positions) > 60 {
		e.c.Rand.Shuffle(len(positions), func(i, j int) { positions[i], positions[j] = positions[j], positions[i] })
		positions = positions[:60]
	}
	for _, ps := range positions {
		if len(ps.path) == 0 {
			continue
		}
		for ki, kv := range jsonKinds {
			var fresh interface{}
			json.Unmarshal([]byte(valid), &fresh)
			setAt(fresh, ps.path, kv)
			b, _ := json.Marshal(fresh)
			doc := string(b)
			pk := posKind(e.s, ps.path)
			kn := jsonKindNames[ki]
			scalar := kn == "bool" || kn == "number" || kn == "string"
			structured := kn == "object" || kn == "empty-object" || kn == "array-of-objects" || kn == "array-of-arrays"
			// an object or an array of arrays / objects where a leaf (a key, an element of a leaf-list) holds one value is no value of any type
			leafy := (pk == "leaf" || pk == "key" || pk == "leaf-list-element") && structured
			// several values where the schema has one (a union may have an empty member, written [null])
			if n := nodeAt(e.s, ps.path); (pk == "leaf" || pk == "key") && (kn == "array-of-scalars" || kn == "empty-array") && n != nil && n.Type != nil && n.Type.Wrap != "union" {
				leafy = true
			}
			if leafy || (pk == "list" && (scalar || kn == "object" || kn == "empty-object")) || (pk == "container" && scalar) {
				e.tryShape("json-shape", kn+"-at-"+pk, doc, func() error { return upsertJSON(e, doc) })
				continue
			}
			e.try("json-shape", kn+"-at-"+pk, doc, false, func() error { return upsertJSON(e, doc) })
		}
		// delete the member (list entry without its key, ...)
		var fresh interface{}
		json.Unmarshal([]byte(valid), &fresh)
		if delAt(fresh, ps.path) {
			b, _ := json.Marshal(fresh)
			doc := string(b)
			if pk := posKind(e.s, ps.path); pk == "key" {
				e.tryShape("json-shape", "deleted-key", doc, func() error { return upsertJSON(e, doc) })
			} else {
				e.try("json-shape", "deleted-"+pk, doc, false, func() error { return upsertJSON(e, doc) })
			}
		}
	}
	// the same mismatches sent to a list selection: the document for a list is {"name":[...]}
	for _, ap := range e.t.AllPaths() {
		_, l, _ := e.t.Resolve(ap)
		if l == nil || !plainKeys(ap) {
			continue
		}
		name := l.S.Name
		for ki, kv := range jsonKinds {
			kn := jsonKindNames[ki]
			if strings.HasPrefix(kn, "array") || kn == "empty-array" || kn == "null" {
				continue
			}
			b, _ := json.Marshal(map[string]interface{}{name: kv})
			doc, lp := string(b), dp.PathString(ap)
			e.tryShape("json-shape", kn+"-for-list-selection", doc+" -> "+lp, func() error {
				n, err := nodeutil.ReadJSON(doc)
				if err != nil {
					return err
				}
				sel, err := e.browser().Root().Find(lp)
				if err != nil || sel == nil {
					return fmt.Errorf("verif: list %s not found: %v", lp, err)
				}
				return sel.UpsertFrom(n)
			})
		}
		break
	}
	// duplicate list entries with the same key
	for _, l := range src.Lists {
		if len(l.Entries) > 0 {
			dup := &dp.DList{S: l.S, Entries: []*dp.DNode{l.Entries[0], l.Entries[0]}}
			doc := dp.EncodeJSONList(e.s, dup, dp.JOpts{})
			e.try("json-shape", "duplicate-key-entries", doc, false, func() error { return upsertJSON(e, doc) })
		}
	}
}

func setAt(root interface{}, path []interface{}, v interface{}) {
	cur := root
	for i, st := range path {
		last := i == len(path)-1
		switch k := st.(type) {
		case string:
			m := cur.(map[string]interface{})
			if last {
				m[k] = v
				return
			}
			cur = m[k]
		case int:
			a := cur.([]interface{})
			if last {
				a[k] = v
				return
			}
			cur = a[k]
		}
	}
}

func delAt(root interface{}, path []interface{}) bool {
	cur := root
	for i, st := range path {
		last := i == len(path)-1
		switch k := st.(type) {
		case string:
			m := cur.(map[string]interface{})
			if last {
				delete(m, k)
				return true
			}
			cur = m[k]
		case int:
			if last {
				return false
			}
			cur = cur.([]interface{})[k]
		}
	}
	return false
}

// posKind names what the schema declares at a JSON access path (leaf, leaf-list, container, list, entry, key).
func posKind(s *dp.Schema, path []interface{}) string {
	var cur *dp.SNode
	kind := "root"
	for _, st := range path {
		switch k := st.(type) {
		case string:
			if cur == nil {
				cur = s.TopChild(k)
			} else {
				cur = cur.Child(k)
			}
			if cur == nil {
				return "unknown"
			}
			kind = cur.Kind.String()
			if cur.IsKey() {
				kind = "key"
			}
			if cur.Type != nil && cur.Type.Base == "empty" {
				// present with any content: the library's own tests write {"x":{}} for it
				kind = "empty-" + kind
			}
		case int:
			if cur != nil && cur.Kind == dp.List {
				kind = "entry"
			} else if cur != nil && cur.Type != nil && cur.Type.Base == "empty" {
				kind = "empty-element"
			} else {
				kind = "leaf-list-element"
			}
		}
	}
	return kind
}

func nodeAt(s *dp.Schema, path []interface{}) *dp.SNode {
	var cur *dp.SNode
	for _, st := range path {
		if k, ok := st.(string); ok {
			if cur == nil {
				cur = s.TopChild(k)
			} else {
				cur = cur.Child(k)
			}
			if cur == nil {
				return nil
			}
		}
	}
	return cur
}

var mutChars = []string{"", "{", "}", "[", "]", ",", ":", "\"", "\\", "0", "null", " "}

// jsonText: truncations and single character mutations of a valid document.
func (p c13) jsonText(e *c13env) {
	src := dp.GenTree(e.c.Rand, e.s, dp.DataOpts{PSet: 0.8, PKid: 0.9, MaxEntries: 2})
	valid := dp.EncodeJSON(e.s, src, dp.JOpts{})
	if len(valid) > 600 {
		valid = valid[:600] // keep the per-case work bounded; the truncated text is just another input
	}
	for i := 0; i <= len(valid); i++ {
		doc := valid[:i]
		e.try("json-text", "truncate", doc, false, func() error { return upsertJSON(e, doc) })
	}
	for k := 0; k < 400; k++ {
		i := e.c.Rand.Intn(len(valid))
		m := mutChars[e.c.Rand.Intn(len(mutChars))]
		doc := valid[:i] + m + valid[i+1:]
		e.try("json-text", "char-subst", doc, false, func() error { return upsertJSON(e, doc) })
	}
}

var pathFuzz = []string{"", "/", "//", "a//b", "a=", "=x", "a=1,2,3", "%zz", "%", "a=%", "a/%2", "l=", "l=,", "l=,,", "l=a,", "l=a/k/v/w", "l=a/k/x", "a=1", "a/x/y", "a/x=1", "top/x",
	"top=1", "../..", "../../../a", "..", "../", "a/../a", "l=a/../l=a", ":", "m:", ":a", "m:a/m:", "zz:a", "a:b:c", "l=a/m=notanumber", "l=a/m=99999999999999999999", "l=a/m=1.5", "ck=1", "ck=1,", "ck=,x", "ck=x,1",
	"ck=1,x,extra", "ck=1,x/ll", "ck=1,x/ll=3", "a?", "a??", "a?=", "a?&", "a?depth", "a?depth=", "?depth=1", "a/b/zz=1", "a/b/zz/1", "l/k", "l=a=b", "l==", "a\x00b", "a\nb", " a", "a ", "ä", strings.Repeat("a/", 300), strings.Repeat("../", 300) + "a", "l=" + strings.Repeat("x", 70000)}

func (p c13) paths(e *c13env) {
	p.pathsOn(e, "path", func() *node.Selection { return e.browser().Root() })
	// the same paths on documents browsed in place: the JSON and the XML reader are node implementations too
	jdoc := dp.EncodeJSON(e.s, e.t, dp.JOpts{})
	p.pathsOn(e, "path-json-reader", func() *node.Selection {
		n, err := nodeutil.ReadJSON(jdoc)
		if err != nil {
			panic("harness: ReadJSON of the reference encoding: " + err.Error())
		}
		return node.NewBrowser(e.s.Mod, n).Root()
	})
	if e.s.AugName == "" {
		xdoc := dp.EncodeXML(e.s, e.s.Mod.Ident(), e.t, nil)
		p.pathsOn(e, "path-xml-reader", func() *node.Selection {
			n, err := nodeutil.ReadXMLDoc(strings.NewReader(xdoc))
			if err != nil {
				panic("harness: ReadXMLDoc of the reference encoding: " + err.Error())
			}
			return node.NewBrowser(e.s.Mod, n).Root()
		})
	}
}

func (p c13) pathsOn(e *c13env, fam string, root func() *node.Selection) {
	find := func(path string) func() error {
		return func() error {
			sel, err := root().Find(path)
			if err == nil && sel != nil {
				// using the selection must not crash either
				_, err = nodeutil.WriteJSON(sel)
			}
			return err
		}
	}
	for _, pth := range pathFuzz {
		pp := pth
		e.try(fam, "catalog", pp, true, find(pp))
	}
	// mutations of valid paths
	valid := []string{}
	for _, ap := range e.t.AllPaths() {
		valid = append(valid, dp.PathString(ap))
	}
	if len(valid) > 12 {
		valid = valid[:12]
	}
	subs := []string{"", "/", "=", ",", "%", "?", "&", ":", "..", "%2F", "+", " "}
	for _, v := range valid {
		for i := 0; i <= len(v); i++ {
			pp := v[:i]
			e.try(fam, "truncate", pp, true, find(pp))
		}
		for k := 0; k < 40 && len(v) > 0; k++ {
			i := e.c.Rand.Intn(len(v))
			pp := v[:i] + subs[e.c.Rand.Intn(len(subs))] + v[i+1:]
			e.try(fam, "char-subst", pp, true, find(pp))
			pp2 := v[:i] + subs[e.c.Rand.Intn(len(subs))] + v[i:]
			e.try(fam, "char-insert", pp2, true, find(pp2))
		}
		// a slash written %2F is part of a name, and no name has one: the path names nothing (least of all the node the
		// same text with real slashes leads to)
		if strings.Contains(v, "/") {
			for _, pp := range []string{strings.Replace(v, "/", "%2F", 1), strings.ReplaceAll(v, "/", "%2F"), strings.Replace(v, "/", "%2f", 1)} {
				pp := pp
				e.try(fam, "encoded-slash", pp, true, find(pp))
			}
		}
		// more key values than the list has key leaves, on every keyed segment
		segs := strings.Split(v, "/")
		for i, sg := range segs {
			if !strings.Contains(sg, "=") {
				continue
			}
			for _, surplus := range []string{",surplus", ",", ",1,2,3"} {
				alt := append([]string{}, segs...)
				alt[i] = sg + surplus
				pp := strings.Join(alt, "/")
				e.try(fam, "surplus-key-values", pp, true, find(pp))
			}
		}
		// from a non-root start
		if sel, err := root().Find(v); err == nil && sel != nil {
			for _, rel := range []string{"..", "../", "../..", "../" + v, "../../../../../x", "zz", "=1", "?depth=1"} {
				r := rel
				e.try(fam, "relative", v+" -> "+r, true, func() error { _, err := sel.Find(r); return err })
			}
		}
	}
}

var queryFuzz = []string{"depth=0", "depth=-1", "depth=abc", "depth=", "depth=99999999999999999999", "depth=1&depth=2", "content=zz", "content=", "content=config&content=nonconfig",
	"fields=", "fields=(((", "fields=)))", "fields=a/b", "fields=a;b", "fields=a(b;c)", "fields=a(", "fields=;", "fields=;;a", "fields=a/b/c/d/e", "fields=(a;b)/c", "fields=zz", "fields=l/k", "fields=l(k;v)",
	"fc.xfields=", "fc.xfields=a/b", "fc.xfields=(", "fc.range=", "fc.range=!", "fc.range=!-", "fc.range=l", "fc.range=l!", "fc.range=l!a", "fc.range=l!1", "fc.range=l!1-", "fc.range=l!-1", "fc.range=l!1-2-3",
	"fc.range=l!2-1", "fc.range=l!0-0", "fc.range=l!99999999999999999999", "fc.range=l!-5-3", "fc.range=a/b!1-2", "fc.range=l/m!0-1", "fc.range=!1-2", "fc.max-node-count=0", "fc.max-node-count=-1",
	"fc.max-node-count=x", "fc.max-node-count=1", "with-defaults=zz", "with-defaults=", "with-defaults=trim", "with-defaults=explicit", "with-defaults=report-all-tagged", "where=", "filter=", "zz=1", "=", "&", "&&", "a=b=c",
	"depth=1&fields=a&content=config&with-defaults=trim&fc.range=l!0-1&fc.max-node-count=3", "%", "%zz=1", "depth=%31", "fields=%28", ";", "fields=a;b;c"}

func init() {
	// every group doubles the number of paths the expression stands for
	for _, n := range []int{12, 24, 40} {
		queryFuzz = append(queryFuzz, "fields=l"+strings.Repeat("(k%3Bv)", n), "fc.xfields=a"+strings.Repeat("(b%3Bc%3Bd)", n), "fc.range=l"+strings.Repeat("(k%3Bv)", n)+"!0-1")
	}
}

func (p c13) queries(e *c13env) {
	targets := []string{"", "a", "l", "ck"}
	for _, ap := range e.t.AllPaths() {
		if len(targets) < 8 {
			targets = append(targets, dp.PathString(ap))
		}
	}
	export := func(sel *node.Selection) error {
		if sel == nil {
			return nil
		}
		if _, err := nodeutil.WriteJSON(sel); err != nil {
			return err
		}
		return sel.UpsertInto(dp.NewCapture(e.s).Node())
	}
	for _, q := range queryFuzz {
		for _, tgt := range targets {
			qq, tt := q, tgt
			e.try("query", "find", tt+"?"+qq, true, func() error {
				sel, err := e.browser().Root().Find(tt + "?" + qq)
				if err != nil {
					return err
				}
				return export(sel)
			})
			e.try("query", "constrain", tt+" Constrain("+qq+")", true, func() error {
				sel, err := e.browser().Root().Find(tt)
				if err != nil || sel == nil {
					return err
				}
				sel, err = sel.Constrain(qq)
				if err != nil {
					return err
				}
				return export(sel)
			})
		}
	}
	// random combinations with values drawn from the schema's own names
	var names []string
	e.s.Walk(func(n *dp.SNode) { names = append(names, n.Name) })
	for k := 0; k < 195; k++ {
		nm := names[e.c.Rand.Intn(len(names))]
		nm2 := names[e.c.Rand.Intn(len(names))]
		q := []string{"fields=" + nm + "/" + nm2, "fields=" + nm + ";" + nm2, "fc.xfields=" + nm, "fc.range=" + nm + "!0-1", "fc.range=" + nm + "/" + nm2 + "!1-", "fields=" + nm + "(" + nm2 + ")",
			"where=" + nm + "=1", "where=" + nm + "%3E1", "where=" + nm + "/" + nm2 + "='x'", "depth=" + fmt.Sprint(k%5) + "&fields=" + nm,
			// windows that lost their start row
			"fc.range=" + nm + "!-2", "fc.range=" + nm + "!-1-2", "fc.range=" + nm + "/" + nm2 + "!-9223372036854775808"}[k%13]
		tt := targets[k%len(targets)]
		e.try("query", "schema-names", tt+"?"+q, true, func() error {
			sel, err := e.browser().Root().Find(tt + "?" + q)
			if err != nil {
				return err
			}
			return export(sel)
		})
	}
}

var xpathFuzz = []string{"", "=", "!=", "<", "a", "a=", "=1", "a==1", "a=1=2", "a!1", "a<>1", "a<", ">", "a/b", "a/b/c/d=1", "/a=1", "//a", "a//b=1", "../a=1", ".=1", "*", "a[1]", "a[", "a]", "(a=1)", "a=1 and b=2",
	"a='", "a='x", "a=\"x", "a='x''", "a=1.5.5", "a=--1", "a=1e999", "a='" + strings.Repeat("x", 5000) + "'", strings.Repeat("a/", 300) + "b=1", strings.Repeat("a=1 ", 70), "k='a'", "v>1", "v>=1", "v<'x'", "k>1",
	"m/i=1", "m/w='x'", "c/q='zz'", "zz=1", "k", "v", "m", "c", "top='x'", "p1!='x'", "rc/s='Zed'", "l/k='a'", "a/x='1'", "a/y>3", "a/b/z='q'", "a/b/zz=1", "t4=''", "t13='id-a'", "t12='b0'", "t15=''", "t11='zero'", "t10=true"}

func (p c13) xpaths(e *c13env) {
	lists := []string{"l", "ck"}
	for _, ap := range e.t.AllPaths() {
		if _, l, _ := e.t.Resolve(ap); l != nil && len(lists) < 6 {
			lists = append(lists, dp.PathString(ap))
		}
	}
	// a valid filter that is evaluated again after every hostile one: what a refused expression leaves behind must not make the next
	// request fail
	canary := func() error {
		sel, err := e.browser().Root().Find("l?where=" + url.QueryEscape("k='a'"))
		if err != nil || sel == nil {
			return err
		}
		_, err = nodeutil.WriteJSON(sel)
		return err
	}
	canaryOK := false
	if pv, _ := core.Try(func() { canaryOK = canary() == nil }); pv != nil {
		canaryOK = false
	}
	for _, x := range xpathFuzz {
		for _, l := range lists {
			xx, ll := x, l
			e.try("xpath", "where", ll+"?where="+xx, true, func() error {
				sel, err := e.browser().Root().Find(ll + "?where=" + url.QueryEscape(xx))
				if err != nil || sel == nil {
					return err
				}
				_, err = nodeutil.WriteJSON(sel)
				return err
			})
			if canaryOK {
				e.c.Eval()
				var cerr error
				if pv, _ := core.Try(func() { cerr = canary() }); pv == nil && cerr != nil {
					e.c.Violate("valid-after-invalid/xpath", "after %q, the valid request l?where=k='a' (fine before) failed: %v", ll+"?where="+xx, cerr)
					canaryOK = false
				}
			}
		}
		xx := x
		e.try("xpath", "filter", "Constrain(filter="+xx+")", true, func() error {
			_, err := e.browser().Root().Constrain("filter=" + url.QueryEscape(xx))
			return err
		})
	}
	// relational operators against every leaf of every list, set and unset
	var leaves []string
	e.s.Walk(func(n *dp.SNode) {
		if n.Kind == dp.Leaf || n.Kind == dp.LeafList {
			if dpar := n.DataParent(); dpar != nil && dpar.Kind == dp.List {
				leaves = append(leaves, strings.Join(dpar.Path(), "/")+"|"+n.Name)
			}
		}
	})
	for _, lf := range leaves {
		parts := strings.SplitN(lf, "|", 2)
		for _, op := range []string{"=", "!=", "<", "<=", ">", ">="} {
			for _, lit := range []string{"1", "'x'", "true", "-1", "1.5", "'zero'", "''"} {
				q := parts[1] + op + lit
				pth := parts[0]
				e.try("xpath", "relational", pth+"?where="+q, true, func() error {
					sel, err := e.browser().Root().Find(pth + "?where=" + url.QueryEscape(q))
					if err != nil || sel == nil {
						return err
					}
					_, err = nodeutil.WriteJSON(sel)
					return err
				})
			}
		}
	}
}

func upsertXML(e *c13env, doc string) error {
	n, err := nodeutil.ReadXMLDoc(strings.NewReader(doc))
	if err != nil {
		return err
	}
	return e.browser().Root().UpsertFrom(n)
}

func (p c13) xmlDocs(e *c13env) {
	src := dp.GenTree(e.c.Rand, e.s, dp.DataOpts{PSet: 0.8, PKid: 0.9, MaxEntries: 2})
	valid := dp.EncodeXML(e.s, e.s.Mod.Ident(), src, nil)
	e.try("xml", "valid", valid, false, func() error { return upsertXML(e, valid) })
	p.xmlShapes(e, src)
	if len(valid) > 700 {
		valid = valid[:700]
	}
	for i := 0; i <= len(valid); i += 1 {
		doc := valid[:i]
		e.try("xml", "truncate", doc, false, func() error { return upsertXML(e, doc) })
	}
	// structural mutations on element boundaries
	var tags []int
	for i := 0; i < len(valid); i++ {
		if valid[i] == '<' {
			tags = append(tags, i)
		}
	}
	ins := []string{"text", "<zz>1</zz>", "<a>1</a>", "<l/>", "<l><k/></l>", "<k>dup</k>", "<![CDATA[x]]>", "<!-- c -->", "<?pi x?>", "&amp;", "&#0;", "&bogus;", "<x xmlns=\"urn:other\">1</x>", "<a xmlns=\"urn:other\"><x>1</x></a>", "<l a=\"1\"><k>z</k></l>", "<top><deep>1</deep></top>", "<m><i>notnum</i></m>", "<ll>300</ll>", "<ll>-1</ll>"}
	for k := 0; k < 300 && len(tags) > 0; k++ {
		at := tags[e.c.Rand.Intn(len(tags))]
		x := ins[e.c.Rand.Intn(len(ins))]
		doc := valid[:at] + x + valid[at:]
		e.try("xml", "insert", doc, false, func() error { return upsertXML(e, doc) })
	}
	for _, doc := range []string{"", "<", "<m", "<m>", "<m/>", "<m></m>", "<zz/>", "<m>text</m>", "<m><a>text</a></m>", "<m><a><x><y/></x></a></m>", "<m><l/></m>", "<m><l><v>1</v></l></m>", "<m><l><k/></l></m>",
		"<m><l><k>a</k><k>b</k></l></m>", "<m><ck><k1>x</k1><k2>y</k2></ck></m>", "<m><ck><k1>1</k1></ck></m>", "<m><top><x/></top></m>", "<m><a>1</a><a>2</a></m>", "<m><t4/></m>", "<m><t15>x</t15></m>",
		"<m><t10>maybe</t10></m>", "<m><t0>999</t0></m>", "<m><t12>nope</t12></m>", "<m><t13>zz:zz</t13></m>", "<m><t11>9</t11></m>", "<m xmlns=\"urn:x\"><a xmlns=\"urn:y\"/></m>", strings.Repeat("<a>", 500), "<m>" + strings.Repeat("<a>", 200) + strings.Repeat("</a>", 200) + "</m>"} {
		d := doc
		e.try("xml", "catalog", d, false, func() error { return upsertXML(e, d) })
	}
}

// xmlShapes: the mismatches the property names, as XML documents built along paths of the tree: text where a container is declared,
// a list entry without its key.
func (p c13) xmlShapes(e *c13env, src *dp.DNode) {
	if e.s.AugName != "" {
		return
	}
	esc := func(t string) string {
		var b strings.Builder
		xml.EscapeText(&b, []byte(t))
		return b.String()
	}
	// wrap builds <m xmlns><step>..<step>INNER</step>..</step></m>; entries carry their key leaves
	wrap := func(path dp.DPath, inner string, dropKeyOfLast bool) string {
		open, close := "", ""
		cur := src
		for i, st := range path {
			open += "<" + st.Name + ">"
			close = "</" + st.Name + ">" + close
			if st.Key != nil {
				l := cur.Lists[st.Name]
				en, _ := l.Find(st.Key)
				if !(dropKeyOfLast && i == len(path)-1) {
					for j, kn := range l.S.Keys {
						open += "<" + kn + ">" + esc(st.Key[j]) + "</" + kn + ">"
					}
				}
				cur = en
			} else {
				cur = cur.Kids[st.Name]
			}
		}
		return fmt.Sprintf("<%s xmlns=\"%s\">%s%s%s</%s>", e.s.Mod.Ident(), e.s.NS, open, inner, close, e.s.Mod.Ident())
	}
	n := 0
	for _, ap := range src.AllPaths() {
		mn, l, _ := src.Resolve(ap)
		if l != nil || !plainKeys(ap) || n >= 12 {
			continue
		}
		n++
		if ap[len(ap)-1].Key == nil {
			doc := wrap(ap, "just text", false)
			e.tryShape("xml-shape", "text-at-container", doc, func() error { return upsertXML(e, doc) })
		} else if len(mn.S.Keys) > 0 {
			inner := ""
			for _, c := range mn.S.DataChildren() {
				if c.Kind == dp.Leaf && !c.IsKey() && mn.Leaves[c.Name] != nil {
					inner = "<" + c.Name + ">" + esc(mn.Leaves[c.Name].V[0]) + "</" + c.Name + ">"
					break
				}
			}
			doc := wrap(ap, inner, true)
			e.tryShape("xml-shape", "entry-without-key", doc, func() error { return upsertXML(e, doc) })
		}
	}
}

type c13stringer struct{}

func (c13stringer) String() string { return "stringer" }

func (p c13) setValues(e *c13env) {
	var np *int
	var ni interface{}
	vals := []interface{}{nil, ni, np, 0, 1, -1, int8(-128), int16(300), int32(1 << 30), int64(1 << 40), uint(5), uint8(255), uint16(1), uint32(1), uint64(1 << 63), float32(1.5), float64(1e300), 1.0, true, "x", "", "1", "true", "zero", "b0 b1", "id-a", "aGk=",
		[]string{"a"}, []string{}, []int{1, 2}, []interface{}{1, "a", nil}, []interface{}{}, [][]string{{"a"}}, map[string]interface{}{"a": 1}, map[string]interface{}{}, struct{ A int }{1}, &struct{ A int }{1}, c13stringer{}, func() {}, make(chan int), []byte("hi"), []byte{},
		complex(1, 2), [2]int{1, 2}, new(string), &ni, json.Number("12"), uintptr(5), 'x'}
	var leafPaths []string
	keyLeaf := map[string]bool{}
	var rec func(d *dp.DNode, base string)
	rec = func(d *dp.DNode, base string) {
		var kids []*dp.SNode
		if d.S == nil {
			kids = e.s.TopData()
		} else {
			kids = d.S.DataChildren()
		}
		for _, k := range kids {
			if k.Kind == dp.Leaf || k.Kind == dp.LeafList {
				lp := strings.TrimPrefix(base+"/"+k.Name, "/")
				leafPaths = append(leafPaths, lp)
				if k.IsKey() {
					keyLeaf[lp] = true
				}
			}
		}
		for n, k := range d.Kids {
			rec(k, base+"/"+n)
		}
		for n, l := range d.Lists {
			for _, en := range l.Entries {
				rec(en, base+"/"+dp.PathString(dp.DPath{{Name: n, Key: en.Key()}}))
			}
		}
	}
	rec(e.t, "")
	if len(leafPaths) > 30 {
		e.c.Rand.Shuffle(len(leafPaths), func(i, j int) { leafPaths[i], leafPaths[j] = leafPaths[j], leafPaths[i] })
		leafPaths = leafPaths[:30]
	}
	for _, lp := range leafPaths {
		for _, v := range vals {
			vv, ll := v, lp
			if (vv == nil || vv == "") && keyLeaf[ll] {
				// taking the key away from an entry (an empty string is "unset" to a struct field) is not a request any store has to honour or survive (the statement is about
				// rejected requests leaving the store readable; this one is accepted by stores that do not guard their keys)
				continue
			}
			e.try("setvalue", fmt.Sprintf("%T", vv), fmt.Sprintf("%s <- %#v", ll, vv), false, func() error {
				sel, err := e.browser().Root().Find(ll)
				if err != nil || sel == nil {
					return err
				}
				return sel.SetValue(vv)
			})
		}
	}
	p.selectionOps(e, leafPaths)
}

// selectionOps: every operation of a selection on every kind of selection (root, container, list, entry, leaf, leaf-list), also one
// obtained with request parameters that hide part of what the payload names. Errors are fine, crashes are not.
var c13ListRootModule *meta.Module

// listRoots: a list node made with the public constructor that takes no change callback (the node of a list a caller keeps itself)
func (p c13) listRoots(e *c13env) {
	if c13ListRootModule == nil {
		m, err := parser.LoadModuleFromString(nil, `module lr { namespace "urn:lr"; prefix lr; list l { key k; leaf k { type string; } leaf v { type string; } } }`)
		if err != nil {
			e.c.Violate("harness/list-root-module", "%v", err)
			return
		}
		c13ListRootModule = m
	}
	type item struct{ K, V string }
	for _, op := range []string{"delete", "upsert", "read"} {
		rows := []*item{{"a", "1"}, {"b", "2"}, {"c", "3"}}
		root := &nodeutil.Basic{OnChild: func(r node.ChildRequest) (node.Node, error) { return nodeutil.ReflectList(rows), nil }}
		b := node.NewBrowser(c13ListRootModule, root)
		e.try("selection-op", op+"-under-ReflectList", "l=b on a list made with nodeutil.ReflectList(rows)", true, func() error {
			switch op {
			case "delete":
				sel, err := b.Root().Find("l=b")
				if err != nil || sel == nil {
					return fmt.Errorf("find: %v", err)
				}
				return sel.Delete()
			case "upsert":
				n, err := nodeutil.ReadJSON(`{"l":[{"k":"z","v":"9"}]}`)
				if err != nil {
					return err
				}
				return b.Root().UpsertFrom(n)
			}
			_, err := nodeutil.WriteJSON(b.Root())
			return err
		})
	}
}

var c13DirectedModule *meta.Module

type c13Item struct{ Id, Name string }
type c13Root struct {
	L  []*c13Item
	S  string
	Sl []string
	Nl []*struct {
		B []byte
		C string
	}
	C *struct{ S string }
	I []*struct {
		I int
		V string
	}
	U []*struct {
		U uint16
		V string
	}
	W []*struct {
		K  int64
		W  *struct{ X string }
		K2 []*struct{ J string }
	}
}

// directed: request content and Go values at the edges of what the reflection nodes hold: an empty string as key, a key of a
// type no Go map can be indexed by, a length bound beyond int64, a value read through a container that is not there, a keyed Go
// map whose key type is narrower than what the library converts to
func (p c13) directed(e *c13env) {
	if c13DirectedModule == nil {
		m, err := parser.LoadModuleFromString(nil, `module x { namespace "urn:x"; prefix x;
  list l { key id; leaf id { type string; } leaf name { type string; } }
  leaf s { type string { length "1..18446744073709551615"; } }
  leaf-list sl { type string { length "0..18446744073709551615"; } }
  list nl { key b; leaf b { type binary; } leaf c { type string; } }
  container c { leaf s { type string; } }
  list i { key i; leaf i { type int32; } leaf v { type string; } }
  list u { key u; leaf u { type uint16; } leaf v { type string; } }
  list w { key k; leaf k { type int64; } container w { leaf x { type string; } } list k2 { key j; leaf j { type string; } } } }`)
		if err != nil {
			e.c.Violate("harness/directed-module", "%v", err)
			return
		}
		c13DirectedModule = m
	}
	m := c13DirectedModule
	stores := map[string]func() node.Node{
		"reflect-struct": func() node.Node { return nodeutil.ReflectChild(&c13Root{}) },
		"node-struct":    func() node.Node { return &nodeutil.Node{Object: &c13Root{}} },
		"reflect-map":    func() node.Node { return nodeutil.ReflectChild(map[string]interface{}{}) },
		"node-map":       func() node.Node { return &nodeutil.Node{Object: map[string]interface{}{}} },
		"reflect-typed-maps": func() node.Node {
			return nodeutil.ReflectChild(map[string]interface{}{"i": map[int32]interface{}{5: map[string]interface{}{"i": 5, "v": "x"}}, "u": map[uint16]interface{}{7: map[string]interface{}{"u": 7, "v": "y"}},
				"w": map[int64]interface{}{5: map[string]interface{}{"k": int64(5), "w": map[string]interface{}{"x": "in"}}}})
		},
		"node-typed-maps": func() node.Node {
			return &nodeutil.Node{Object: map[string]interface{}{"i": map[int32]interface{}{5: map[string]interface{}{"i": 5, "v": "x"}}, "u": map[uint16]interface{}{7: map[string]interface{}{"u": 7, "v": "y"}},
				"w": map[int64]interface{}{5: map[string]interface{}{"k": int64(5), "w": map[string]interface{}{"x": "in"}}}}}
		},
	}
	for sname, mk := range stores {
		requests := []struct{ kind, doc string }{
			{"empty-string-key", `{"l":[{"id":"","name":"n1"},{"id":"b","name":"n2"}]}`},
			{"length-bound-beyond-int64", `{"s":"abc","sl":["a","bc"]}`},
			{"binary-key", `{"nl":[{"b":"aGVsbG8=","c":"1"},{"b":"AA==","c":"2"}]}`},
			{"narrow-keyed-map", `{"i":[{"i":5,"v":"changed"},{"i":6,"v":"new"}],"u":[{"u":7,"v":"changed"}]}`},
		}
		for _, rq := range requests {
			if strings.Contains(sname, "struct") && rq.kind != "empty-string-key" {
				continue
			}
			b := node.NewBrowser(m, mk())
			doc := rq.doc
			e.try("directed", rq.kind+"/"+sname, doc, true, func() error {
				n, err := nodeutil.ReadJSON(doc)
				if err != nil {
					return err
				}
				if err = b.Root().UpsertFrom(n); err != nil {
					return err
				}
				// whatever was accepted can be read and addressed
				if _, err = nodeutil.WriteJSON(b.Root()); err != nil {
					return err
				}
				for _, pth := range []string{"l=b", "l=", "nl=aGVsbG8%3D", "i=5", "i=6", "u=7", "u=8"} {
					if _, err := b.Root().Find(pth); err != nil {
						return err
					}
				}
				return nil
			})
		}
		// from an entry, ".." is the list: a name looked up there is looked up in the Go map that is keyed by the key leaf
		if strings.Contains(sname, "typed-maps") {
			b := node.NewBrowser(m, mk())
			for _, rel := range []string{"../w", "../w/x", "../k2", "../k", "../w=5", "../../w=5/w/x"} {
				rr := rel
				e.try("directed", "name-looked-up-in-a-keyed-map/"+sname, "w=5 -> "+rr, true, func() error {
					sel, err := b.Root().Find("w=5")
					if err != nil || sel == nil {
						return fmt.Errorf("find w=5: %v", err)
					}
					_, err = sel.Find(rr)
					return err
				})
			}
		}
		b := node.NewBrowser(m, mk())
		for _, pth := range []string{"c/s", "l=zz/name", "i=99/v", "c", "zz/s"} {
			pp := pth
			e.try("directed", "GetValue-thru-absent-node/"+sname, pp, true, func() error { _, err := b.Root().GetValue(pp); return err })
		}
	}
}

func (p c13) selectionOps(e *c13env, leafPaths []string) {
	p.listRoots(e)
	p.directed(e)
	targets := []string{""}
	for _, ap := range e.t.AllPaths() {
		if plainKeys(ap) {
			targets = append(targets, dp.PathString(ap))
		}
	}
	if len(targets) > 12 {
		e.c.Rand.Shuffle(len(targets)-1, func(i, j int) { targets[i+1], targets[j+1] = targets[j+1], targets[i+1] })
		targets = targets[:12]
	}
	for i, lp := range leafPaths {
		if i < 6 {
			targets = append(targets, lp)
		}
	}
	whole := dp.EncodeJSON(e.s, e.t, dp.JOpts{})
	params := []string{"", "?depth=1", "?content=config", "?with-defaults=trim"}
	for _, n := range e.s.TopData() {
		params = append(params, "?fields="+n.Name, "?fc.xfields="+n.Name)
		if len(params) > 8 {
			break
		}
	}
	ops := []string{"delete", "replace", "upsert", "insert", "update", "insert-into", "upsert-into"}
	for _, tg := range targets {
		for _, op := range ops {
			for _, doc := range []string{"{}", whole} {
				prm := params[e.c.Rand.Intn(len(params))]
				tgt, oo, dd := tg, op, doc
				kind := oo + "/" + prm
				if dd == "{}" {
					kind += "/empty-payload"
				}
				e.try("selection-op", kind, fmt.Sprintf("%s %q%s <- %s", oo, tgt, prm, head(dd, 300)), false, func() error {
					sel, err := e.browser().Root().Find(tgt + prm)
					if err != nil || sel == nil {
						return err
					}
					if oo == "delete" {
						return sel.Delete()
					}
					src, err := nodeutil.ReadJSON(dd)
					if err != nil {
						return err
					}
					switch oo {
					case "replace":
						return sel.ReplaceFrom(src)
					case "upsert":
						return sel.UpsertFrom(src)
					case "insert":
						return sel.InsertFrom(src)
					case "update":
						return sel.UpdateFrom(src)
					case "insert-into":
						return sel.InsertInto(dp.NewCapture(e.s).Node())
					case "upsert-into":
						return sel.UpsertInto(dp.NewCapture(e.s).Node())
					}
					return nil
				})
			}
		}
	}
	// an entry replaced / upserted with its own content through parameters that select everything but its key leaves
	done := 0
	for _, ap := range e.t.AllPaths() {
		mn, _, mparent := e.t.Resolve(ap)
		last := ap[len(ap)-1]
		if mn == nil || last.Key == nil || !plainKeys(ap) || done >= 4 {
			continue
		}
		done++
		holder := dp.NewDNode(mparent.S)
		holder.Lists[last.Name] = &dp.DList{S: mn.S, Entries: []*dp.DNode{mn.Clone()}}
		doc := dp.EncodeJSON(e.s, holder, dp.JOpts{})
		hide := []string{"?fields=" + mn.S.Name, "?depth=1", "?fc.xfields=" + mn.S.Keys[0], "?content=nonconfig"}
		for _, c := range mn.S.Children {
			if c.Kind == dp.Leaf && !c.IsKey() {
				hide = append(hide, "?fields="+c.Name)
				break
			}
		}
		tgt := dp.PathString(ap)
		for _, prm := range hide {
			for _, oo := range []string{"replace", "upsert"} {
				prm, oo := prm, oo
				e.try("selection-op", oo+"-entry/"+strings.SplitN(prm[1:], "=", 2)[0]+"-hides-key", fmt.Sprintf("%s %q%s <- %s", oo, tgt, prm, head(doc, 300)), false, func() error {
					sel, err := e.browser().Root().Find(tgt + prm)
					if err != nil || sel == nil {
						return err
					}
					src, err := nodeutil.ReadJSON(doc)
					if err != nil {
						return err
					}
					if oo == "replace" {
						return sel.ReplaceFrom(src)
					}
					return sel.UpsertFrom(src)
				})
			}
		}
	}
}
