package props

import (
	"errors"
	"fmt"
	"strings"

	"github.com/freeconf/yang/node"

	"verif/core"
	"verif/dp"
)

// C12 — every node told an edit begins is told it ended; node errors surface.
// Fault enumeration: per scenario a fault-free run measures the callback trace length L, then the
// scenario is re-run once per k in 1..L with the k-th callback (source or target side) failing.

type c12 struct{}

func init() { core.Register(c12{}) }

func (c12) ID() string    { return "C12" }
func (c12) Level() string { return "fault_enumeration" }
func (c12) Rule() string {
	return "scenario = (schema, target tree, source tree, operation in {UpsertFrom,InsertFrom,UpdateFrom,Delete,ReplaceFrom}, entry point in " +
		"{root,container,list,entry}); recording wrappers on every source and target node log Child/Next/Field/Choose/BeginEdit/EndEdit; for each " +
		"scenario every fault position k=1..L is enumerated (exhaustive per scenario). Offline trace oracle: begin/end pairing per node identity with " +
		"equal flags, begin/end only to edited nodes and ancestors of the edit root, injected error wrapped by the returned error (errors.Is), no " +
		"write request after the failing call. A shape = (operation, entry kind, callback kind failed, side, position class); trivial = fault-free run"
}
func (c12) Exhaustive(string) bool { return true }
func (c12) MinEvals(string) int    { return 1000 }

func (c12) NumCases(tier string, seed int64) int {
	if tier == "thorough" {
		return 4000
	}
	return 480
}

const c12Yang = `
container a { leaf x {type string;} leaf y {type int32; default "5";} container b { leaf z {type string;} leaf-list zz {type int32;} } }
list l { key "k"; leaf k {type string;} leaf v {type int32; default "9";} list m { key "i"; leaf i {type int32;} leaf w {type string;} } container c { presence "p"; leaf q {type string;} } }
choice ch { case c1 { leaf p1 {type string;} leaf p2 {type string;} } case c2 { leaf r1 {type string;} container rc { leaf s {type string;} } } }
leaf top { type string; }
`

func c12Schema() *dp.Schema {
	str := func() *dp.SType { return &dp.SType{Base: "string"} }
	i32 := func() *dp.SType { return &dp.SType{Base: "int32"} }
	five, nine := "5", "9"
	s := &dp.Schema{Name: "m", Prefix: "m", NS: "urn:m"}
	s.Top = []*dp.SNode{
		{Kind: dp.Container, Name: "a", Children: []*dp.SNode{
			{Kind: dp.Leaf, Name: "x", Type: str()},
			{Kind: dp.Leaf, Name: "y", Type: i32(), Default: &five},
			{Kind: dp.Container, Name: "b", Children: []*dp.SNode{{Kind: dp.Leaf, Name: "z", Type: str()}, {Kind: dp.LeafList, Name: "zz", Type: i32()}}},
		}},
		{Kind: dp.List, Name: "l", Keys: []string{"k"}, Children: []*dp.SNode{
			{Kind: dp.Leaf, Name: "k", Type: str()},
			{Kind: dp.Leaf, Name: "v", Type: i32(), Default: &nine},
			{Kind: dp.List, Name: "m", Keys: []string{"i"}, Children: []*dp.SNode{{Kind: dp.Leaf, Name: "i", Type: i32()}, {Kind: dp.Leaf, Name: "w", Type: str()}}},
			{Kind: dp.Container, Name: "c", Presence: true, Children: []*dp.SNode{{Kind: dp.Leaf, Name: "q", Type: str()}}},
		}},
		{Kind: dp.Choice, Name: "ch", Children: []*dp.SNode{
			{Kind: dp.Case, Name: "c1", Children: []*dp.SNode{{Kind: dp.Leaf, Name: "p1", Type: str()}, {Kind: dp.Leaf, Name: "p2", Type: str()}}},
			{Kind: dp.Case, Name: "c2", Children: []*dp.SNode{{Kind: dp.Leaf, Name: "r1", Type: str()}, {Kind: dp.Container, Name: "rc", Children: []*dp.SNode{{Kind: dp.Leaf, Name: "s", Type: str()}}}}},
			// a choice nested in a case, neither first nor last of the case's definitions
			{Kind: dp.Case, Name: "c3", Children: []*dp.SNode{{Kind: dp.Leaf, Name: "ta", Type: str()},
				{Kind: dp.Choice, Name: "inner", Children: []*dp.SNode{
					{Kind: dp.Case, Name: "i1", Children: []*dp.SNode{{Kind: dp.Leaf, Name: "u1", Type: str()}}},
					{Kind: dp.Case, Name: "i2", Children: []*dp.SNode{{Kind: dp.Leaf, Name: "u2", Type: i32()}, {Kind: dp.Container, Name: "uc", Children: []*dp.SNode{{Kind: dp.Leaf, Name: "uu", Type: str()}}}}},
				}},
				{Kind: dp.Leaf, Name: "tz", Type: str()}}},
		}},
		{Kind: dp.Leaf, Name: "top", Type: str()},
	}
	return s
}

type c12Scenario struct {
	s     *dp.Schema
	t     *dp.DNode
	op    string // upsert insert update delete replace
	kind  string // root container list entry
	path  dp.DPath
	src   *dp.DNode // source holder (root-shaped for root; node for container/entry; holder with list for list)
	lname string
}

// ids of the nodes S touches below the edit root, relative to rootID (same identity scheme as dp.Rec).
func touchedIDs(d *dp.DNode, base string, out map[string]bool) {
	for n, k := range d.Kids {
		out[base+"/"+n] = true
		touchedIDs(k, base+"/"+n, out)
	}
	for n, l := range d.Lists {
		out[base+"/"+n] = true
		for _, e := range l.Entries {
			id := base + "/" + n + "[" + strings.Join(e.Key(), ",") + "]"
			out[id] = true
			touchedIDs(e, id, out)
		}
	}
}

func idOfPath(p dp.DPath) string {
	id := ""
	for _, st := range p {
		id += "/" + st.Name
		if st.Key != nil {
			id += "[" + strings.Join(st.Key, ",") + "]"
		}
	}
	return id
}

func ancestorsOf(p dp.DPath) map[string]bool {
	out := map[string]bool{"/": true}
	for i := 1; i <= len(p); i++ {
		out[idOfPath(p[:i])] = true
		// a list entry step has the list node as an extra ancestor
		last := p[i-1]
		if last.Key != nil {
			out[idOfPath(p[:i-1])+"/"+last.Name] = true
		}
	}
	return out
}

func (p c12) build(c *core.Ctx, idx int) *c12Scenario {
	r := c.Rand
	var s *dp.Schema
	if idx%3 == 2 {
		o := dp.DefaultGen()
		o.MaxDepth = 3
		o.MaxChildren = 3
		o.KeyTypes = []string{"string", "int32"}
		o.CompoundKeys = false
		o.Choices = idx%2 == 0
		s = dp.GenSchema(r, o)
	} else {
		s = c12Schema()
	}
	if err := s.Compile(); err != nil {
		c.R.Inconclusive = "schema does not compile: " + head(err.Error(), 200)
		return nil
	}
	do := dp.DefaultData()
	do.MaxEntries = 1 + r.Intn(3)
	do.PKid, do.PSet = 0.8, 0.7
	t := dp.GenTree(r, s, do)
	sc := &c12Scenario{s: s, t: t}
	sc.op = []string{"upsert", "insert", "update", "delete", "replace", "upsert"}[idx%6]
	// entry point
	type ent struct {
		kind string
		path dp.DPath
	}
	ents := []ent{}
	for _, pth := range t.AllPaths() {
		if !plainKeys(pth) {
			continue
		}
		n, l, _ := t.Resolve(pth)
		k := "container"
		if l != nil {
			k = "list"
		} else if n != nil && pth[len(pth)-1].Key != nil {
			k = "entry"
		}
		ents = append(ents, ent{k, pth})
	}
	want := []string{"root", "container", "list", "entry"}[(idx/6)%4]
	if sc.op == "delete" || sc.op == "replace" {
		if want == "root" {
			want = "entry"
		}
		if sc.op == "replace" && want == "list" {
			want = "container"
		}
	}
	sc.kind = "root"
	if want != "root" {
		var cands []ent
		for _, e := range ents {
			if e.kind == want {
				cands = append(cands, e)
			}
		}
		if len(cands) == 0 {
			if sc.op == "delete" || sc.op == "replace" {
				if len(ents) == 0 {
					return nil
				}
				cands = ents
				if sc.op == "replace" {
					cands = nil
					for _, e := range ents {
						if e.kind != "list" {
							cands = append(cands, e)
						}
					}
					if len(cands) == 0 {
						return nil
					}
				}
			}
		}
		if len(cands) > 0 {
			e := cands[r.Intn(len(cands))]
			sc.kind, sc.path = e.kind, e.path
		}
	}
	// source
	switch sc.kind {
	case "root":
		sc.src = dp.Derive(r, s, t, s.Top, do)
	case "container", "entry":
		mn, _, mparent := t.Resolve(sc.path)
		content := dp.Derive(r, s, mn, mn.S.Children, do)
		if sc.op == "replace" {
			last := sc.path[len(sc.path)-1]
			if sc.kind == "entry" {
				h := dp.NewDNode(nil)
				h.Lists[last.Name] = &dp.DList{S: mn.S, Entries: []*dp.DNode{content}}
				sc.src, sc.lname = h, last.Name
			} else {
				h := dp.NewDNode(mparent.S)
				h.Kids[last.Name] = content
				sc.src = h
			}
		} else {
			sc.src = content
		}
	case "list":
		_, ml, _ := t.Resolve(sc.path)
		tmp := dp.NewDNode(nil)
		tmp.Lists[ml.S.Name] = ml
		d := dp.Derive(r, s, tmp, []*dp.SNode{ml.S}, do)
		if d.Lists[ml.S.Name] == nil {
			d.Lists[ml.S.Name] = &dp.DList{S: ml.S}
		}
		sc.src, sc.lname = d, ml.S.Name
	}
	return sc
}

type c12Run struct {
	rec *dp.Rec
	err error
	pan interface{}
	st  string
}

func (sc *c12Scenario) run(failAt int) *c12Run { return sc.runWith(failAt, false) }

func (sc *c12Scenario) runWith(failAt int, endAlsoFails bool) *c12Run {
	rec := dp.NewRec()
	rec.FailAt = failAt
	rec.EndAlsoFails = endAlsoFails
	target := dp.NewStore(sc.s, sc.t.Clone())
	b := node.NewBrowser(sc.s.Mod, rec.Wrap("tgt", "", target.Node()))
	out := &c12Run{rec: rec}
	srcStore := dp.NewStore(sc.s, nil)
	var srcNode node.Node
	switch {
	case sc.op == "delete":
	case sc.lname != "":
		srcNode = srcStore.ListAt(sc.src, sc.lname)
	case sc.kind == "root":
		srcStore.Root = sc.src
		srcNode = srcStore.Node()
	default:
		srcNode = srcStore.NodeAt(sc.src)
	}
	if srcNode != nil {
		srcNode = rec.Wrap("src", "", srcNode)
	}
	out.pan, out.st = core.Try(func() {
		sel, err := dp.FindSel(b, sc.path)
		if err != nil || sel == nil {
			out.err = fmt.Errorf("verif: entry point not reachable: %v", err)
			return
		}
		rec.Active = true
		switch sc.op {
		case "upsert":
			out.err = sel.UpsertFrom(srcNode)
		case "insert":
			out.err = sel.InsertFrom(srcNode)
		case "update":
			out.err = sel.UpdateFrom(srcNode)
		case "delete":
			out.err = sel.Delete()
		case "replace":
			out.err = sel.ReplaceFrom(srcNode)
		}
		rec.Active = false
	})
	return out
}

func (p c12) Run(c *core.Ctx, idx int) {
	sc := p.build(c, idx)
	if sc == nil {
		c.Count("scenario_not_buildable")
		return
	}
	desc := fmt.Sprintf("%s at %s %q", sc.op, sc.kind, sc.path.String())
	base := sc.run(0)
	if base.pan != nil {
		c.Violate(core.CrashSig(base.pan, base.st), "fault-free %s panicked: %v\n%s", desc, base.pan, core.TrimStack(base.st))
		return
	}
	L := base.rec.Calls
	c.SetSample(map[string]interface{}{"scenario": desc, "source": head(oneLineTree(sc.s, sc.src), 300), "fault_free_trace_len": L, "trace_head": head(base.rec.Trace(), 1500)})
	c.CountN("callbacks_fault_free", L)
	p.checkTrace(c, sc, desc, base, "")
	for k := 1; k <= L; k++ {
		run := sc.run(k)
		if run.rec.FailedSeq < 0 {
			c.Count("fault_position_not_reached")
			continue
		}
		ev := run.rec.Events[run.rec.FailedSeq]
		c.Count("faults_injected")
		c.Count("fault_" + ev.CB + "_" + ev.Side)
		c.Shape("%s/%s/%s/%s/%s", sc.op, sc.kind, ev.CB, ev.Side, posClass(k, L))
		p.checkTrace(c, sc, desc, run, ev.CB+"/"+ev.Side)
		// the same fault followed by failing EndEdit callbacks: every node still hears the end, every error is reported
		// (not for the target's Choose: its error is swallowed, which is the known finding error-lost/Choose/tgt)
		if k%3 == idx%3 && !(ev.CB == "Choose" && ev.Side == "tgt") {
			run2 := sc.runWith(k, true)
			if run2.rec.FailedSeq >= 0 && len(run2.rec.EndErrors) > 0 {
				c.Count("double_faults_injected")
				p.checkTrace(c, sc, desc, run2, ev.CB+"/"+ev.Side+"/ends-fail-too")
			}
		}
	}
}

func posClass(k, l int) string {
	switch {
	case k == 1:
		return "first"
	case k == l:
		return "last"
	case k*2 <= l:
		return "early"
	}
	return "late"
}

func (p c12) checkTrace(c *core.Ctx, sc *c12Scenario, desc string, run *c12Run, fault string) {
	c.Eval()
	rec := run.rec
	wit := func() string {
		return fmt.Sprintf("%s (fault: %s)\nreturned error: %v\nsource: %s\ntarget before:\n%s\ntrace:\n%s", desc, fault, run.err, head(oneLineTree(sc.s, sc.src), 400), sc.t.Dump(sc.s), rec.Trace())
	}
	tag := fault
	if tag == "" {
		tag = "fault-free"
	}
	if run.pan != nil {
		c.Violate(core.CrashSig(run.pan, run.st)+"/"+tag, "%s panicked: %v\n%s\n%s", desc, run.pan, core.TrimStack(run.st), wit())
		return
	}
	// (1) begin / end pairing per target node identity
	type open struct {
		ev dp.Event
	}
	stacks := map[string][]dp.Event{}
	for _, e := range rec.Events {
		if e.CB != "BeginEdit" && e.CB != "EndEdit" {
			continue
		}
		if e.Side == "src" {
			c.Violate("begin-end-to-other-node/source/"+tag, "source node %s received %s\n%s", e.Node, e.CB, wit())
			return
		}
		if e.CB == "BeginEdit" {
			if !strings.HasPrefix(e.Result, "err") {
				stacks[e.Node] = append(stacks[e.Node], e)
			}
			continue
		}
		st := stacks[e.Node]
		if len(st) == 0 {
			c.Violate("end-without-begin/"+tag, "node %s was told an edit ended that it was not (successfully) told began\n%s", e.Node, wit())
			return
		}
		b := st[len(st)-1]
		stacks[e.Node] = st[:len(st)-1]
		if b.New != e.New || b.Delete != e.Delete || b.EditRoot != e.EditRoot {
			c.Violate("begin-end-flags-differ/"+tag, "node %s: begin (new=%v delete=%v root=%v) ended as (new=%v delete=%v root=%v)\n%s", e.Node, b.New, b.Delete, b.EditRoot, e.New, e.Delete, e.EditRoot, wit())
			return
		}
	}
	for id, st := range stacks {
		if len(st) > 0 {
			role := "edited-node"
			if ancestorsOf(sc.path)[id] && id != idOfPath(sc.path) && !(len(sc.path) == 0 && id == "/") {
				role = "ancestor"
			} else if id == idOfPath(sc.path) || (len(sc.path) == 0 && id == "/") {
				role = "edit-root"
			}
			c.Violate("begin-without-end/"+role+"/"+tag, "node %s was told an edit began (seq %d) but never that it ended, before the call returned\n%s", id, st[0].Seq, wit())
			return
		}
	}
	// (2) who may receive begin/end
	allowed := ancestorsOf(sc.path)
	rootID := idOfPath(sc.path)
	switch sc.op {
	case "delete":
	case "replace":
		// replace = delete + insert at the parent: nodes below the parent that the content touches
		parent := idOfPath(sc.path[:len(sc.path)-1])
		if sc.lname != "" {
			parent += "/" + sc.lname
			touchedIDs(sc.src, idOfPath(sc.path[:len(sc.path)-1]), allowed)
		} else {
			touchedIDs(sc.src, parent, allowed)
		}
	default:
		if sc.lname != "" {
			touchedIDs(sc.src, idOfPath(sc.path[:len(sc.path)-1]), allowed)
		} else {
			touchedIDs(sc.src, rootID, allowed)
		}
	}
	// clearing the previous case of a choice deletes nodes of the old case: those are edited nodes too
	caseNodes(sc.t, "", allowed)
	for _, e := range rec.Events {
		if e.CB == "Child" && e.Delete && e.Side == "tgt" {
			allowed[strings.TrimSuffix(e.Node, "/")+"/"+e.Ident] = true
		}
	}
	for _, e := range rec.Events {
		if e.CB == "BeginEdit" || e.CB == "EndEdit" {
			if !allowed[e.Node] {
				c.Violate("begin-end-to-other-node/target/"+tag, "node %s received %s although it is neither edited nor an ancestor of the edit root\n%s", e.Node, e.CB, wit())
				return
			}
			if e.EditRoot && e.Node != rootID && !(rootID == "" && e.Node == "/") && sc.op != "replace" {
				// EditRoot flag only on the edit root itself
				if !(sc.lname != "" && e.Node == idOfPath(sc.path)) {
					c.Count("editroot_flag_on_other_node")
				}
			}
		}
	}
	if rec.FailedSeq < 0 {
		// (2b) without a fault the edit root and each of its ancestors, up to the root of the data, is told
		if run.err == nil {
			told := map[string]bool{}
			for _, e := range rec.Events {
				if e.CB == "BeginEdit" && e.Side == "tgt" {
					told[e.Node] = true
				}
			}
			for id := range ancestorsOf(sc.path) {
				if !told[id] {
					c.Violate("ancestor-not-told/"+tag, "node %s is the edit root or one of its ancestors and was not told the edit began\n%s", id, wit())
					return
				}
			}
		}
		return
	}
	// (3) the injected error surfaces, wrapped
	inj := rec.Events[rec.FailedSeq]
	if run.err == nil {
		c.Violate("error-lost/"+tag, "callback %d (%s on %s %s) failed but the API call returned nil\n%s", rec.FailedSeq, inj.CB, inj.Side, inj.Node, wit())
	} else if !errors.Is(run.err, rec.Sentinel) {
		c.Violate("error-not-wrapped/"+tag, "callback %d (%s on %s %s) failed with the sentinel; the API returned %q which does not wrap it\n%s", rec.FailedSeq, inj.CB, inj.Side, inj.Node, run.err, wit())
	}
	// (3b) so does every error an EndEdit returned afterwards
	for i, ee := range rec.EndErrors {
		if run.err != nil && !errors.Is(run.err, ee) {
			c.Violate("end-error-lost/"+tag, "after the failing callback %d, EndEdit failed as well (%v, %d of %d such); the API returned %q which does not wrap it\n%s", rec.FailedSeq, ee, i+1, len(rec.EndErrors), run.err, wit())
			break
		}
	}
	// (4) no write after the failing call
	for _, e := range rec.Events[rec.FailedSeq+1:] {
		if e.IsWrite() && e.Side == "tgt" {
			c.Violate("write-after-failure/"+tag, "write request %q issued after the failing call %d\n%s", e.String(), rec.FailedSeq, wit())
			break
		}
	}
}

// caseNodes adds the ids of every container / list of t that sits in a case of a choice.
func caseNodes(d *dp.DNode, base string, out map[string]bool) {
	for n, k := range d.Kids {
		if len(k.S.CaseChain()) > 0 {
			out[base+"/"+n] = true
		}
		caseNodes(k, base+"/"+n, out)
	}
	for n, l := range d.Lists {
		if len(l.S.CaseChain()) > 0 {
			out[base+"/"+n] = true
		}
		for _, e := range l.Entries {
			caseNodes(e, base+"/"+n+"["+strings.Join(e.Key(), ",")+"]", out)
		}
	}
}
