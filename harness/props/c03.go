package props

import (
	"errors"
	"fmt"
	"strings"

	"github.com/freeconf/yang/fc"
	"github.com/freeconf/yang/node"
	"github.com/freeconf/yang/nodeutil"

	"verif/core"
	"verif/dp"
)

// C03 — upsert / insert / update are keyed deep merges with defined failures.

type c03 struct{}

func init() { core.Register(c03{}) }

func (c03) ID() string    { return "C03" }
func (c03) Level() string { return "exploration" }
func (c03) Rule() string {
	return "generated schema (no choice/when) + target tree T + source S derived from T (all overlap classes) x strategy {upsert,insert,update} x " +
		"entry point {root,container,list,entry} x direction {From,Into} x source implementation {reference store, JSON reader, XML reader, nodeutil.Reflect / " +
		"nodeutil.Node over Go maps} x target {reference store, nodeutil.Reflect and nodeutil.Node over Go maps, slices and reflect.StructOf structs}; histories " +
		"of 1..6 operations on one target. Oracle: executable model of the statement (dp.Apply) vs the target read directly (DNode tree / package reflect); error class via errors.Is. " +
		"A shape = (strategy, entry kind, direction, source impl, model outcome, overlap fingerprint); trivial = empty S on empty T"
}
func (c03) MinEvals(string) int { return 500 }

func (c03) NumCases(tier string, seed int64) int {
	if tier == "thorough" {
		return 8000
	}
	return 1600
}

type c03entry struct {
	kind string
	path dp.DPath
}

func (p c03) Run(c *core.Ctx, idx int) {
	r := c.Rand
	o := dp.DefaultGen()
	o.MaxDepth = 2 + r.Intn(3)
	o.Presence = idx%4 == 0
	// target store: the reference store (3 of 7) or one of the library's reflection nodes over plain Go values
	storeKind := 0
	if k := (idx / 5) % 7; k >= 3 {
		storeKind = k - 2
	}
	var gm dp.GoMode
	cmp := dp.CmpOpts{}
	if storeKind > 0 {
		gm = dp.GoModes[storeKind-1]
		dp.GoGen(&o, gm)
		o.Defaults = gm.Shape == "map"
		cmp = dp.CmpOpts{IgnoreListOrder: true}
	}
	// every third schema has choices: a source then also has to say which case it holds (a struct field cannot say 'unset', so
	// struct-shaped stores have nothing to detect the case by)
	o.Choices = idx%3 == 1 && (storeKind == 0 || gm.Shape == "map")
	o.NestedChoice = o.Choices && idx%2 == 0
	s := dp.GenSchema(r, o)
	if err := s.Compile(); err != nil {
		c.R.Inconclusive = "generated schema does not compile: " + head(err.Error(), 300)
		return
	}
	if storeKind > 0 {
		if why := dp.GoSupports(s, gm); why != "" {
			c.Count("go_store_schema_outside_domain")
			return
		}
	}
	do := dp.DefaultData()
	do.MaxEntries = 1 + r.Intn(3)
	if idx%5 == 0 {
		do.PKid, do.PSet = 0.2, 0.3 // sparse targets: many creations
	}
	t := dp.GenTree(r, s, do)
	if idx%7 == 0 {
		t = dp.NewDNode(nil)
	}
	model := t.Clone()
	var target c18store
	var ref *dp.Store
	storeName := "reference-store"
	norm := func(d *dp.DNode) *dp.DNode { return d }
	if storeKind == 0 {
		ref = dp.NewStore(s, t)
		target = &c18ref{ref}
	} else {
		target = &c18go{dp.NewGoStore(r, s, gm, t)}
		storeName = gm.String()
		if gm.Shape == "struct" {
			norm = dp.ZeroNormalize
		}
		model = norm(model)
	}
	c.Count("store_" + storeName)
	defer func() { reportHooks(c, target) }()
	nops := 1 + r.Intn(6)
	var history []string
	for op := 0; op < nops; op++ {
		st := dp.Strategy(r.Intn(3))
		// entry point among what the target currently holds
		entries := []c03entry{{kind: "root"}}
		for _, pth := range model.AllPaths() {
			n, l, _ := model.Resolve(pth)
			k := "container"
			if l != nil {
				k = "list"
			} else if n != nil && pth[len(pth)-1].Key != nil {
				k = "entry"
			}
			entries = append(entries, c03entry{k, pth})
		}
		ep := entries[0]
		if r.Intn(3) != 0 {
			ep = entries[r.Intn(len(entries))]
		}
		if storeKind > 0 && r.Intn(3) == 0 {
			// reflection stores: lists are where their representations differ
			var lists []c03entry
			for _, e := range entries {
				if e.kind == "list" {
					lists = append(lists, e)
				}
			}
			if len(lists) > 0 {
				ep = lists[r.Intn(len(lists))]
			}
		}
		from := r.Intn(2) == 0 || ref == nil
		useJSON := r.Intn(3) == 0
		// a reflection node as the source (root entry point only: that is where the harness can hand one out)
		var goSrc *dp.GoMode
		if ep.kind == "root" && r.Intn(3) == 0 {
			// map shapes only: a struct field cannot say "unset", a struct source states the zero value of every leaf
			m := dp.GoModes[r.Intn(2)]
			if dp.GoSupports(s, m) == "" {
				goSrc = &m
			}
		}

		// build the source for that entry point and compute the model outcome on a scratch copy
		var srcTree *dp.DNode // holder tree for the source store
		var srcNode node.Node
		var jsonDoc string
		scratch := model.Clone()
		var outcome dp.OpErr
		srcStore := dp.NewStore(s, nil)
		switch ep.kind {
		case "root":
			srcTree = dp.Derive(r, s, model, s.Top, do)
			srcStore.Root = srcTree
			srcNode = srcStore.Node()
			// half of the documents name their members the RFC 7951 way ("module:name" at the top and where the module changes)
			jsonDoc = dp.EncodeJSON(s, srcTree, dp.JOpts{Int64AsString: r.Intn(2) == 0, Qualify: r.Intn(2) == 0})
			outcome = dp.Apply(s, st, srcTree, scratch, false)
		case "container", "entry":
			mn, _, _ := scratch.Resolve(ep.path)
			srcTree = dp.Derive(r, s, mn, mn.S.Children, do)
			if ep.kind == "entry" {
				// same key: key-changing edits are outside the statement
				for _, kn := range mn.S.Keys {
					srcTree.Leaves[kn] = mn.Leaves[kn].Clone()
				}
			}
			srcNode = srcStore.NodeAt(srcTree)
			qual := r.Intn(2) == 0
			jsonDoc = dp.EncodeJSON(s, srcTree, dp.JOpts{Int64AsString: r.Intn(2) == 0, Qualify: qual, TopBelowRoot: qual})
			outcome = dp.Apply(s, st, srcTree, mn, false)
		case "list":
			_, ml, _ := scratch.Resolve(ep.path)
			holder := dp.NewDNode(nil)
			tmp := dp.NewDNode(nil)
			tmp.Lists[ml.S.Name] = ml
			d := dp.Derive(r, s, tmp, []*dp.SNode{ml.S}, do)
			sl := d.Lists[ml.S.Name]
			if sl == nil {
				sl = &dp.DList{S: ml.S}
			}
			if len(ml.Entries) >= 2 && (r.Intn(3) == 0 || storeKind > 0 && r.Intn(2) == 0) {
				// existing and new entries alternate in one edit: lookups by key and appends interleave in the target
				fresh := dp.NewDNode(nil)
				dp.FillList(r, s, fresh, ml.S, do)
				var news []*dp.DNode
				if fl := fresh.Lists[ml.S.Name]; fl != nil {
					for _, e := range fl.Entries {
						if dup, _ := ml.Find(e.Key()); dup == nil {
							news = append(news, e)
						}
					}
				}
				sl = &dp.DList{S: ml.S}
				for i, e := range ml.Entries {
					sl.Entries = append(sl.Entries, dp.Derive(r, s, e, ml.S.Children, do))
					if i < len(news) {
						if dup, _ := sl.Find(news[i].Key()); dup == nil {
							sl.Entries = append(sl.Entries, news[i])
						}
					}
				}
				c.Count("interleaved_existing_and_new_entries")
			}
			holder.Lists[ml.S.Name] = sl
			srcTree = holder
			srcNode = srcStore.ListAt(holder, ml.S.Name)
			jsonDoc = dp.EncodeJSONList(s, sl, dp.JOpts{Int64AsString: r.Intn(2) == 0})
			outcome = dp.ApplyList(s, st, sl, ml)
		}
		impl := "refstore"
		useXML := !useJSON && goSrc == nil && ep.kind != "list" && r.Intn(4) == 0
		if useXML {
			impl = "xml"
			rootName := s.Mod.Ident()
			if ep.kind != "root" {
				rootName = ep.path[len(ep.path)-1].Name
			}
			doc := dp.EncodeXML(s, rootName, srcTree, nil)
			n, err := nodeutil.ReadXMLDoc(strings.NewReader(doc))
			if err != nil {
				c.Violate("harness/xml-source", "ReadXMLDoc of the reference encoding failed: %v\n%s", err, doc)
				return
			}
			srcNode = n
		} else if goSrc != nil {
			impl = "go-" + goSrc.String()
			srcNode = dp.NewGoStore(r, s, *goSrc, srcTree).Node()
		} else if useJSON {
			impl = "json"
			if len(srcTree.Lists) > 0 || true {
				n, err := nodeutil.ReadJSON(jsonDoc)
				if err != nil {
					c.Violate("harness/json-source", "ReadJSON of the reference encoding failed: %v\n%s", err, jsonDoc)
					return
				}
				srcNode = n
			}
		}
		dir := "Into"
		if from {
			dir = "From"
		}
		desc := fmt.Sprintf("%s%s at %s %q source=%s", st, dir, ep.kind, ep.path.String(), impl)
		history = append(history, desc+" S="+head(oneLineTree(s, srcTree), 300))
		c.Eval()
		c.Shape("%s/%s/%s/%s/%s/%s/%s", st, ep.kind, dir, impl, outcome, overlapClass(srcTree, ep, model), storeName)
		c.Count("op_" + st.String())
		c.Count("entry_" + ep.kind)
		c.Count("model_" + outcome.String())

		var err error
		b := target.Browser()
		panicked := c.Guard(desc, func() {
			var sel *node.Selection
			sel, err = dp.FindSel(b, ep.path)
			if err != nil || sel == nil {
				err = fmt.Errorf("entry point not found: %v", err)
				return
			}
			if from {
				switch st {
				case dp.Upsert:
					err = sel.UpsertFrom(srcNode)
				case dp.Insert:
					err = sel.InsertFrom(srcNode)
				case dp.Update:
					err = sel.UpdateFrom(srcNode)
				}
			} else {
				// the source selection lives in a browser over the source; the target node is handed in
				var tnode node.Node
				switch ep.kind {
				case "root":
					tnode = ref.Node()
				case "list":
					_, _, parent := ref.Root.Resolve(ep.path)
					tnode = ref.ListAt(parent, ep.path[len(ep.path)-1].Name)
				default:
					tn, _, _ := ref.Root.Resolve(ep.path)
					tnode = ref.NodeAt(tn)
				}
				// sel is only used for its schema position; Split() binds srcNode to it
				ssel := sel.Split(srcNode)
				switch st {
				case dp.Upsert:
					err = ssel.UpsertInto(tnode)
				case dp.Insert:
					err = ssel.InsertInto(tnode)
				case dp.Update:
					err = ssel.UpdateInto(tnode)
				}
			}
		})
		wit := func() string {
			return fmt.Sprintf("store: %s %s\nhistory:\n  %s\nschema:\n%starget before this op:\n%s", storeName, target.Describe(), joinLines(history), s.Yang(), model.Dump(s))
		}
		if panicked {
			return
		}
		got := dp.ErrClass(err, errors.Is, fc.ConflictError, fc.NotFoundError)
		sigBase := fmt.Sprintf("%s/%s", st, ep.kind)
		if got != outcome {
			gs := "other-error"
			if got >= 0 {
				gs = got.String()
			}
			c.Violate("outcome/"+sigBase+"/model-"+outcome.String()+"-lib-"+gs+storeSig(storeName), "%s: model says %s, library returned %v\n%s", desc, outcome, err, wit())
			return
		}
		for _, pr := range target.Problems() {
			c.Violate("protocol/"+sigBase, "%s: %s\n%s", desc, pr, wit())
		}
		snap, snapErr := target.Snap()
		if snapErr != nil {
			c.Violate("store-corrupt/"+sigBase+storeSig(storeName), "%s: the Go values no longer denote a tree of the schema: %v\n%s", desc, snapErr, wit())
			return
		}
		if outcome == dp.OK {
			model = norm(scratch)
			stepCmp := cmp
			if goSrc != nil {
				// a keyed Go map hands its entries out in key order, not in the order the source tree lists them: new entries
				// arrive in that order
				stepCmp.IgnoreListOrder = true
			}
			if d := dp.Diff(s, model, snap, stepCmp); d != "" {
				c.Violate("result/"+sigBase+"/"+diffClass(d)+storeSig(storeName), "%s: target differs from the keyed deep merge:\n%s\n%s\nactual target:\n%s", desc, d, wit(), snap.Dump(s))
				return
			}
			if goSrc != nil && !cmp.IgnoreListOrder {
				// go on from the order the entries actually arrived in
				model = norm(snap.Clone())
			}
		} else {
			// failed as specified; the statement defines no rollback: continue from the store's actual content
			model = snap.Clone()
		}
	}
	c.SetSample(map[string]interface{}{"yang": head(s.Yang(), 1500), "history": history})
}

func joinLines(l []string) string {
	out := ""
	for i, x := range l {
		if i > 0 {
			out += "\n  "
		}
		out += x
	}
	return out
}

func oneLineTree(s *dp.Schema, d *dp.DNode) string {
	out := ""
	for _, ch := range d.Dump(s) {
		if ch == '\n' {
			out += "; "
		} else {
			out += string(ch)
		}
	}
	return out
}

func overlapClass(src *dp.DNode, ep c03entry, model *dp.DNode) string {
	sl, sc, se := src.Count()
	tl, tc, te := model.Count()
	z := func(n int) string {
		if n == 0 {
			return "0"
		}
		if n < 4 {
			return "few"
		}
		return "many"
	}
	return "S" + z(sl) + z(sc) + z(se) + "T" + z(tl) + z(tc) + z(te)
}
