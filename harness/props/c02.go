package props

import (
	"fmt"
	"io"
	"sort"
	"strings"

	"github.com/freeconf/yang/meta"
	"github.com/freeconf/yang/parser"

	"verif/core"
	"verif/walk"
)

// C02 — every leaf's effective type is the RFC 7950 derivation of its type statement.

type c02 struct{}

func init() { core.Register(c02{}) }

func (c02) ID() string    { return "C02" }
func (c02) Level() string { return "exploration" }
func (c02) Rule() string {
	return "type expressions over all built-in types: typedef chains of depth 0..4 with each level in a PRNG-chosen scope (module, container local to an " +
		"ancestor, submodule, imported module by prefix, own prefix), restrictions (range / length / pattern) distributed over the levels, default and units " +
		"stated at any subset of levels and/or on the leaf; enumerations and bits with mixed explicit / automatic values; unions (2..4 members incl. " +
		"typedef'd and enum members); leafrefs (relative / absolute, forward references, into lists, leafref to leafref, into an imported module); identity " +
		"DAGs with several bases across modules; the leaf sits in a grouping used 1..4 times. Oracle: field-wise comparison of every expansion with the " +
		"effective type computed by the generator (RFC 7950 9.6.4.2 / 9.7.4.2 numbering, nearest default/units, derived closure of identities). " +
		"A shape = (family, base type, chain depth, scopes, which levels state default/units, reuse count)"
}
func (c02) MinEvals(string) int { return 500 }

func (c02) NumCases(tier string, seed int64) int {
	if tier == "thorough" {
		return 40000
	}
	return 1500
}

type mods2 struct {
	main, sub, imp strings.Builder
	local          strings.Builder // typedefs local to the container holding the leaf / grouping
}

func c02load(mods map[string]string) (*meta.Module, error) {
	opener := func(name, ext string) (io.Reader, error) {
		if t, ok := mods[name]; ok {
			return strings.NewReader(t), nil
		}
		return nil, nil
	}
	return parser.LoadModule(opener, "m")
}

// expected effective type of the leaf under test
type eff2 struct {
	format          string
	ranges          []string
	lengths         []string
	patterns        []string
	nearestPatterns []string // patterns of the outermost level stating any
	fd              int
	dflt            string // "" = none
	units           string
	enums           [][2]string // label, value
	bits            [][2]string
	union           []string
	resolved        string   // leafref target format
	idents          []string // closure per base, flattened and sorted
	unionIdents     []string // same for the identityref members of a union
}

func leafDumps(m *meta.Module, leafName string) []map[string]interface{} {
	d, _ := walk.Dump(m)
	var generic interface{}
	jsonUnmarshal(walk.JSON(d), &generic)
	var out []map[string]interface{}
	var rec func(v interface{})
	rec = func(v interface{}) {
		switch x := v.(type) {
		case map[string]interface{}:
			if x["ident"] == leafName && x["type"] != nil {
				out = append(out, x)
			}
			// deterministic order: children, then cases, actions...
			if ch, ok := x["children"].([]interface{}); ok {
				for _, c := range ch {
					rec(c)
				}
			}
			if cs, ok := x["cases"].(map[string]interface{}); ok {
				var names []string
				for n := range cs {
					names = append(names, n)
				}
				sort.Strings(names)
				for _, n := range names {
					rec(cs[n])
				}
			}
		}
	}
	rec(generic)
	return out
}

func strList(v interface{}, key string) []string {
	var out []string
	l, _ := v.([]interface{})
	for _, x := range l {
		if m, ok := x.(map[string]interface{}); ok {
			out = append(out, fmt.Sprint(m[key]))
		}
	}
	return out
}

func sortedCopy(s []string) []string {
	c := []string{}
	for _, x := range s {
		// "1 | 5..6" and "1|5..6" are the same restriction
		c = append(c, strings.ReplaceAll(x, " ", ""))
	}
	sort.Strings(c)
	return c
}

func (p c02) compare(c *core.Ctx, fam string, want eff2, leaves []map[string]interface{}, nExp int, text string, sigExtra string) {
	if len(leaves) != nExp {
		c.Violate(fam+"/expansion-count", "expected %d expansions of the leaf, the compiled tree has %d\n%s", nExp, len(leaves), text)
		return
	}
	for i, lf := range leaves {
		c.Eval()
		t, _ := lf["type"].(map[string]interface{})
		which := "first-expansion"
		if i > 0 {
			which = "later-expansion"
		}
		bad := func(field, format string, a ...interface{}) {
			c.Violate(fam+"/"+field+"/"+which+sigExtra, "expansion %d of %d: "+format+"\n%s", append([]interface{}{i + 1, nExp}, append(a, text)...)...)
		}
		if want.format != "" && fmt.Sprint(t["format"]) != want.format {
			bad("format", "format is %v, want %s", t["format"], want.format)
		}
		if want.ranges != nil {
			got := sortedCopy(strList(t["range"], "s"))
			if strings.Join(got, ";") != strings.Join(sortedCopy(want.ranges), ";") {
				bad("range", "ranges are %v, want the ranges of every level %v", got, want.ranges)
			}
		}
		if want.lengths != nil {
			got := sortedCopy(strList(t["length"], "s"))
			if strings.Join(got, ";") != strings.Join(sortedCopy(want.lengths), ";") {
				bad("length", "lengths are %v, want %v", got, want.lengths)
			}
		}
		if want.patterns != nil {
			got := sortedCopy(strList(t["patterns"], "pattern"))
			if strings.Join(got, ";") != strings.Join(sortedCopy(want.patterns), ";") {
				if want.nearestPatterns != nil && strings.Join(got, ";") == strings.Join(sortedCopy(want.nearestPatterns), ";") {
					// exactly the patterns of the outermost level stating any: the base type's were dropped
					c.Violate("chain/pattern/base-patterns-dropped", "expansion %d of %d: patterns are %v - those of the nearest level only - want the patterns of every level %v\n%s", i+1, nExp, got, want.patterns, text)
				} else {
					bad("pattern", "patterns are %v, want the patterns of every level %v", got, want.patterns)
				}
			}
		}
		if want.fd != 0 && fmt.Sprint(t["fraction-digits"]) != fmt.Sprint(want.fd) {
			bad("fraction-digits", "fraction-digits is %v, want %d", t["fraction-digits"], want.fd)
		}
		hasD, _ := lf["has-default"].(bool)
		gotD := ""
		if hasD {
			gotD = fmt.Sprint(lf["default"])
		}
		if gotD != want.dflt {
			bad("default", "default is %q (has-default=%v), want %q", gotD, hasD, want.dflt)
		}
		if fmt.Sprint(lf["units"]) != want.units {
			bad("units", "units are %q, want %q", lf["units"], want.units)
		}
		if want.enums != nil {
			var got [][2]string
			l, _ := t["enum"].([]interface{})
			for _, x := range l {
				m := x.(map[string]interface{})
				got = append(got, [2]string{fmt.Sprint(m["label"]), fmt.Sprint(m["id"])})
			}
			if fmt.Sprint(got) != fmt.Sprint(want.enums) {
				bad("enum-values", "enum (label,value) pairs are %v, want %v", got, want.enums)
			}
		}
		if want.bits != nil {
			var got [][2]string
			l, _ := t["bits"].([]interface{})
			for _, x := range l {
				m := x.(map[string]interface{})
				got = append(got, [2]string{fmt.Sprint(m["ident"]), fmt.Sprint(m["position"])})
			}
			if fmt.Sprint(got) != fmt.Sprint(want.bits) {
				bad("bit-positions", "bit (name,position) pairs are %v, want %v", got, want.bits)
			}
		}
		if want.union != nil {
			got := strList(t["union"], "format")
			if strings.Join(got, ";") != strings.Join(want.union, ";") {
				bad("union-members", "union member formats are %v, want %v", got, want.union)
			}
		}
		if want.unionIdents != nil {
			var got []string
			ul, _ := t["union"].([]interface{})
			for _, u := range ul {
				um, _ := u.(map[string]interface{})
				l, _ := um["base"].([]interface{})
				for _, x := range l {
					cl, _ := x.(map[string]interface{})["closure"].([]interface{})
					for _, n := range cl {
						got = append(got, fmt.Sprint(n))
					}
				}
			}
			if strings.Join(sortedCopy(got), ";") != strings.Join(sortedCopy(want.unionIdents), ";") {
				bad("union-identity-closure", "identities accepted by the union's identityref member are %v, want %v", got, want.unionIdents)
			}
		}
		if want.resolved != "" {
			r, _ := t["resolved"].(map[string]interface{})
			if r == nil || fmt.Sprint(r["format"]) != want.resolved {
				var gf interface{}
				if r != nil {
					gf = r["format"]
				}
				bad("leafref-target", "leafref resolves to format %v, want %s", gf, want.resolved)
			}
		}
		if want.idents != nil {
			var got []string
			l, _ := t["base"].([]interface{})
			for _, x := range l {
				m := x.(map[string]interface{})
				cl, _ := m["closure"].([]interface{})
				for _, n := range cl {
					got = append(got, fmt.Sprint(n))
				}
			}
			got = sortedCopy(got)
			if strings.Join(got, ";") != strings.Join(sortedCopy(want.idents), ";") {
				bad("identity-closure", "identities accepted are %v, want %v", got, want.idents)
			}
		}
	}
}

func (p c02) Run(c *core.Ctx, idx int) {
	switch idx % 7 {
	case 6:
		p.lexical(c, idx)
	case 0, 1:
		p.chains(c, idx)
	case 2:
		p.enums(c, idx)
	case 3:
		p.unions(c, idx)
	case 4:
		p.leafrefs(c, idx)
	case 5:
		p.identities(c, idx)
	}
}

// wrapReuse places the leaf definition text in a grouping used n times (n == 0: directly at module level).
func wrapReuse(leafText string, n int, localTypedefs string) (body string, expansions int) {
	if n == 0 {
		return "  container holder {\n" + localTypedefs + leafText + "  }\n", 1
	}
	var b strings.Builder
	b.WriteString("  grouping gr {\n" + localTypedefs + leafText + "  }\n")
	for i := 0; i < n; i++ {
		fmt.Fprintf(&b, "  container c%d { uses gr; }\n", i)
	}
	return b.String(), n
}

func scopeClass(s string) string {
	set := map[rune]bool{}
	for _, r := range s {
		set[r] = true
	}
	var out []string
	for r := range set {
		out = append(out, string(r))
	}
	sort.Strings(out)
	return strings.Join(out, "")
}

func (p c02) enums(c *core.Ctx, idx int) {
	r := c.Rand
	n := 2 + r.Intn(5)
	bits := idx%14 >= 7
	var names []string
	var vals []int // -1 = not stated
	for i := 0; i < n; i++ {
		names = append(names, fmt.Sprintf("e%d", i))
		switch r.Intn(4) {
		case 0:
			vals = append(vals, r.Intn(20))
		case 1:
			vals = append(vals, 0)
		default:
			vals = append(vals, -1)
		}
	}
	// explicit values must be unique and, for the automatic ones to be legal, assigned values unique too
	used := map[int]bool{}
	highest := -1
	var want [][2]string
	legal := true
	for i := range names {
		v := vals[i]
		if v < 0 {
			v = highest + 1
		}
		if used[v] {
			legal = false
		}
		used[v] = true
		if v > highest {
			highest = v
		}
		want = append(want, [2]string{names[i], fmt.Sprint(v)})
	}
	if !legal {
		c.Count("enum_case_skipped_duplicate_values")
		return
	}
	var tb strings.Builder
	kw, sub, vk := "enumeration", "enum", "value"
	if bits {
		kw, sub, vk = "bits", "bit", "position"
	}
	fmt.Fprintf(&tb, "type %s {", kw)
	for i, nm := range names {
		if vals[i] >= 0 {
			fmt.Fprintf(&tb, " %s %s { %s %d; }", sub, nm, vk, vals[i])
		} else {
			fmt.Fprintf(&tb, " %s %s;", sub, nm)
		}
	}
	tb.WriteString(" }")
	viaTypedef := r.Intn(2) == 0
	reuse := r.Intn(4)
	leaf := "    leaf x { " + tb.String() + " }\n"
	td := ""
	restricted := false
	if viaTypedef {
		td = "  typedef et { " + tb.String() + " }\n"
		leaf = "    leaf x { type et; }\n"
		if r.Intn(3) == 0 && len(names) > 2 {
			// YANG 1.1: a derived type may name a subset of the enums / bits, which keep the values of the base type
			restricted = true
			var keep [][2]string
			var sb strings.Builder
			for i := range names {
				if i != 0 && r.Intn(2) == 0 || i == len(names)-1 {
					keep = append(keep, want[i])
					fmt.Fprintf(&sb, " %s %s;", sub, names[i])
				}
			}
			want = keep
			leaf = "    leaf x { type et {" + sb.String() + " } }\n"
		}
	}
	body, nExp := wrapReuse(leaf, reuse, "")
	text := "module m {\n  namespace \"urn:m\";\n  prefix m;\n  revision 2020-01-01;\n" + td + body + "}\n"
	pattern := ""
	for _, v := range vals {
		switch {
		case v < 0:
			pattern += "a"
		case v == 0:
			pattern += "0"
		default:
			pattern += "x"
		}
	}
	c.SetSample(map[string]interface{}{"family": kw, "text": text})
	c.Shape("%s/%s/typedef=%v/reuse%d", kw, pattern, viaTypedef, reuse)
	var m *meta.Module
	var err error
	if c.Guard("load", func() { m, err = c02load(map[string]string{"m": text}) }) {
		return
	}
	if err != nil {
		c.Violate(kw+"/load-error", "%v\n%s", err, text)
		return
	}
	w := eff2{format: kw[:len(kw)-0]}
	w.format = map[string]string{"enumeration": "enumeration", "bits": "bits"}[kw]
	if bits {
		w.bits = want
	} else {
		w.enums = want
	}
	cls := "/ascending"
	for i := 1; i < len(vals); i++ {
		if vals[i] >= 0 && vals[i-1] >= 0 && vals[i] < vals[i-1] {
			cls = "/descending-explicit"
		}
	}
	for _, v := range vals {
		if v == 0 {
			cls += "/explicit-zero"
			break
		}
	}
	if restricted {
		cls = "/restricted-in-derived-type"
	}
	p.compare(c, kw, w, leafDumps(m, "x"), nExp, text, cls)
}

func (p c02) unions(c *core.Ctx, idx int) {
	r := c.Rand
	members := []struct{ text, format, td string }{
		{"type int32;", "int32", ""},
		{"type string;", "string", ""},
		{"type boolean;", "boolean", ""},
		{"type uint8 { range \"1..10\"; }", "uint8", ""},
		{"type enumeration { enum a; enum b; }", "enumeration", ""},
		{"type ut1;", "int64", "  typedef ut1 { type int64; }\n"},
		{"type ut2;", "string", "  typedef ut2 { type string { length \"1..3\"; } }\n"},
		{"type decimal64 { fraction-digits 1; }", "decimal64", ""},
	}
	n := 2 + r.Intn(3)
	var mt, tds strings.Builder
	var want []string
	for i := 0; i < n; i++ {
		m := members[r.Intn(len(members))]
		mt.WriteString(" " + m.text)
		if !strings.Contains(tds.String(), m.td) {
			tds.WriteString(m.td)
		}
		want = append(want, m.format)
	}
	list := r.Intn(4) == 0
	utype := "type union {" + mt.String() + " }"
	via := r.Intn(2) == 0
	kw := "leaf"
	if list {
		kw = "leaf-list"
	}
	leaf := fmt.Sprintf("    %s x { %s }\n", kw, utype)
	if via {
		tds.WriteString("  typedef un { " + utype + " }\n")
		leaf = fmt.Sprintf("    %s x { type un; }\n", kw)
	}
	reuse := r.Intn(4)
	body, nExp := wrapReuse(leaf, reuse, "")
	text := "module m {\n  namespace \"urn:m\";\n  prefix m;\n  revision 2020-01-01;\n" + tds.String() + body + "}\n"
	c.SetSample(map[string]interface{}{"family": "union", "text": text})
	c.Shape("union/%s/typedef=%v/reuse%d/list=%v", strings.Join(want, ","), via, reuse, list)
	var m *meta.Module
	var err error
	if c.Guard("load", func() { m, err = c02load(map[string]string{"m": text}) }) {
		return
	}
	if err != nil {
		c.Violate("union/load-error", "%v\n%s", err, text)
		return
	}
	f := "union"
	if list {
		f = "union-list"
		for i := range want {
			want[i] += "-list"
		}
	}
	p.compare(c, "union", eff2{format: f, union: want}, leafDumps(m, "x"), nExp, text, "")
}

func (p c02) leafrefs(c *core.Ctx, idx int) {
	r := c.Rand
	targets := []struct{ typ, format string }{{"type int32;", "int32"}, {"type string;", "string"}, {"type tt;", "uint16"}, {"type enumeration { enum a; }", "enumeration"}, {"type boolean;", "boolean"}}
	t := targets[r.Intn(len(targets))]
	variant := r.Intn(17)
	var body, extra string
	mods := map[string]string{}
	nExp := 1
	name := "x"
	switch variant {
	case 0: // relative, target before
		body = fmt.Sprintf("  container c { leaf tgt { %s } leaf x { type leafref { path \"../tgt\"; } } }\n", t.typ)
	case 1: // relative, forward reference
		body = fmt.Sprintf("  container c { leaf x { type leafref { path \"../tgt\"; } } leaf tgt { %s } }\n", t.typ)
	case 2: // absolute into a list
		body = fmt.Sprintf("  list l { key k; leaf k { type string; } leaf tgt { %s } }\n  container c { leaf x { type leafref { path \"/l/tgt\"; } } }\n", t.typ)
	case 3: // leafref to leafref
		body = fmt.Sprintf("  container c { leaf tgt { %s } leaf mid { type leafref { path \"../tgt\"; } } leaf x { type leafref { path \"../mid\"; } } }\n", t.typ)
	case 4: // through a typedef and a grouping used twice
		extra = "  typedef lr { type leafref { path \"../tgt\"; } }\n"
		body = fmt.Sprintf("  grouping g { leaf tgt { %s } leaf x { type lr; } }\n  container c0 { uses g; }\n  container c1 { uses g; }\n", t.typ)
		nExp = 2
	case 6: // out of a case: choice and case are not steps of the data path
		body = fmt.Sprintf("  container c { leaf tgt { %s } choice ch { case one { leaf x { type leafref { path \"../tgt\"; } } } case two { leaf other { type string; } } } }\n", t.typ)
	case 7: // between two cases' members and from a nested choice
		body = fmt.Sprintf("  container c { choice ch { case one { leaf tgt { %s } choice inner { case i1 { leaf x { type leafref { path \"../tgt\"; } } } } } } }\n", t.typ)
	case 8: // two levels up from inside a case of a nested container
		body = fmt.Sprintf("  container c { leaf tgt { %s } container d { choice ch { leaf x { type leafref { path \"../../tgt\"; } } } } }\n", t.typ)
	case 9: // one grouping, two places, the path leads to leaves of different types
		body = "  grouping g { container i { leaf x { type leafref { path \"../../tgt\"; } } } }\n" +
			"  container c0 { leaf tgt { type int32; } uses g; }\n  container c1 { leaf tgt { type string; } uses g; }\n"
		nExp = 2
	case 10: // from a case of a choice that is in a case of another choice, to a sibling of the outer choice
		body = fmt.Sprintf("  container c { leaf tgt { %s } choice ch { case one { choice inner { case i1 { leaf x { type leafref { path \"../tgt\"; } } } case i2 { leaf o2 { type string; } } } } case two { leaf o3 { type string; } } } }\n", t.typ)
	case 11: // the same with shorthand cases and three choice levels, a leaf-list through a typedef
		extra = "  typedef lr { type leafref { path \"../tgt\"; } }\n"
		body = fmt.Sprintf("  container c { choice ch { choice mid { choice inner { leaf-list x { type lr; } } } } leaf tgt { %s } }\n", t.typ)
	case 12: // two levels up, the inner level through two choices
		body = fmt.Sprintf("  container c { leaf tgt { %s } container d { choice ch { case one { choice inner { leaf x { type leafref { path \"../../tgt\"; } } } } } } }\n", t.typ)
	case 13: // a typedef'd leafref in a grouping: the path is the typedef's, where it leads depends on the use
		extra = "  typedef lr { type leafref { path \"../tgt\"; } }\n"
		body = "  grouping g { leaf x { type lr; } }\n" +
			"  container c0 { leaf tgt { type int32; } uses g; }\n  container c1 { leaf tgt { type string; } uses g; }\n"
		nExp = 2
	case 14: // a leafref that is a member of a typedef's union: resolved for each leaf that uses the typedef
		extra = "  typedef ul { type union { type leafref { path \"../tgt\"; } type decimal64 { fraction-digits 1; } } }\n"
		if r.Intn(2) == 0 {
			extra += "  typedef ul2 { type ul; }\n"
			body = "  container c0 { leaf tgt { type int32; } leaf x { type ul2; } }\n  container c1 { leaf tgt { type string; } leaf x { type ul2; } }\n"
		} else {
			body = "  container c0 { leaf tgt { type int32; } leaf x { type ul; } }\n  container c1 { leaf tgt { type string; } leaf x { type ul; } }\n"
		}
		nExp = 2
	case 16: // a grouping leaf whose union has a member that names a typedef of a leafref: resolved for each use of the grouping
		extra = "  typedef lr { type leafref { path \"../tgt\"; } }\n"
		body = "  grouping g { leaf x { type union { type lr; type decimal64 { fraction-digits 1; } } } }\n" +
			"  container c0 { leaf tgt { type int32; } uses g; }\n  container c1 { leaf tgt { type string; } uses g; }\n"
		nExp = 2
	case 15: // in a grouping of an imported module: the prefix of the path is that module's, under which this module imports another one
		tt := t.typ
		if strings.Contains(tt, "tt;") {
			tt = "type uint16;"
		}
		mods["tgtmod"] = fmt.Sprintf("module tgtmod {\n  namespace \"urn:tgtmod\";\n  prefix tm;\n  revision 2020-01-01;\n  leaf tgt { %s }\n}\n", tt)
		mods["decoy"] = "module decoy {\n  namespace \"urn:decoy\";\n  prefix dc;\n  revision 2020-01-01;\n  leaf tgt { type binary; }\n}\n"
		mods["lib"] = "module lib {\n  namespace \"urn:lib\";\n  prefix lib;\n  import tgtmod { prefix t; }\n  revision 2020-01-01;\n" +
			"  grouping g { leaf x { type leafref { path \"/t:tgt\"; } } }\n}\n"
		extra = "  import lib { prefix l; }\n  import decoy { prefix t; }\n"
		body = "  container c { uses l:g; }\n"
	case 5: // into an imported module
		tt := t.typ
		if strings.Contains(tt, "tt;") {
			tt = "type uint16;"
		}
		mods["imp"] = fmt.Sprintf("module imp {\n  namespace \"urn:imp\";\n  prefix imp;\n  revision 2020-01-01;\n  leaf tgt { %s }\n}\n", tt)
		extra = "  import imp { prefix imp; }\n"
		body = "  container c { leaf x { type leafref { path \"/imp:tgt\"; } } }\n"
	}
	td := "  typedef tt { type uint16; }\n"
	hdr := "module m {\n  namespace \"urn:m\";\n  prefix m;\n"
	if variant == 5 || variant == 15 {
		hdr += extra
		extra = ""
	}
	text := hdr + "  revision 2020-01-01;\n" + td + extra + body + "}\n"
	mods["m"] = text
	all := text
	for _, other := range []string{"imp", "lib", "tgtmod", "decoy"} {
		if mods[other] != "" {
			all += "--- " + other + " ---\n" + mods[other]
		}
	}
	c.SetSample(map[string]interface{}{"family": "leafref", "text": all})
	c.Shape("leafref/v%d/%s", variant, t.format)
	var m *meta.Module
	var err error
	if c.Guard("load", func() { m, err = c02load(mods) }) {
		return
	}
	vname := []string{"relative", "forward", "absolute-into-list", "leafref-to-leafref", "typedef-in-grouping-x2", "imported-module", "out-of-a-case", "inside-nested-choice", "two-up-from-a-case", "grouping-used-at-two-target-types", "out-of-two-choice-levels", "out-of-three-shorthand-levels", "two-up-thru-two-choices", "typedef-leafref-at-two-target-types", "leafref-member-of-typedef-union", "prefix-of-the-grouping's-module", "typedef-leafref-member-of-a-grouping-leaf's-union"}[variant]
	if err != nil {
		c.Violate("leafref/load-error/"+vname, "%v\n%s", err, all)
		return
	}
	want := eff2{format: "leafref", resolved: t.format}
	if variant == 3 {
		// x -> mid -> tgt: resolving once gives the leafref mid; its own resolution gives the target
		want.resolved = "leafref"
	}
	if variant == 11 {
		want.format = "leafref-list" // Resolve() gives the type of the target leaf
	}
	if variant == 14 || variant == 16 {
		ld := leafDumps(m, name)
		if len(ld) != 2 {
			c.Violate("leafref/expansion-count", "expected 2 expansions, got %d\n%s", len(ld), all)
			return
		}
		for i, wantFmt := range []string{"int32", "string"} {
			c.Eval()
			t, _ := ld[i]["type"].(map[string]interface{})
			ul, _ := t["union"].([]interface{})
			got := "<no union members>"
			if len(ul) == 2 {
				um, _ := ul[0].(map[string]interface{})
				got = fmt.Sprintf("member format %v", um["format"])
				if rs, _ := um["resolved"].(map[string]interface{}); rs != nil {
					got += fmt.Sprintf(" resolving to %v", rs["format"])
				} else {
					got += " resolving to itself"
				}
			}
			if want := "member format leafref resolving to " + wantFmt; got != want {
				c.Violate("leafref/union-member-target/"+vname, "use %d of the typedef: %s, want %s\n%s", i, got, want, all)
			}
		}
		return
	}
	if variant == 9 || variant == 13 {
		// per expansion
		ld := leafDumps(m, name)
		if len(ld) != 2 {
			c.Violate("leafref/expansion-count", "expected 2 expansions, got %d\n%s", len(ld), all)
			return
		}
		p.compare(c, "leafref", eff2{format: "leafref", resolved: "int32"}, ld[:1], 1, all, "/"+vname)
		p.compare(c, "leafref", eff2{format: "leafref", resolved: "string"}, ld[1:], 1, all, "/"+vname+"/second-use")
		return
	}
	p.compare(c, "leafref", want, leafDumps(m, name), nExp, all, "/"+vname)
}

// lexical: a name is resolved where it is written, not where the definition is used. Both modules define a typedef, an
// identity and a leafref target of the same name with different meanings; sibling containers define local typedefs of the same name.
func (p c02) lexical(c *core.Ctx, idx int) {
	r := c.Rand
	variant := (idx / 7) % 8
	reuse := 1 + r.Intn(3)
	imp := "module imp {\n  namespace \"urn:imp\";\n  prefix imp;\n  revision 2020-01-01;\n" +
		"  typedef t { type string { length \"1..5\"; } default \"imp\"; units \"iu\"; }\n" +
		"  identity base-id;\n  identity ia { base base-id; }\n  identity ib { base ia; }\n"
	main := "module m {\n  namespace \"urn:m\";\n  prefix m;\n  import imp { prefix imp; }\n  revision 2020-01-01;\n" +
		"  typedef t { type int32 { range \"1..5\"; } default \"3\"; units \"mu\"; }\n" +
		"  identity base-id;\n  identity ma { base base-id; }\n"
	var want eff2
	nExp := reuse
	vname := ""
	uses := func() string {
		var b strings.Builder
		for i := 0; i < reuse; i++ {
			fmt.Fprintf(&b, "  container c%d { uses imp:g; }\n", i)
		}
		return b.String()
	}
	switch variant {
	case 0: // typedef named in an imported grouping
		vname = "typedef-in-imported-grouping"
		imp += "  grouping g { leaf x { type t; } }\n"
		main += uses()
		want = eff2{format: "string", lengths: []string{"1..5"}, dflt: "imp", units: "iu"}
	case 1: // identity named in an imported grouping
		vname = "identity-in-imported-grouping"
		imp += "  grouping g { leaf x { type identityref { base base-id; } } }\n"
		main += uses()
		want = eff2{format: "identityref", idents: []string{"base-id", "ia", "ib"}}
	case 2: // typedef of the imported module using another typedef of the imported module
		vname = "typedef-chain-in-imported-module"
		imp += "  typedef t2 { type t { length \"2..3\"; } }\n"
		main += "  grouping g { leaf x { type imp:t2; } }\n"
		for i := 0; i < reuse; i++ {
			main += fmt.Sprintf("  container c%d { uses g; }\n", i)
		}
		want = eff2{format: "string", lengths: []string{"1..5", "2..3"}, dflt: "imp", units: "iu"}
	case 3: // sibling scopes
		vname = "sibling-scopes"
		main += "  container a { typedef lt { type uint8; default \"1\"; } leaf x { type lt; } }\n" +
			"  container b { typedef lt { type string; default \"s\"; } leaf y { type lt; } }\n"
		nExp = 1
		want = eff2{format: "uint8", dflt: "1"}
	case 4: // grouping-local typedef, grouping in the imported module, a same-named typedef where it is used
		vname = "grouping-local-typedef"
		imp += "  grouping g { typedef gt { type boolean; default \"true\"; } leaf x { type gt; } }\n"
		main += "  typedef gt { type int8; default \"7\"; }\n" + uses()
		want = eff2{format: "boolean", dflt: "true"}
	case 5: // identityref typedef of the imported module
		vname = "identityref-typedef-imported"
		imp += "  typedef idt { type identityref { base base-id; } }\n"
		main += "  grouping g { leaf x { type imp:idt; } }\n"
		for i := 0; i < reuse; i++ {
			main += fmt.Sprintf("  container c%d { uses g; }\n", i)
		}
		want = eff2{format: "identityref", idents: []string{"base-id", "ia", "ib"}}
	case 6: // union typedef of the imported module naming the imported module's typedef
		vname = "union-typedef-imported"
		imp += "  typedef un { type union { type t; type boolean; } }\n"
		main += "  grouping g { leaf x { type imp:un; } }\n"
		for i := 0; i < reuse; i++ {
			main += fmt.Sprintf("  container c%d { uses g; }\n", i)
		}
		want = eff2{format: "union", union: []string{"string", "boolean"}}
	case 7: // union in an imported grouping
		vname = "union-in-imported-grouping"
		imp += "  grouping g { leaf x { type union { type t; type identityref { base base-id; } } } }\n"
		main += uses()
		want = eff2{format: "union", union: []string{"string", "identityref"}, unionIdents: []string{"base-id", "ia", "ib"}}
	}
	imp += "}\n"
	main += "}\n"
	mods := map[string]string{"m": main, "imp": imp}
	all := "--- m ---\n" + main + "--- imp ---\n" + imp
	c.SetSample(map[string]interface{}{"family": "lexical", "text": all})
	c.Shape("lexical/%s/reuse%d", vname, reuse)
	var m *meta.Module
	var err error
	if c.Guard("load", func() { m, err = c02load(mods) }) {
		return
	}
	if err != nil {
		c.Violate("lexical/load-error/"+vname, "%v\n%s", err, all)
		return
	}
	p.compare(c, "lexical", want, leafDumps(m, "x"), nExp, all, "/"+vname)
	if variant == 3 {
		p.compare(c, "lexical", eff2{format: "string", dflt: "s"}, leafDumps(m, "y"), 1, all, "/"+vname)
	}
}
