package props

import (
	"fmt"
	"math"
	"math/big"
	"reflect"
	"sort"
	"strings"

	"github.com/freeconf/yang/meta"
	"github.com/freeconf/yang/node"
	"github.com/freeconf/yang/nodeutil"
	"github.com/freeconf/yang/parser"
	"github.com/freeconf/yang/val"

	"verif/core"
)

// Schema-aware half of C10: node.NewValue / NewValuesByString on compiled types (enum, bits, identityref, union, leafref and list forms).
// The expected side is computed from the tables below, never from the library.

const c10yang = `module c10 {
  namespace "urn:c10";
  prefix c;
  revision 2020-01-01;
  identity base-id;
  identity id-a { base base-id; }
  identity id-b { base id-a; }
  identity other;
  typedef en { type enumeration { enum zero; enum one; enum five { value 5; } enum six; enum big { value 2147483647; } } }
  typedef bt { type bits { bit b0; bit b1; bit b5 { position 5; } bit b6; } }
  leaf e { type en; }
  leaf-list el { type en; }
  leaf b { type bt; }
  leaf-list bl { type bt; }
  leaf ir { type identityref { base base-id; } }
  leaf-list irl { type identityref { base base-id; } }
  leaf u { type union { type int8; type enumeration { enum one; enum two; } type string; } }
  leaf u2 { type union { type uint8; type boolean; } }
  leaf u3 { type union { type uint8; type enumeration { enum one; enum two; } } }
  leaf-list ul { type union { type int8; type string; } }
  leaf-list ul2 { type union { type uint8; type boolean; } }
  leaf t8 { type uint8; }
  leaf lr { type leafref { path "../t8"; } }
  leaf lre { type leafref { path "../e"; } }
  leaf-list lrl { type leafref { path "../t8"; } }
  list l {
    key "k1 k2 k3";
    leaf k1 { type int16; }
    leaf k2 { type string; }
    leaf k3 { type enumeration { enum a; enum b; } }
  }
}`

var c10enum = map[string]int64{"zero": 0, "one": 1, "five": 5, "six": 6, "big": 2147483647}
var c10bits = map[string]uint{"b0": 0, "b1": 1, "b5": 5, "b6": 6}
var c10idents = map[string]bool{"base-id": true, "id-a": true, "id-b": true}

var c10mod *meta.Module

func c10module() (*meta.Module, error) {
	if c10mod != nil {
		return c10mod, nil
	}
	m, err := parser.LoadModuleFromString(nil, c10yang)
	if err == nil {
		c10mod = m
	}
	return m, err
}

var c10schemaKinds = []string{"enum", "enum-list", "bits", "bits-list", "identityref", "identityref-list", "union", "union-list", "leafref", "keys", "json-numbers", "go-fields"}

func c10SchemaCases() int { return len(c10schemaKinds) }

func c10leafType(m *meta.Module, name string) *meta.Type {
	return meta.Find(m, name).(meta.Leafable).Type()
}

// integer denotation of a Go value of a numeric kind; ok=false for non-numbers, nil for non-integral / NaN / Inf
func c10num(s interface{}) (n *big.Int, isNum bool) {
	v := reflect.ValueOf(s)
	switch v.Kind() {
	case reflect.Int, reflect.Int8, reflect.Int16, reflect.Int32, reflect.Int64:
		return big.NewInt(v.Int()), true
	case reflect.Uint, reflect.Uint8, reflect.Uint16, reflect.Uint32, reflect.Uint64:
		return new(big.Int).SetUint64(v.Uint()), true
	case reflect.Float32, reflect.Float64:
		f := v.Float()
		if math.IsNaN(f) || math.IsInf(f, 0) || f != math.Trunc(f) {
			return nil, true
		}
		b, _ := new(big.Float).SetFloat64(f).Int(nil)
		return b, true
	}
	return nil, false
}

var c10intSources = []interface{}{0, 1, 5, 6, 2, -1, 7, 2147483647, int64(2147483648), int64(4294967297), int64(4294967296 + 5), int64(-4294967295), uint64(math.MaxUint64), uint64(1 << 32),
	int8(5), int8(-1), uint8(6), uint8(200), int16(1), uint16(5), int32(6), uint32(1), uint32(4294967295), uint(5), int64(1), uint64(6),
	1.0, 5.0, 1.5, 4.999999, 0.0, math.NaN(), 1e20, -1.0, float32(6), float32(0.5), math.Inf(1), 4294967297.0}

// enumOK decides whether enum value r is an exact rendering of source s; must says the source is a natural one that has to convert
func c10enumJudge(s interface{}) (accept func(r val.Enum) bool, must bool, class string) {
	member := func(r val.Enum) bool { id, ok := c10enum[r.Label]; return ok && id == int64(r.Id) }
	switch x := s.(type) {
	case string:
		_, isLabel := c10enum[x]
		var asNum *big.Int
		if intStr.MatchString(x) {
			asNum, _ = new(big.Int).SetString(x, 10)
		}
		return func(r val.Enum) bool {
			return member(r) && (r.Label == x || (asNum != nil && asNum.IsInt64() && asNum.Int64() == int64(r.Id)))
		}, isLabel, "string"
	case val.Enum:
		id, ok := c10enum[x.Label]
		consistent := ok && id == int64(x.Id)
		return func(r val.Enum) bool {
			return member(r) && (r.Label == x.Label || (!consistent && r.Id == x.Id))
		}, consistent, "val.Enum"
	}
	if n, isNum := c10num(s); isNum {
		defined := false
		if n != nil && n.IsInt64() {
			for _, id := range c10enum {
				if id == n.Int64() {
					defined = true
				}
			}
		}
		_, isFloat := s.(float64)
		_, isFloat32 := s.(float32)
		return func(r val.Enum) bool { return member(r) && n != nil && n.IsInt64() && n.Int64() == int64(r.Id) }, defined && !isFloat && !isFloat32, "number"
	}
	return func(r val.Enum) bool { return false }, false, "other"
}

func c10call(c *core.Ctx, tag string, s interface{}, f func() (val.Value, error)) (v val.Value, err error, ok bool) {
	c.Eval()
	pv, st := core.Try(func() { v, err = f() })
	if pv != nil {
		c.Violate("panic/"+tag, "NewValue(%s, %#v) panicked: %v\n%s", tag, s, pv, core.TrimStack(st))
		return nil, nil, false
	}
	if err != nil && v != nil && !reflect.ValueOf(v).IsZero() {
		// typed helpers hand back what they had built so far next to the error; callers test the error
		c.Count("partial_value_next_to_error")
	}
	return v, err, true
}

func c10Schema(c *core.Ctx, k int) {
	m, err := c10module()
	if err != nil {
		c.Violate("schema/load", "the C10 schema does not load: %v", err)
		return
	}
	kind := c10schemaKinds[k]
	c.SetSample(map[string]interface{}{"target": kind, "api": "node.NewValue on compiled types of module c10"})
	switch kind {
	case "enum":
		t := c10leafType(m, "e")
		var srcs []interface{}
		for l := range c10enum {
			srcs = append(srcs, l)
		}
		sort.Slice(srcs, func(i, j int) bool { return srcs[i].(string) < srcs[j].(string) })
		srcs = append(srcs, "Zero", " one", "one ", "", "seven", "1", "5", "2", "05", "+1", "1.0", "2147483647", "4294967297", "-1", true,
			val.Enum{Id: 1, Label: "one"}, val.Enum{Id: 5, Label: "five"}, val.Enum{Id: 1, Label: "five"}, val.Enum{Id: 99, Label: "nope"}, val.Enum{Id: 2147483647, Label: "big"}, []string{"one"})
		srcs = append(srcs, c10intSources...)
		for _, s := range srcs {
			s := s
			c10enumOne(c, "enum", s, func() (val.Value, error) { return node.NewValue(t, s) })
		}
		// through a leafref
		lt := c10leafType(m, "lre")
		for _, s := range []interface{}{"one", "seven", 5, 7, int64(4294967297), val.Enum{Id: 6, Label: "six"}} {
			s := s
			c10enumOne(c, "leafref->enum", s, func() (val.Value, error) { return node.NewValue(lt, s) })
		}
	case "enum-list":
		t := c10leafType(m, "el")
		srcs := []interface{}{
			[]string{"one", "five"}, []string{"zero"}, []string{}, []string{"one", "seven"}, []string{"1", "5"},
			[]interface{}{"one", 5}, []interface{}{"one", "nope"}, []interface{}{1.0, "six"}, []interface{}{int64(4294967297)}, []interface{}{},
			[]int{0, 1, 5}, []int{2}, []int{6, 7}, []int64{1, 5}, []int64{4294967297}, []int32{6}, []uint8{5, 6}, []float64{1, 5}, []float64{1.5},
			val.EnumList{{Id: 1, Label: "one"}, {Id: 6, Label: "six"}}, []val.Enum{{Id: 0, Label: "zero"}}, val.EnumList{{Id: 9, Label: "nine"}}, val.EnumList{},
			"one", "seven", 5, 7, val.Enum{Id: 5, Label: "five"},
		}
		for _, s := range srcs {
			s := s
			tag := "enum-list<-" + kindOf(s)
			v, err, ok := c10call(c, tag, s, func() (val.Value, error) { return node.NewValue(t, s) })
			if !ok {
				continue
			}
			elems, single := c10elems(s)
			must := true
			var judges []func(val.Enum) bool
			for _, e := range elems {
				a, mu, _ := c10enumJudge(e)
				judges = append(judges, a)
				must = must && mu
			}
			if _, isF := s.([]float64); isF {
				must = false
			}
			c.Shape("%s/err=%v/n%d", tag, err != nil, len(elems))
			if err != nil {
				if must && len(elems) > 0 {
					c.Violate("must-convert/"+tag, "NewValue(enum-list, %#v) failed: %v - every element names a defined enum", s, err)
				}
				continue
			}
			if v == nil {
				if len(elems) > 0 {
					c.Violate("nil-nil/"+tag, "NewValue(enum-list, %#v) returned (nil, nil)", s)
				} else {
					c.Count("empty_list_is_nil")
				}
				continue
			}
			l, isList := v.(val.EnumList)
			if !isList {
				c.Violate("wrong-format/"+tag, "NewValue(enum-list, %#v) returned %T", s, v)
				continue
			}
			if len(l) != len(elems) {
				c.Violate("inexact/"+tag+"/length", "NewValue(enum-list, %#v) = %v: %d elements from %d", s, l, len(l), len(elems))
				continue
			}
			for i := range l {
				if !judges[i](l[i]) {
					cls := "element"
					if single {
						cls = "single"
					}
					c.Violate("inexact/"+tag+"/"+cls, "NewValue(enum-list, %#v) = %v: element %d is not the enum the source names", s, l, i)
					break
				}
			}
		}
	case "bits", "bits-list":
		c10Bits(c, m, kind)
	case "identityref", "identityref-list":
		c10Idents(c, m, kind)
	case "union", "union-list":
		c10Unions(c, m, kind)
	case "leafref":
		t := c10leafType(m, "lr")
		p := c10{}
		for _, s := range c10scalarSources() {
			s := s
			p.checkScalar(c, "NewValue(leafref->uint8)", val.FmtUInt8, s, func() (val.Value, error) { return node.NewValue(t, s) })
		}
		tl := c10leafType(m, "lrl")
		for _, s := range []interface{}{[]int{1, 2}, []int{1, 256}, []int{-1}, []string{"1", "255"}, []string{"256"}, []interface{}{1.0, "2"}, []interface{}{1.5}, []float64{300}, []uint8{1, 2}} {
			s := s
			tag := "leafref-list<-" + kindOf(s)
			v, err, ok := c10call(c, tag, s, func() (val.Value, error) { return node.NewValue(tl, s) })
			if !ok || err != nil {
				c.Shape("%s/err", tag)
				continue
			}
			c.Shape("%s/ok", tag)
			elems, _ := c10elems(s)
			l, isList := v.(val.UInt8List)
			if !isList || len(l) != len(elems) {
				c.Violate("inexact/"+tag+"/shape", "NewValue(leafref-list->uint8, %#v) = %#v", s, v)
				continue
			}
			for i, e := range elems {
				d := denoteSrc(e)
				if d.num == nil || !d.num.IsInt() || d.num.Num().Cmp(big.NewInt(int64(l[i]))) != 0 {
					c.Violate("inexact/"+tag+"/element", "NewValue(leafref-list->uint8, %#v) = %v: element %d differs from the source", s, l, i)
				}
			}
		}
	case "keys":
		c10Keys(c, m)
	case "json-numbers":
		c10JSONNumbers(c)
	case "go-fields":
		c10GoFields(c)
	}
}

// a Go struct field or map value of a wider (or named) Go type read as a narrower YANG integer through the reflection nodes: the value
// read is the value held, or the read fails
func c10GoFields(c *core.Ctx) {
	type named int64
	// values of Go types defined in terms of an unsigned type, converted to every integer format: the number held, or an error
	type nu64 uint64
	type nu uint
	type nup uintptr
	type nu16 uint16
	for _, big := range []uint64{0, 1, 65535, 1<<31 - 1, 1 << 31, 1<<63 - 1, 1 << 63, 1<<63 + 1<<31, math.MaxUint64} {
		srcs := map[string]interface{}{"named-uint64": nu64(big), "named-uint": nu(big), "named-uintptr": nup(big)}
		if big <= 65535 {
			srcs["named-uint16"] = nu16(big)
		}
		for sname, src := range srcs {
			for _, f := range []val.Format{val.FmtInt8, val.FmtInt16, val.FmtInt32, val.FmtInt64, val.FmtUInt8, val.FmtUInt16, val.FmtUInt32, val.FmtUInt64, val.FmtInt64List, val.FmtInt32List, val.FmtDecimal64} {
				tag := fmt.Sprintf("named-unsigned/%s<-%s", f, sname)
				for _, wrap := range []string{"plain", "in-slice"} {
					var in interface{} = src
					if wrap == "in-slice" {
						if !f.IsList() {
							continue
						}
						in = []interface{}{src}
					}
					c.Eval()
					c.Shape("%s/%s", tag, wrap)
					var got val.Value
					var gerr error
					if c.Guard(tag, func() { got, gerr = val.Conv(f, in) }) || gerr != nil || got == nil {
						continue
					}
					gotS := got.String()
					if l, isList := got.(val.Listable); isList && l.Len() == 1 {
						gotS = l.Item(0).String()
					}
					if f == val.FmtDecimal64 {
						if fl, ok := got.Value().(float64); ok && fl == float64(big) {
							continue
						}
					}
					if gotS != fmt.Sprint(big) {
						c.Violate("inexact/"+tag, "val.Conv(%s, %T(%d)) = %s", f, src, big, gotS)
					}
				}
			}
		}
	}
	// an item that is not there (nil) among the items of a list: no value of any type
	for _, f := range []val.Format{val.FmtStringList, val.FmtInt32List, val.FmtInt64List, val.FmtUInt8List, val.FmtBoolList, val.FmtDecimal64List, val.FmtBinaryList} {
		for _, first := range []interface{}{"1", 1, true, 1.5} {
			src := []interface{}{first, nil}
			tag := fmt.Sprintf("nil-item/%s", f)
			c.Eval()
			c.Shape("%s/%T", tag, first)
			var got val.Value
			var gerr error
			if c.Guard(tag, func() { got, gerr = val.Conv(f, src) }) || gerr != nil || got == nil {
				continue
			}
			if l, isList := got.(val.Listable); isList && l.Len() >= 2 {
				c.Violate("inexact/"+tag, "val.Conv(%s, %#v) = %v: the item that is not there became %q", f, src, got, l.Item(1).String())
			}
		}
	}
	// the other direction: a YANG integer written into a Go field (or slice item) of a narrower Go type is stored as it is, or refused
	{
		m, err := parser.LoadModuleFromString(nil, `module w { namespace "urn:w"; prefix w; revision 2020-01-01; leaf a { type int32; } leaf b { type uint32; } leaf c { type int64; } leaf-list al { type int32; } }`)
		if err != nil {
			c.Violate("go-fields/load", "%v", err)
			return
		}
		for _, v := range []int64{0, 1, 44, 127, 128, 255, 256, 300, 32767, 32768, 65535, 65536, 70000, -1, -128, -129, -32769, 2147483647} {
			holders := map[string]func() interface{}{
				"int8-field": func() interface{} {
					return &struct {
						A, B, C int8
						Al      []int
					}{}
				},
				"int16-field": func() interface{} {
					return &struct {
						A, B, C int16
						Al      []int
					}{}
				},
				"uint8-field": func() interface{} {
					return &struct {
						A, B, C uint8
						Al      []int
					}{}
				},
				"uint16-field": func() interface{} {
					return &struct {
						A, B, C uint16
						Al      []int
					}{}
				},
				"int8-items": func() interface{} {
					return &struct {
						A, B, C int64
						Al      []int8
					}{}
				},
			}
			for hname, mk := range holders {
				for _, leaf := range []string{"a", "b", "c", "al"} {
					if (leaf == "al") != (hname == "int8-items") || (leaf == "b" && v < 0) {
						continue
					}
					doc := fmt.Sprintf(`{"%s":%d}`, leaf, v)
					if leaf == "al" {
						doc = fmt.Sprintf(`{"al":[1,%d]}`, v)
					}
					// (nodeutil.Node assigns without converting and wants the field to have the very type: not a store for these)
					for _, api := range []string{"reflect"} {
						h := mk()
						var n node.Node
						if api == "reflect" {
							n = nodeutil.ReflectChild(h)
						} else {
							n = &nodeutil.Node{Object: h}
						}
						tag := fmt.Sprintf("go-field-write/%s/%s/%s", hname, leaf, api)
						c.Eval()
						var werr error
						var back string
						if c.Guard(tag, func() {
							src, e := nodeutil.ReadJSON(doc)
							if e != nil {
								werr = e
								return
							}
							b := node.NewBrowser(m, n)
							if werr = b.Root().UpsertFrom(src); werr == nil {
								back, werr = nodeutil.WriteJSON(b.Root())
							}
						}) {
							continue
						}
						c.Shape("%s/accepted=%v", tag, werr == nil)
						if werr != nil {
							continue
						}
						want := fmt.Sprintf(`"%s":%d`, leaf, v)
						if leaf == "al" {
							want = fmt.Sprintf(`"al":[1,%d]`, v)
						}
						if v == 0 && leaf != "al" {
							continue // a zero field reads as unset
						}
						if !strings.Contains(back, want) {
							c.Violate("inexact/"+tag, "%s written into a Go %s was accepted and reads back as %s", doc, hname, back)
						}
					}
				}
			}
		}
	}
	widths := []struct {
		yang   string
		lo, hi int64
	}{{"int8", -128, 127}, {"int16", -32768, 32767}, {"int32", -2147483648, 2147483647}, {"uint8", 0, 255}, {"uint16", 0, 65535}, {"uint32", 0, 4294967295}}
	for _, w := range widths {
		m, err := parser.LoadModuleFromString(nil, fmt.Sprintf(`module g { namespace "urn:g"; prefix g; revision 2020-01-01; leaf a { type %s; } leaf-list al { type %s; } }`, w.yang, w.yang))
		if err != nil {
			c.Violate("go-fields/load", "%v", err)
			return
		}
		for _, v := range []int64{w.lo, w.hi, 0, 1, w.hi + 1, w.lo - 1, w.hi + 6, 1 << 32, 1<<32 + 5, 1<<63 - 1, -1 << 63, -1} {
			holders := map[string]interface{}{
				"struct-int64": &struct{ A int64 }{v},
				"struct-int":   &struct{ A int }{int(v)},
				"struct-named": &struct{ A named }{named(v)},
				"map-int64":    map[string]interface{}{"a": v},
				"map-int":      map[string]interface{}{"a": int(v)},
				"struct-list":  &struct{ Al []int64 }{[]int64{1, v}},
			}
			for hname, h := range holders {
				for _, api := range []string{"reflect", "node"} {
					var n node.Node
					if api == "reflect" {
						n = nodeutil.ReflectChild(h)
					} else {
						n = &nodeutil.Node{Object: h}
					}
					leaf := "a"
					if hname == "struct-list" {
						leaf = "al"
					}
					tag := fmt.Sprintf("go-field/%s/%s/%s", w.yang, hname, api)
					c.Eval()
					c.Shape("%s/in-range=%v", tag, v >= w.lo && v <= w.hi)
					var got val.Value
					var gerr error
					if c.Guard(tag, func() { got, gerr = node.NewBrowser(m, n).Root().GetValue(leaf) }) {
						continue
					}
					in := v >= w.lo && v <= w.hi
					if gerr != nil {
						if in {
							c.Count("go_field_in_range_read_error")
						}
						continue
					}
					if got == nil {
						if v != 0 {
							c.Count("go_field_read_as_unset")
						}
						continue
					}
					gotS := got.String()
					if l, isList := got.(val.Listable); isList {
						if l.Len() != 2 {
							c.Violate("inexact/"+tag+"/length", "%s leaf-list held as []int64{1,%d} read as %v", w.yang, v, got)
							continue
						}
						gotS = l.Item(1).String()
					}
					if gotS != fmt.Sprint(v) {
						c.Violate("inexact/"+tag+"/number-changed", "a %s leaf held as %s = %d was read as %s", w.yang, hname, v, gotS)
					}
				}
			}
		}
	}
}

// a decoded JSON number reaching a typed leaf through the library's JSON reader: exact or an error
func c10JSONNumbers(c *core.Ctx) {
	m, err := parser.LoadModuleFromString(nil, `module j { namespace "urn:j"; prefix j; revision 2020-01-01;
  leaf i64 { type int64; } leaf u64 { type uint64; } leaf i32 { type int32; } leaf u8 { type uint8; }
  leaf-list l64 { type int64; } leaf un { type union { type int64; type string; } } }`)
	if err != nil {
		c.Violate("schema/load", "%v", err)
		return
	}
	lits := []string{"0", "-1", "255", "256", "2147483647", "2147483648", "9007199254740992", "9007199254740993", "9007199254740995", "9999999999999999", "-9007199254740993",
		"10000000000000001", "72057594037927937", "9223372036854775807", "9223372036854775808", "-9223372036854775808", "-9223372036854775809", "18446744073709551615", "18446744073709551616",
		"1.0", "1.5", "1e3", "1e19", "12345678901234567890", "1E2", "-0", "0.1e1", "100000000000000000000"}
	leaves := []struct {
		name string
		f    val.Format
	}{{"i64", val.FmtInt64}, {"u64", val.FmtUInt64}, {"i32", val.FmtInt32}, {"u8", val.FmtUInt8}, {"l64", val.FmtInt64List}, {"un", val.FmtInt64}}
	for _, lf := range leaves {
		for _, lit := range lits {
			doc := fmt.Sprintf("{\"%s\":%s}", lf.name, lit)
			if lf.name == "l64" {
				doc = fmt.Sprintf("{\"l64\":[1,%s]}", lit)
			}
			c.Eval()
			tag := "json-number->" + lf.name
			var v val.Value
			var gerr error
			pv, st := core.Try(func() {
				n, e := nodeutil.ReadJSON(doc)
				if e != nil {
					gerr = e
					return
				}
				v, gerr = node.NewBrowser(m, n).Root().GetValue(lf.name)
			})
			if pv != nil {
				c.Violate("panic/"+tag, "reading %s panicked: %v\n%s", doc, pv, core.TrimStack(st))
				continue
			}
			want, _ := new(big.Rat).SetString(lit)
			c.Shape("%s/err=%v/digits%d", tag, gerr != nil, len(strings.TrimLeft(lit, "-")))
			if gerr != nil || v == nil {
				lo, hi, _ := fmtRange(lf.f.Single())
				if want != nil && want.IsInt() && want.Cmp(lo) >= 0 && want.Cmp(hi) <= 0 && !strings.ContainsAny(lit, ".eE") {
					c.Violate("must-convert/"+tag, "reading %s failed (%v) although the number is a plain integer inside the type", doc, gerr)
				}
				continue
			}
			var got *big.Rat
			switch x := v.Value().(type) {
			case []int64:
				got = new(big.Rat).SetInt64(x[len(x)-1])
			case string:
				// the union fell to its string member: the text must be the literal
				if x != lit {
					c.Violate("inexact/"+tag+"/union-text", "reading %s gave the string %q", doc, x)
				}
				continue
			default:
				got = bigOf(x)
			}
			if got == nil || want == nil || got.Cmp(want) != 0 {
				c.Violate("inexact/"+tag, "reading %s gave %v, the literal denotes %s", doc, v, lit)
			}
		}
	}
}

func c10enumOne(c *core.Ctx, what string, s interface{}, f func() (val.Value, error)) {
	accept, must, class := c10enumJudge(s)
	tag := what + "<-" + kindOf(s)
	v, err, ok := c10call(c, tag, s, f)
	if !ok {
		return
	}
	c.Shape("%s/%s/err=%v/must=%v", tag, class, err != nil, must)
	if err != nil {
		if must {
			c.Violate("must-convert/"+tag, "NewValue(%s, %#v) failed: %v - the source names a defined enum", what, s, err)
		}
		return
	}
	if v == nil {
		c.Violate("nil-nil/"+tag, "NewValue(%s, %#v) returned (nil, nil)", what, s)
		return
	}
	r, isEnum := v.(val.Enum)
	if !isEnum {
		c.Violate("wrong-format/"+tag, "NewValue(%s, %#v) returned %T", what, s, v)
		return
	}
	if !accept(r) {
		cls := "not-named-by-source"
		if _, in := c10enum[r.Label]; !in {
			cls = "not-a-member"
		}
		c.Violate("inexact/"+tag+"/"+cls, "NewValue(%s, %#v) = %#v although the source does not denote that enum (defined: %v)", what, s, r, c10enum)
	}
}

// elements of a slice source; a non-slice source is one element
func c10elems(s interface{}) ([]interface{}, bool) {
	v := reflect.ValueOf(s)
	if v.Kind() == reflect.Slice {
		out := make([]interface{}, v.Len())
		for i := range out {
			out[i] = v.Index(i).Interface()
		}
		return out, false
	}
	return []interface{}{s}, true
}

// ---------------------------------------------------------------------------------------------

// expected bit set for a source: ok=false when the source denotes no bit set over the defined bits
func c10bitsJudge(s interface{}) (want uint64, ok bool, must bool) {
	names := func(l []string) (uint64, bool) {
		var w uint64
		for _, n := range l {
			p, def := c10bits[n]
			if !def {
				return 0, false
			}
			w |= 1 << p
		}
		return w, true
	}
	switch x := s.(type) {
	case string:
		if x == "" {
			return 0, true, false
		}
		// names separated by white space
		w, ok := names(strings.Fields(x))
		return w, ok, ok && !strings.Contains(x, "  ") && strings.TrimSpace(x) == x
	case []string:
		w, ok := names(x)
		return w, ok, ok
	case val.Bits:
		var w uint64
		for _, p := range c10bits {
			w |= 1 << p
		}
		return x.Positions, x.Positions&^w == 0, false
	}
	if n, isNum := c10num(s); isNum {
		if n == nil || n.Sign() < 0 || !n.IsUint64() {
			return 0, false, false
		}
		var all uint64
		for _, p := range c10bits {
			all |= 1 << p
		}
		if n.Uint64()&^all != 0 {
			return 0, false, false
		}
		_, isU64 := s.(uint64)
		return n.Uint64(), true, isU64
	}
	return 0, false, false
}

func c10bitsCheck(c *core.Ctx, tag string, s interface{}, r val.Bits) {
	want, ok, _ := c10bitsJudge(s)
	if !ok {
		c.Violate("inexact/"+tag+"/undefined-bits-accepted", "NewValue(bits, %#v) = %#v although the source names a bit that is not defined (defined: %v)", s, r, c10bits)
		return
	}
	if r.Positions != want {
		c.Violate("inexact/"+tag+"/positions", "NewValue(bits, %#v) = %#v: positions %#x, the source denotes %#x", s, r, r.Positions, want)
		return
	}
	var wl []string
	for n, p := range c10bits {
		if want&(1<<p) != 0 {
			wl = append(wl, n)
		}
	}
	gl := append([]string{}, r.Labels...)
	sort.Strings(wl)
	sort.Strings(gl)
	// repeated names in the source may repeat in the labels
	gl = uniq(gl)
	if strings.Join(wl, " ") != strings.Join(gl, " ") {
		c.Violate("inexact/"+tag+"/labels", "NewValue(bits, %#v) = %#v: labels %v do not name positions %#x", s, r, r.Labels, want)
	}
}

func uniq(l []string) []string {
	var out []string
	for i, x := range l {
		if i == 0 || x != l[i-1] {
			out = append(out, x)
		}
	}
	return out
}

func c10Bits(c *core.Ctx, m *meta.Module, kind string) {
	if kind == "bits" {
		t := c10leafType(m, "b")
		srcs := []interface{}{"b0", "b0 b5", "b5 b0", "b6 b5 b1 b0", "", "b9", "b0 b9", "b0  b1", "b0 b0", " b0", "B0", "0",
			[]string{"b0", "b6"}, []string{"nope"}, []string{}, []string{"b1", "b1"},
			uint64(0), uint64(1), uint64(0x63), uint64(0x4), uint64(0x67), uint64(1 << 63), uint64(0x20),
			0, 3, 4, -1, 0x63, int64(0x21), int64(-2), int64(1 << 40), uint(2), uint(8), 3.0, 2.5, -1.0, 99.0, math.NaN(),
			val.Bits{Positions: 0x21, Labels: []string{"b0", "b5"}}, val.Bits{Positions: 0x4}, true}
		for _, s := range srcs {
			s := s
			tag := "bits<-" + kindOf(s)
			v, err, ok := c10call(c, tag, s, func() (val.Value, error) { return node.NewValue(t, s) })
			if !ok {
				continue
			}
			_, denotes, must := c10bitsJudge(s)
			c.Shape("%s/err=%v/denotes=%v", tag, err != nil, denotes)
			if err != nil {
				if must {
					c.Violate("must-convert/"+tag, "NewValue(bits, %#v) failed: %v - every name is a defined bit", s, err)
				}
				continue
			}
			r, isBits := v.(val.Bits)
			if !isBits {
				c.Violate("wrong-format/"+tag, "NewValue(bits, %#v) returned %T", s, v)
				continue
			}
			c10bitsCheck(c, tag, s, r)
		}
		return
	}
	t := c10leafType(m, "bl")
	srcs := []interface{}{[]string{"b0 b1", "b5"}, []string{"b0", "b9"}, []string{""}, [][]string{{"b0"}, {"b5", "b6"}}, [][]string{{"zz"}},
		[]uint64{1, 0x60}, []uint64{4}, []int{3, 0x20}, []int{-1}, []float64{1, 2}, []float64{1.5}, []int64{1}, []interface{}{"b0", 2.0}, "b0", uint64(1),
		val.BitsList{{Positions: 1, Labels: []string{"b0"}}}}
	for _, s := range srcs {
		s := s
		tag := "bits-list<-" + kindOf(s)
		v, err, ok := c10call(c, tag, s, func() (val.Value, error) { return node.NewValue(t, s) })
		if !ok {
			continue
		}
		c.Shape("%s/err=%v", tag, err != nil)
		elems, _ := c10elems(s)
		if err != nil {
			must := len(elems) > 0
			for _, e := range elems {
				_, _, mu := c10bitsJudge(e)
				must = must && mu
			}
			switch s.(type) {
			case []string, [][]string, []uint64:
			default:
				must = false
			}
			if must {
				c.Violate("must-convert/"+tag, "NewValue(bits-list, %#v) failed: %v", s, err)
			}
			continue
		}
		l, isList := v.(val.BitsList)
		if !isList || len(l) != len(elems) {
			c.Violate("inexact/"+tag+"/shape", "NewValue(bits-list, %#v) = %#v", s, v)
			continue
		}
		for i, e := range elems {
			c10bitsCheck(c, tag, e, l[i])
		}
	}
}

// ---------------------------------------------------------------------------------------------

func c10identJudge(s interface{}) (label string, ok bool, must bool) {
	switch x := s.(type) {
	case string:
		l := x
		plain := true
		if i := strings.IndexByte(x, ':'); i >= 0 {
			l = x[i+1:]
			plain = false
		}
		return l, c10idents[l], c10idents[l] && plain && l != "base-id"
	case val.IdentRef:
		return x.Label, c10idents[x.Label], c10idents[x.Label] && x.Label != "base-id"
	}
	return "", false, false
}

func c10Idents(c *core.Ctx, m *meta.Module, kind string) {
	if kind == "identityref" {
		t := c10leafType(m, "ir")
		srcs := []interface{}{"id-a", "id-b", "base-id", "other", "c:id-a", "c:id-b", "x:id-a", ":id-a", "c:other", "", "ID-A", " id-a", "id-a ", "id-a:id-b", "c:c:id-a",
			val.IdentRef{Label: "id-a"}, val.IdentRef{Label: "id-b"}, val.IdentRef{Label: "other"}, val.IdentRef{}, 5, true, []string{"id-a"}}
		for _, s := range srcs {
			s := s
			tag := "identityref<-" + kindOf(s)
			v, err, ok := c10call(c, tag, s, func() (val.Value, error) { return node.NewValue(t, s) })
			if !ok {
				continue
			}
			label, valid, must := c10identJudge(s)
			c.Shape("%s/err=%v/valid=%v", tag, err != nil, valid)
			if err != nil {
				if must {
					c.Violate("must-convert/"+tag, "NewValue(identityref, %#v) failed: %v - the identity is derived from the base", s, err)
				}
				continue
			}
			r, isRef := v.(val.IdentRef)
			if !isRef {
				c.Violate("wrong-format/"+tag, "NewValue(identityref, %#v) returned %T", s, v)
				continue
			}
			if !valid || r.Label != label {
				c.Violate("inexact/"+tag, "NewValue(identityref, %#v) = %#v: the source names %q (derived from base-id: %v)", s, r, label, valid)
			}
		}
		return
	}
	t := c10leafType(m, "irl")
	srcs := []interface{}{[]string{"id-a", "id-b"}, []string{"id-a", "other"}, []string{}, []interface{}{"id-a", "c:id-b"}, []interface{}{"id-a", 5}, "id-a", "other",
		val.IdentRefList{{Label: "id-a"}, {Label: "id-b"}}, []val.IdentRef{{Label: "id-b"}}, val.IdentRefList{{Label: "other"}}, val.IdentRef{Label: "id-a"}}
	for _, s := range srcs {
		s := s
		tag := "identityref-list<-" + kindOf(s)
		v, err, ok := c10call(c, tag, s, func() (val.Value, error) { return node.NewValue(t, s) })
		if !ok {
			continue
		}
		elems, _ := c10elems(s)
		must := len(elems) > 0
		for _, e := range elems {
			_, _, mu := c10identJudge(e)
			must = must && mu
		}
		c.Shape("%s/err=%v", tag, err != nil)
		if err != nil {
			if must {
				c.Violate("must-convert/"+tag, "NewValue(identityref-list, %#v) failed: %v - every element is derived from the base", s, err)
			}
			continue
		}
		if v == nil && len(elems) == 0 {
			continue
		}
		l, isList := v.(val.IdentRefList)
		if !isList || len(l) != len(elems) {
			c.Violate("inexact/"+tag+"/shape", "NewValue(identityref-list, %#v) = %#v", s, v)
			continue
		}
		for i, e := range elems {
			label, valid, _ := c10identJudge(e)
			if !valid || l[i].Label != label {
				c.Violate("inexact/"+tag+"/element", "NewValue(identityref-list, %#v) = %#v: element %d", s, l, i)
			}
		}
	}
}

// ---------------------------------------------------------------------------------------------

// a union result must denote the source under the format it came back in
func c10unionCheck(c *core.Ctx, tag string, s interface{}, v val.Value, enumLabels map[string]bool) {
	p := c10{}
	f := v.Format()
	switch f {
	case val.FmtEnum:
		r := v.(val.Enum)
		if x, isStr := s.(string); !(isStr && x == r.Label && enumLabels[x]) {
			if e, isEnum := s.(val.Enum); !(isEnum && e.Label == r.Label && enumLabels[e.Label]) {
				c.Violate("inexact/"+tag+"/enum-member", "union conversion of %#v gave enum %#v", s, r)
			}
		}
	case val.FmtInt8, val.FmtUInt8, val.FmtString, val.FmtBool:
		p.checkDenotes(c, "NewValue(union)", tag, f, s, denoteSrc(s), v)
	default:
		c.Violate("wrong-format/"+tag, "union conversion of %#v gave format %s, not a member type", s, f)
	}
}

func c10Unions(c *core.Ctx, m *meta.Module, kind string) {
	if kind == "union" {
		for _, leaf := range []string{"u", "u2", "u3"} {
			t := c10leafType(m, leaf)
			enumLabels := map[string]bool{"one": true, "two": true}
			srcs := []interface{}{5, 127, 128, -128, -129, 300, 255, 256, -1, int64(4294967301), uint64(math.MaxUint64), 1.0, 1.5, -0.5, 1e30, math.NaN(),
				"5", "300", "one", "two", "three", "true", "false", "", "abc", " 5", "1.5", true, false, val.Enum{Id: 0, Label: "one"}, uint8(200), int8(-5)}
			for _, s := range srcs {
				s := s
				tag := "union-" + leaf + "<-" + kindOf(s)
				v, err, ok := c10call(c, tag, s, func() (val.Value, error) { return node.NewValue(t, s) })
				if !ok {
					continue
				}
				c.Shape("%s/err=%v", tag, err != nil)
				if err != nil {
					// natural members that have to convert
					must := false
					d := denoteSrc(s)
					switch leaf {
					case "u":
						_, isStr := s.(string)
						must = isStr
					case "u2", "u3":
						if _, isInt := s.(int); isInt && d.num != nil && d.num.IsInt() && d.num.Sign() >= 0 && d.num.Cmp(big.NewRat(255, 1)) <= 0 {
							must = true
						}
						if b, isB := s.(bool); isB && leaf == "u2" {
							_ = b
							must = true
						}
						if x, isStr := s.(string); isStr && leaf == "u3" && enumLabels[x] {
							must = true
						}
					}
					if must {
						c.Violate("must-convert/"+tag, "NewValue(union %s, %#v) failed: %v - the value belongs to a member type", leaf, s, err)
					}
					continue
				}
				if v == nil {
					c.Violate("nil-nil/"+tag, "NewValue(union %s, %#v) returned (nil, nil)", leaf, s)
					continue
				}
				c10unionCheck(c, tag, s, v, enumLabels)
			}
		}
		return
	}
	for _, leaf := range []string{"ul", "ul2"} {
		t := c10leafType(m, leaf)
		srcs := []interface{}{[]int{1, 2}, []int{1, 300}, []int{-1}, []string{"a", "b"}, []string{"1", "2"}, []interface{}{1.0, "a"}, []interface{}{1.5}, []float64{300}, []float64{1, 2},
			[]bool{true, false}, []string{"true"}, []interface{}{true, 1.0}, []int64{4294967297}, []string{}, 5, "a"}
		for _, s := range srcs {
			s := s
			tag := "union-list-" + leaf + "<-" + kindOf(s)
			v, err, ok := c10call(c, tag, s, func() (val.Value, error) { return node.NewValue(t, s) })
			if !ok {
				continue
			}
			c.Shape("%s/err=%v", tag, err != nil)
			if err != nil || v == nil {
				continue
			}
			elems, _ := c10elems(s)
			l, isList := v.(val.Listable)
			if !isList || l.Len() != len(elems) {
				c.Violate("inexact/"+tag+"/shape", "NewValue(union-list %s, %#v) = %#v", leaf, s, v)
				continue
			}
			for i, e := range elems {
				c10unionCheck(c, tag, e, l.Item(i), nil)
			}
		}
	}
}

// ---------------------------------------------------------------------------------------------

func c10Keys(c *core.Ctx, m *meta.Module) {
	l := meta.Find(m, "l").(*meta.List)
	km := l.KeyMeta()
	type kc struct {
		in   []string
		ok   bool
		want []string
	}
	cases := []kc{
		{[]string{"12", "abc", "b"}, true, []string{"12", "abc", "b"}},
		{[]string{"-32768", "", "a"}, true, []string{"-32768", "", "a"}},
		{[]string{"32768", "x", "a"}, false, nil},
		{[]string{"65537", "x", "a"}, false, nil},
		{[]string{"1.5", "x", "a"}, false, nil},
		{[]string{"1", "x", "c"}, false, nil},
		{[]string{"1", "x", "1"}, true, []string{"1", "x", "b"}},
		{[]string{" 1", "x", "a"}, false, nil},
		{[]string{"1", "a,b", "a"}, true, []string{"1", "a,b", "a"}},
	}
	for _, k := range cases {
		k := k
		c.Eval()
		var vals []val.Value
		var err error
		pv, st := core.Try(func() { vals, err = node.NewValuesByString(km, k.in...) })
		if pv != nil {
			c.Violate("panic/keys", "NewValuesByString(%q) panicked: %v\n%s", k.in, pv, core.TrimStack(st))
			continue
		}
		c.Shape("keys/%v/err=%v", k.ok, err != nil)
		if err != nil {
			if k.ok {
				c.Violate("must-convert/keys", "NewValuesByString(%q) failed: %v", k.in, err)
			}
			continue
		}
		if !k.ok && k.in[0] != " 1" {
			c.Violate("inexact/keys", "NewValuesByString(%q) = %v although a component is outside its key type", k.in, vals)
			continue
		}
		if !k.ok {
			continue
		}
		if len(vals) != 3 {
			c.Violate("inexact/keys/arity", "NewValuesByString(%q) returned %d values", k.in, len(vals))
			continue
		}
		for i, v := range vals {
			got := ""
			if v != nil {
				got = v.String()
			}
			if got != k.want[i] {
				c.Violate("inexact/keys/component", "NewValuesByString(%q)[%d] = %q, want %q", k.in, i, got, k.want[i])
			}
		}
	}
	// fewer strings than keys: the missing components stay nil
	c.Eval()
	if vals, err := node.NewValuesByString(km, "1"); err == nil && (len(vals) != 3 || vals[0] == nil || vals[0].String() != "1" || vals[1] != nil) {
		c.Violate("inexact/keys/partial", "NewValuesByString(\"1\") = %v", vals)
	}
	_ = fmt.Sprint
}
