package props

import "verif/core"

func c10SchemaCases() int          { return 0 }
func c10Schema(c *core.Ctx, k int) {}
