package props

import (
	"fmt"
	"math/rand"
	"os"
	"sort"
	"strings"

	"github.com/freeconf/yang/node"
	"github.com/freeconf/yang/nodeutil"
	"github.com/freeconf/yang/val"

	"verif/core"
	"verif/dp"
)

// C18 — delete and replace remove exactly the addressed subtree; list keys stay unique.

type c18 struct{}

func init() { core.Register(c18{}) }

func (c18) ID() string    { return "C18" }
func (c18) Level() string { return "exploration" }
func (c18) Rule() string {
	return "generated schema/tree; histories of 3..15 operations mixing Delete (container, list entry first/middle/last/only, whole list), " +
		"ReplaceFrom (container, entry), InsertFrom/UpsertFrom of entries incl. delete-then-reinsert of the same key; stores under test: reference store, " +
		"nodeutil.Reflect and nodeutil.Node over Go maps (lists as slices of maps or keyed maps) and over reflect.StructOf structs (lists as []*T, []T, map[K]*T). " +
		"Monitors after every step: store content (read directly) == model; key-uniqueness scan of every list; Find on every remaining path selects it " +
		"and Find on the removed path selects nothing. A shape = (op kind, position of the entry in its list, store, depth); trivial = no-op"
}
func (c18) MinEvals(string) int { return 1000 }

func (c18) NumCases(tier string, seed int64) int {
	if tier == "thorough" {
		return 6000
	}
	return 600
}

// the stores C18 runs against
type c18store interface {
	Browser() *node.Browser
	Snap() (*dp.DNode, error) // content read without the library
	Problems() []string
	Describe() string
}

type c18ref struct{ st *dp.Store }

func (x *c18ref) Browser() *node.Browser   { return x.st.Browser() }
func (x *c18ref) Snap() (*dp.DNode, error) { return x.st.Root, nil }
func (x *c18ref) Describe() string         { return "" }
func (x *c18ref) Problems() []string {
	p := x.st.Problems
	x.st.Problems = nil
	return p
}

type c18go struct{ g *dp.GoStore }

func (x *c18go) Browser() *node.Browser   { return x.g.Browser() }
func (x *c18go) Snap() (*dp.DNode, error) { return x.g.Snapshot() }
func (x *c18go) Problems() []string       { return nil }
func (x *c18go) Describe() string {
	var l []string
	for n, r := range x.g.Repr {
		l = append(l, n.Name+":"+r)
	}
	sort.Strings(l)
	d := "lists " + strings.Join(l, " ")
	if x.g.Hooks != "" {
		d += fmt.Sprintf("; nodeutil.Node with pass-through callbacks %s (each calls the documented default ref.DoXxx); called so far: %v", x.g.Hooks, x.g.HookSeen())
	}
	return d
}

// reportHooks records, for a store whose nodeutil.Node carries pass-through callbacks, which of them the library called during the case.
func reportHooks(c *core.Ctx, t c18store) {
	x, ok := t.(*c18go)
	if !ok || x == nil || x.g.Hooks == "" {
		return
	}
	c.Count("store_with_callbacks")
	for _, h := range x.g.HookSeen() {
		c.Shape("callbacks/%s/called/%s", x.g.Hooks, h)
	}
}

// signatures of the reference store stay as they were; other stores are named
func storeSig(name string) string {
	if name == "reference-store" || name == "reference-store-eager" {
		return ""
	}
	return "/" + name
}

// addRepeatedKeys appends, to lists of the tree, a second entry carrying the key of an entry already there (other leaves may differ).
func addRepeatedKeys(r *rand.Rand, s *dp.Schema, d *dp.DNode, do dp.DataOpts) int {
	n := 0
	for _, l := range d.Lists {
		if len(l.Entries) > 0 && r.Intn(2) == 0 {
			e := l.Entries[r.Intn(len(l.Entries))]
			l.Entries = append(l.Entries, dp.Derive(r, s, e, l.S.Children, do))
			n++
		}
		for _, e := range l.Entries {
			n += addRepeatedKeys(r, s, e, do)
		}
	}
	for _, k := range d.Kids {
		n += addRepeatedKeys(r, s, k, do)
	}
	return n
}

// keyStrings renders a key as the library reports it in the model's canonical form
func keyStrings(l *dp.SNode, key []val.Value) []string {
	out := make([]string, len(key))
	for i, k := range key {
		if k == nil {
			out[i] = "\x00unset"
			continue
		}
		if lv, bad := dp.FromVal(l.Child(l.Keys[i]).Type, false, k); bad == "" && lv != nil {
			out[i] = lv.V[0]
		} else {
			out[i] = k.String()
		}
	}
	return out
}

func dupKeys(d *dp.DNode, path string, out *[]string) {
	for n, l := range d.Lists {
		seen := map[string]bool{}
		for _, e := range l.Entries {
			k := strings.Join(e.Key(), "\x01")
			if seen[k] {
				*out = append(*out, fmt.Sprintf("%s/%s: two entries with key %q", path, n, e.Key()))
			}
			seen[k] = true
			dupKeys(e, fmt.Sprintf("%s/%s=%v", path, n, e.Key()), out)
		}
	}
	for n, k := range d.Kids {
		dupKeys(k, path+"/"+n, out)
	}
}

func plainKeys(p dp.DPath) bool {
	for _, s := range p {
		for _, k := range s.Key {
			if k == "" || strings.ContainsAny(k, "/,=%+ ?#\"<>&\\\t\n") {
				return false
			}
		}
	}
	return true
}

func (p c18) Run(c *core.Ctx, idx int) {
	r := c.Rand
	o := dp.DefaultGen()
	o.MaxDepth = 2 + r.Intn(3)
	o.Choices = idx%4 == 0
	o.KeyTypes = []string{"string", "int32", "int64", "uint8", "uint32", "enumeration", "boolean", "int8", "uint16", "uint64", "int16"}
	// store under test: the reference store or one of the library's reflection nodes over plain Go values
	storeKind := (idx / 4) % 5
	var gm dp.GoMode
	cmp := dp.CmpOpts{}
	if storeKind > 0 {
		gm = dp.GoModes[storeKind-1]
		dp.GoGen(&o, gm)
		// a struct field cannot say "unset", so case detection has nothing to go by (IgnoreEmpty would make zero-valued keys unreadable)
		o.Choices = o.Choices && gm.Shape == "map"
		o.Defaults = false
		cmp = dp.CmpOpts{IgnoreListOrder: true, EmptyListIsAbsent: true}
	}
	s := dp.GenSchema(r, o)
	if err := s.Compile(); err != nil {
		c.R.Inconclusive = "generated schema does not compile: " + head(err.Error(), 300)
		return
	}
	if storeKind > 0 {
		if why := dp.GoSupports(s, gm); why != "" {
			c.Count("go_store_schema_outside_domain")
			return
		}
	}
	do := dp.DefaultData()
	do.MaxEntries = 2 + r.Intn(4)
	do.PKid = 0.85
	t := dp.GenTree(r, s, do)
	model := t.Clone()
	var target c18store
	storeName := "reference-store"
	if storeKind == 0 {
		target = &c18ref{dp.NewStore(s, t)}
	} else {
		target = &c18go{dp.NewGoStore(r, s, gm, t)}
		storeName = gm.String()
		if gm.Shape == "struct" {
			model = dp.ZeroNormalize(model)
		}
		dp.DropEmptyLists(model)
	}
	c.Count("store_" + storeName)
	defer func() { reportHooks(c, target) }()
	if storeKind > 0 && idx%3 == 1 {
		// the Go values start out empty and the library itself builds them: every container, list and entry is one it created
		// for an insert (a list it creates for a compound key must keep entries apart that share a part of the key)
		g := dp.NewGoStore(r, s, gm, nil)
		target = &c18go{g}
		var lerr error
		c.Eval()
		if c.Guard("load into empty store", func() { lerr = g.Browser().Root().UpsertFrom(dp.NewStore(s, model.Clone()).Node()) }) {
			return
		}
		snap, snapErr := g.Snapshot()
		wit := func() string {
			after := "<unreadable>"
			if snap != nil {
				after = snap.Dump(s)
			}
			return fmt.Sprintf("store: %s %s\nschema:\n%sloaded:\n%s\nstore after:\n%s", storeName, target.Describe(), s.Yang(), model.Dump(s), after)
		}
		switch {
		case lerr != nil:
			c.Violate("error/load-empty"+storeSig(storeName), "UpsertFrom of the whole tree into empty Go values returned %v\n%s", lerr, wit())
			return
		case snapErr != nil:
			c.Violate("store-corrupt/load-empty/"+storeName, "the Go values the library built do not denote a tree of the schema: %v\n%s", snapErr, wit())
			return
		}
		if d := dp.Diff(s, model, snap, cmp); d != "" {
			c.Violate("result/load-empty/"+diffClass(d)+storeSig(storeName), "the Go values the library built differ from what was inserted:\n%s\n%s", d, wit())
			return
		}
		c.Shape("load-empty/%s", storeName)
		c.Count("op_load_empty")
	}
	nops := 3 + r.Intn(13)
	var history []string
	var lastDeleted *dp.DNode
	var lastDeletedPath dp.DPath
	for op := 0; op < nops; op++ {
		paths := model.AllPaths()
		if len(paths) == 0 {
			break
		}
		pth := paths[r.Intn(len(paths))]
		mn, ml, mparent := model.Resolve(pth)
		last := pth[len(pth)-1]
		kind := "container"
		pos := ""
		if ml != nil {
			kind = "list"
		} else if last.Key != nil {
			kind = "entry"
			pl := mparent.Lists[last.Name]
			_, i := pl.Find(last.Key)
			switch {
			case len(pl.Entries) == 1:
				pos = "only"
			case i == 0:
				pos = "first"
			case i == len(pl.Entries)-1:
				pos = "last"
			default:
				pos = "middle"
			}
		}
		opk := r.Intn(10)
		var desc string
		var err error
		before := model.Clone()
		b := target.Browser()
		var removed dp.DPath
		run := func(f func(sel *node.Selection) error) bool {
			return c.Guard(desc, func() {
				var sel *node.Selection
				sel, err = dp.FindSel(b, pth)
				if err != nil {
					return
				}
				if sel == nil {
					err = fmt.Errorf("verif: Find(%q) selected nothing although the node exists", dp.PathString(pth))
					return
				}
				err = f(sel)
			})
		}
		switch {
		case kind == "entry" && opk == 4 && len(mparent.Lists[last.Name].Entries) >= 2 && plainKeys(pth) && r.Intn(2) == 0:
			// two entries of one list, each selected through a Find of its own BEFORE anything is deleted, then deleted one after the
			// other: the second selection was made for the list as it was and has to remove its own entry all the same
			pl := mparent.Lists[last.Name]
			var sib *dp.DNode
			for _, e := range pl.Entries {
				if e != mn && (sib == nil || r.Intn(2) == 0) {
					sib = e
				}
			}
			sibPth := append(append(dp.DPath{}, pth[:len(pth)-1]...), dp.Step{Name: last.Name, Key: sib.Key()})
			if !plainKeys(sibPth) {
				continue
			}
			desc = fmt.Sprintf("Delete entry %q then entry %q, both selected beforehand", pth.String(), sibPth.String())
			model.DeleteAt(pth)
			model.DeleteAt(sibPth)
			removed = sibPth
			lastDeleted = nil
			if run(func(sel *node.Selection) error {
				second, e := dp.FindSel(b, sibPth)
				if e != nil || second == nil {
					return fmt.Errorf("verif: Find(%q) = %v, %v although the node exists", dp.PathString(sibPth), second, e)
				}
				if e := sel.Delete(); e != nil {
					return e
				}
				return second.Delete()
			}) {
				return
			}
			kind, pos = "entry", "two-held-selections"
		case opk < 5: // delete
			desc = fmt.Sprintf("Delete %s %s %q", kind, pos, pth.String())
			if kind == "entry" {
				lastDeleted, lastDeletedPath = mn.Clone(), pth
			}
			model.DeleteAt(pth)
			removed = pth
			if run(func(sel *node.Selection) error { return sel.Delete() }) {
				return
			}
		case opk < 8 && kind != "list": // replace
			content := dp.Derive(r, s, mn, mn.S.Children, do)
			desc = fmt.Sprintf("ReplaceFrom %s %s %q with {%s}", kind, pos, pth.String(), head(oneLineTree(s, content), 200))
			model.DeleteAt(pth)
			var src node.Node
			srcStore := dp.NewStore(s, nil)
			if kind == "entry" {
				holder := dp.NewDNode(nil)
				holder.Lists[last.Name] = &dp.DList{S: mn.S, Entries: []*dp.DNode{content}}
				src = srcStore.ListAt(holder, last.Name)
				if e := dp.ApplyList(s, dp.Insert, holder.Lists[last.Name], mparent.Lists[last.Name]); e != dp.OK {
					c.Violate("harness/model-replace", "model insert after delete failed: %v", e)
					return
				}
			} else {
				holder := dp.NewDNode(mparent.S)
				holder.Kids[last.Name] = content
				src = srcStore.NodeAt(holder)
				if e := dp.Apply(s, dp.Insert, holder, mparent, false); e != dp.OK {
					c.Violate("harness/model-replace", "model insert after delete failed: %v", e)
					return
				}
			}
			if run(func(sel *node.Selection) error { return sel.ReplaceFrom(src) }) {
				return
			}
		case kind == "list" && (opk == 5 || opk == 6) && len(ml.Entries) >= 3:
			// several entries deleted one after the other through selections obtained from ONE list selection (First/Next), then the
			// list read again through that same selection: whatever the list node caches about rows and keys has to follow
			n := len(ml.Entries)
			var victims []int
			for i := 0; i < n; i++ {
				if r.Intn(2) == 0 {
					victims = append(victims, i)
				}
			}
			if len(victims) < 2 {
				victims = []int{0, n - 2}
			}
			if len(victims) == n {
				victims = victims[:n-1]
			}
			var vkeys [][]string
			for _, v := range victims {
				vkeys = append(vkeys, ml.Entries[v].Key())
			}
			desc = fmt.Sprintf("Delete entries %v of list %q through one list selection", vkeys, pth.String())
			var survivors []string
			isVictim := map[string]bool{}
			for _, k := range vkeys {
				isVictim[strings.Join(k, "\x00")] = true
			}
			var keep []*dp.DNode
			for _, e := range ml.Entries {
				if !isVictim[strings.Join(e.Key(), "\x00")] {
					keep = append(keep, e)
					survivors = append(survivors, strings.Join(e.Key(), ","))
				}
			}
			ml.Entries = keep
			var seenAfter []string
			if run(func(sel *node.Selection) error {
				var items []*node.Selection
				it, err := sel.First()
				for ; err == nil && it.Selection != nil; it, err = it.Next() {
					if fk := keyStrings(ml.S, it.Key); isVictim[strings.Join(fk, "\x00")] {
						items = append(items, it.Selection)
					}
				}
				if err != nil {
					return err
				}
				for _, is := range items {
					if err := is.Delete(); err != nil {
						return err
					}
				}
				// read through the held list selection
				it, err = sel.First()
				for ; err == nil && it.Selection != nil; it, err = it.Next() {
					seenAfter = append(seenAfter, strings.Join(keyStrings(ml.S, it.Key), ","))
				}
				return err
			}) {
				return
			}
			if err == nil && !cmp.IgnoreListOrder && strings.Join(seenAfter, ";") != strings.Join(survivors, ";") {
				c.Violate("held-selection/stale-rows"+storeSig(storeName), "%s: iterating the same list selection afterwards gives %v, the remaining entries are %v", desc, seenAfter, survivors)
				return
			}
			if err == nil && cmp.IgnoreListOrder {
				a, b := append([]string{}, seenAfter...), append([]string{}, survivors...)
				sort.Strings(a)
				sort.Strings(b)
				if strings.Join(a, ";") != strings.Join(b, ";") {
					c.Violate("held-selection/stale-rows"+storeSig(storeName), "%s: iterating the same list selection afterwards gives %v, the remaining entries are %v", desc, seenAfter, survivors)
					return
				}
			}
			removed = nil
			kind, pos = "list", "multi-delete"
		case opk == 8 && kind == "container":
			// delete a container and bring it back with one upsert whose lists name a key twice: the list is created by the very edit
			// that has to find the first occurrence again (entries are matched by key)
			content := dp.Derive(r, s, mn, mn.S.Children, do)
			ndup := addRepeatedKeys(r, s, content, do)
			desc = fmt.Sprintf("Delete container %q, then UpsertFrom parent with {%s} (%d repeated keys)", pth.String(), head(oneLineTree(s, content), 200), ndup)
			model.DeleteAt(pth)
			holder := dp.NewDNode(mparent.S)
			holder.Kids[last.Name] = content
			if e := dp.Apply(s, dp.Upsert, holder, mparent, false); e != dp.OK {
				c.Violate("harness/model-recreate", "model upsert after delete failed: %v", e)
				return
			}
			src := dp.NewStore(s, nil).NodeAt(holder)
			removed = nil
			if run(func(sel *node.Selection) error {
				parent := sel.Parent()
				if err := sel.Delete(); err != nil {
					return err
				}
				if parent == nil {
					return fmt.Errorf("verif: container selection without parent")
				}
				return parent.UpsertFrom(src)
			}) {
				return
			}
			kind, pos = "container", fmt.Sprintf("recreate-dup%d", min(ndup, 2))
		case kind == "entry" && opk == 9 && r.Intn(2) == 0 && plainKeys(pth):
			// an upsert addressed to one entry whose payload states another key: the key of a sibling entry, or one no entry has.
			// Either the edit is refused and nothing changes, or the entry carries the new key afterwards; what may not happen is two
			// entries with one key, or an entry that is not found under the key its leaves hold (checked below for every operation)
			pl := mparent.Lists[last.Name]
			k0 := pl.S.Child(pl.S.Keys[0])
			newKey := ""
			target0 := "fresh"
			if len(pl.Entries) > 1 && r.Intn(2) == 0 {
				for _, e := range pl.Entries {
					if e != mn && e.Leaves[k0.Name].V[0] != mn.Leaves[k0.Name].V[0] {
						newKey = e.Leaves[k0.Name].V[0]
						target0 = "sibling"
					}
				}
			}
			if newKey == "" {
				newKey = dp.AbsentKeyComponent(r, k0.Type)
				for _, e := range pl.Entries {
					if e.Leaves[k0.Name].V[0] == newKey {
						newKey = ""
					}
				}
			}
			if newKey == "" || k0.Type.Wrap == "leafref" {
				continue
			}
			content := mn.Clone()
			content.Leaves[k0.Name] = &dp.LVal{V: []string{newKey}}
			desc = fmt.Sprintf("UpsertFrom entry %q with a payload whose key leaf %s says %q (%s)", pth.String(), k0.Name, newKey, target0)
			src := dp.NewStore(s, nil).NodeAt(content)
			if r.Intn(2) == 0 {
				holder := dp.NewDNode(mparent.S)
				holder.Lists[last.Name] = &dp.DList{S: mn.S, Entries: []*dp.DNode{content}}
				if jn, jerr := nodeutil.ReadJSON(entryJSON(dp.EncodeJSON(s, holder, dp.JOpts{}), last.Name)); jerr == nil {
					src = jn
				}
			}
			viaLeaf := r.Intn(3) == 0
			if viaLeaf {
				desc = fmt.Sprintf("SetValue on key leaf %s of entry %q to %q (%s)", k0.Name, pth.String(), newKey, target0)
			}
			if run(func(sel *node.Selection) error {
				if viaLeaf {
					lsel, e := sel.Find(k0.Name)
					if e != nil || lsel == nil {
						return fmt.Errorf("verif: key leaf not found: %v", e)
					}
					return lsel.Set(dp.ToVal(k0.Type, &dp.LVal{V: []string{newKey}}))
				}
				return sel.UpsertFrom(src)
			}) {
				return
			}
			if err != nil {
				// refused: nothing changed
				c.Count("rekey_refused")
				err = nil
			} else {
				c.Count("rekey_accepted")
				if os.Getenv("VERIF_DEBUG") != "" {
					fmt.Fprintf(os.Stderr, "DEBUG accepted: %s src=%T\n", desc, src)
				}
				mn.Leaves[k0.Name] = &dp.LVal{V: []string{newKey}}
			}
			target.Problems() // a store noticing the key change is not what is being judged here
			kind, pos = "entry", "rekey-"+target0
		case kind == "list" || (lastDeleted != nil && opk == 9): // insert / re-insert an entry
			var lst *dp.DList
			var lpath dp.DPath
			var entry *dp.DNode
			if kind == "list" {
				lst, lpath = ml, pth
				tmp := dp.NewDNode(nil)
				dp.FillList(r, s, tmp, ml.S, do)
				if fl := tmp.Lists[ml.S.Name]; fl != nil && len(fl.Entries) > 0 {
					entry = fl.Entries[0]
				}
			}
			if lastDeleted != nil && (entry == nil || opk == 9) {
				// delete-then-reinsert of the same key into its list, if that list still exists
				lp := append(dp.DPath{}, lastDeletedPath[:len(lastDeletedPath)-1]...)
				lp = append(lp, dp.Step{Name: lastDeletedPath[len(lastDeletedPath)-1].Name})
				if _, l2, _ := model.Resolve(lp); l2 != nil {
					lst, lpath, entry = l2, lp, lastDeleted
				}
			}
			if entry == nil || lst == nil {
				continue
			}
			pth = lpath
			strat := dp.Upsert
			if dup, _ := lst.Find(entry.Key()); dup == nil && r.Intn(2) == 0 {
				strat = dp.Insert
			}
			// sometimes the entry arrives as an XML document and its (string) key carries surrounding white space
			viaXML := r.Intn(3) == 0
			if k0 := lst.S.Child(lst.S.Keys[0]); viaXML && k0.Type.Base == "string" && k0.Type.Wrap != "leafref" && entry != lastDeleted {
				entry = entry.Clone()
				entry.Leaves[k0.Name] = &dp.LVal{V: []string{" " + entry.Leaves[k0.Name].V[0] + " "}}
				if dup, _ := lst.Find(entry.Key()); dup != nil {
					strat = dp.Upsert
				}
			}
			if viaXML {
				// a list without entries has no element in an XML document: it cannot arrive that way
				entry = entry.Clone()
				dp.DropEmptyLists(entry)
			}
			desc = fmt.Sprintf("%sFrom entry %q into list %q (xml=%v)", strat, entry.Key(), lpath.String(), viaXML)
			holder := dp.NewDNode(lst.S.DataParent())
			holder.Lists[lst.S.Name] = &dp.DList{S: lst.S, Entries: []*dp.DNode{entry}}
			if e := dp.ApplyList(s, strat, holder.Lists[lst.S.Name], lst); e != dp.OK {
				c.Violate("harness/model-insert", "model %s failed: %v", strat, e)
				return
			}
			src := dp.NewStore(s, nil).ListAt(holder, lst.S.Name)
			if viaXML {
				doc := dp.EncodeXML(s, "holder", holder, nil)
				xn, xerr := nodeutil.ReadXMLDoc(strings.NewReader(doc))
				if xerr != nil {
					c.Violate("harness/xml-source", "ReadXMLDoc of the reference encoding failed: %v\n%s", xerr, doc)
					return
				}
				src = xn
			}
			if run(func(sel *node.Selection) error {
				if strat == dp.Insert {
					return sel.InsertFrom(src)
				}
				return sel.UpsertFrom(src)
			}) {
				return
			}
			kind, pos = "list", "add-entry"
		default:
			continue
		}
		history = append(history, desc)
		c.Eval()
		opName := strings.Fields(desc)[0]
		c.Shape("%s/%s/%s/depth%d/%s", opName, kind, pos, len(pth), storeName)
		c.Count("op_" + opName)
		snap, snapErr := target.Snap()
		if storeKind > 0 {
			if gm.Shape == "struct" {
				model = dp.ZeroNormalize(model)
			}
			dp.DropEmptyLists(model)
		}
		wit := func() string {
			after := "<unreadable>"
			if snap != nil {
				after = snap.Dump(s)
			}
			return fmt.Sprintf("store: %s %s\nhistory:\n  %s\nschema:\n%sstore before the last step:\n%s\nstore after:\n%s", storeName, target.Describe(), joinLines(history), s.Yang(), before.Dump(s), after)
		}
		sigBase := opName + "/" + kind
		if pos != "" {
			sigBase += "-" + pos
		}
		if err != nil {
			if !plainKeys(pth) {
				// addressing through keys with reserved characters is C08's business; resync and go on
				c.Count("skipped_hostile_key_path")
				if snap == nil {
					return
				}
				model = snap.Clone()
				continue
			}
			c.Violate("error/"+sigBase+storeSig(storeName), "%s returned %v\n%s", desc, err, wit())
			return
		}
		for _, pr := range target.Problems() {
			c.Violate("protocol/"+sigBase, "%s: %s\n%s", desc, pr, wit())
		}
		if snapErr != nil {
			c.Violate("store-corrupt/"+sigBase+"/"+storeName, "%s: the Go values no longer denote a tree of the schema: %v\n%s", desc, snapErr, wit())
			return
		}
		if d := dp.Diff(s, model, snap, cmp); d != "" {
			c.Violate("result/"+sigBase+"/"+diffClass(d)+storeSig(storeName), "%s: store differs from the model:\n%s\n%s", desc, d, wit())
			return
		}
		var dk []string
		dupKeys(snap, "", &dk)
		if len(dk) > 0 {
			c.Violate("duplicate-key/"+sigBase+storeSig(storeName), "%s\n%s", dk[0], wit())
			return
		}
		// Find: removed node gone, a sample of remaining nodes reachable under their key
		b = target.Browser()
		if removed != nil && plainKeys(removed) {
			c.Eval()
			var sel *node.Selection
			if !c.Guard("Find removed", func() { sel, err = dp.FindSel(b, removed) }) {
				if sel != nil {
					c.Violate("find-after-delete/"+sigBase+storeSig(storeName), "Find(%q) still selects the deleted node\n%s", dp.PathString(removed), wit())
				}
			}
		}
		rest := model.AllPaths()
		for i := 0; i < 6 && len(rest) > 0; i++ {
			q := rest[r.Intn(len(rest))]
			if !plainKeys(q) {
				continue
			}
			c.Eval()
			var sel *node.Selection
			if c.Guard("Find remaining", func() { sel, err = dp.FindSel(b, q) }) {
				continue
			}
			if err != nil || sel == nil {
				c.Violate("find-remaining/"+sigBase+storeSig(storeName), "after %s, Find(%q) = %v, %v although the node is present\n%s", desc, dp.PathString(q), sel, err, wit())
				break
			}
		}
	}
	c.SetSample(map[string]interface{}{"yang": head(s.Yang(), 1200), "history": history})
}

// entryJSON cuts the single entry object out of {"<list>":[{...}]}.
func entryJSON(doc, list string) string {
	i := strings.Index(doc, "[")
	j := strings.LastIndex(doc, "]")
	if i < 0 || j < i {
		return doc
	}
	return strings.TrimSpace(doc[i+1 : j])
}
