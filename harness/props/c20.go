package props

import (
	"embed"
	"fmt"
	yang "github.com/freeconf/yang"
	"io"
	"net/url"
	"reflect"
	"runtime"
	"strings"
	"sync"
	"sync/atomic"

	"github.com/freeconf/yang/meta"
	"github.com/freeconf/yang/node"
	"github.com/freeconf/yang/nodeutil"
	"github.com/freeconf/yang/parser"
	"github.com/freeconf/yang/source"

	"verif/core"
	"verif/dp"
	"verif/walk"
)

// C20 — a compiled schema is immutable shared state; concurrent use is race-free.
// The harness binary for this property is built with -race; the supervisor collects the detector's
// reports from the workers' log files (sup/race.go). This file provides the workloads and the
// determinism / immutability oracles.

type c20 struct{}

func init() { core.Register(c20{}) }

func (c20) ID() string    { return "C20" }
func (c20) Level() string { return "exploration" }
func (c20) Rule() string {
	return "race detector (-race build of the harness, reports de-duplicated by the pair of innermost library frames) over three workloads, each case in " +
		"a fresh worker process: (A) G in {2,8,32} goroutines load modules concurrently as the first thing the process does (uses-heavy, anydata, typedef " +
		"chains, shared opener with imports, feature sets); (B) one shared compiled module, G goroutines each with its own store run operation lists " +
		"(export, upsert, Find with query parameters, JSON / XML write, where) released together by a barrier; (C) both mixed; GOMAXPROCS in {2,4,16}. " +
		"Oracles: no race report with a library frame; every goroutine's results byte-equal to the sequential baseline; module fingerprint (reflection walk " +
		"over unexported fields) and canonical dump unchanged by use; a load's dump independent of what was loaded before. Overlap is measured with a " +
		"logical clock (ops whose [start,end] intervals intersect). A shape = (workload, G, GOMAXPROCS, module family)"
}
func (c20) MinEvals(string) int { return 200 }
func (c20) Batch(string) int    { return 1 }

func (c20) NumCases(tier string, seed int64) int {
	if tier == "thorough" {
		return 150
	}
	return 27
}

var c20families = []struct {
	name string
	mods map[string]string
	main string
}{
	{"uses-heavy", map[string]string{"m": `module m { namespace "urn:m"; prefix m; revision 2020-01-01;
  grouping g1 { leaf a { type string; } container c { leaf b { type int32; } } }
  grouping g2 { uses g1; leaf-list l { type string; } }
  container x { uses g2; } container y { uses g2 { refine a { description "r"; } } } list z { key a; uses g1; }
  container w { uses g2; uses g3; } grouping g3 { leaf q { type string; } } }`}, "m"},
	{"anydata", map[string]string{"m": `module m { namespace "urn:m"; prefix m; revision 2020-01-01;
  anydata any1 { description "d"; } container c { anyxml any2 { description "d"; } leaf x { type string; } } list l { key k; leaf k { type string; } anydata any3 { description "d"; } } }`}, "m"},
	{"typedefs", map[string]string{"m": `module m { namespace "urn:m"; prefix m; revision 2020-01-01;
  typedef t1 { type int32 { range "0..100"; } default "5"; units "u"; } typedef t2 { type t1 { range "10..20"; } } typedef t3 { type t2; }
  typedef e1 { type enumeration { enum a; enum b; } } typedef u1 { type union { type int32; type string; } }
  leaf a { type t3; } leaf b { type t2; } leaf c { type e1; } leaf d { type u1; } leaf-list e { type t1; } leaf f { type leafref { path "../a"; } }
  identity base; identity d1 { base base; } identity d2 { base d1; } leaf g { type identityref { base base; } } }`}, "m"},
	{"imports", map[string]string{
		"m":   `module m { namespace "urn:m"; prefix m; import imp { prefix i; } revision 2020-01-01; uses i:g; container c { uses i:g; } leaf t { type i:td; } feature f; leaf ff { if-feature f; type string; } }`,
		"imp": `module imp { namespace "urn:imp"; prefix imp; revision 2020-01-01; typedef td { type string { length "1..5"; } } grouping g { leaf gi { type td; } anydata ga { description "d"; } } }`}, "m"},
	// two modules that state the same texts (patterns, ranges, enum names, musts) with different sub-statements: statements are objects of
	// the module they are written in, whatever else the process has loaded
	{"same-texts-plain", map[string]string{"m": `module m { namespace "urn:m"; prefix m; revision 2020-01-01;
  leaf p { type string { pattern "[a-z]+"; length "1..5"; } } leaf r { type int32 { range "1..10"; } must "../p" ; } typedef td { type string { pattern "x.*"; } } leaf q { type td; } }`}, "m"},
	{"same-texts-decorated", map[string]string{"m": `module m { namespace "urn:m"; prefix m; revision 2020-01-01;
  leaf p { type string { pattern "[a-z]+" { modifier invert-match; error-message "no letters"; error-app-tag "tag"; } length "1..5" { error-message "short"; } } }
  leaf r { type int32 { range "1..10" { error-message "small"; description "d"; } } must "../p" { error-message "needs p"; } } typedef td { type string { pattern "x.*" { modifier invert-match; } } } leaf q { type td; } }`}, "m"},
}

// c20facts: what the text of a family says and a dump of it therefore has to show, whatever was loaded before or meanwhile
var c20facts = map[string][]string{
	"same-texts-plain":     {`"error-message":"","inverted":false,"pattern":"[a-z]+"`, `"error-message":"","inverted":false,"pattern":"x.*"`},
	"same-texts-decorated": {`"error-message":"no letters","inverted":true,"pattern":"[a-z]+"`, `"error-message":"","inverted":true,"pattern":"x.*"`},
}

func c20opener(mods map[string]string) func(string, string) (io.Reader, error) {
	return func(name, ext string) (io.Reader, error) {
		if t, ok := mods[name]; ok {
			return strings.NewReader(t), nil
		}
		return nil, nil
	}
}

//go:embed c20embed/*.yang
var c20fs embed.FS

func c20load(fam int, withFeatures int) (*meta.Module, error) {
	f := c20families[fam]
	opts := parser.Options{}
	switch withFeatures {
	case 1:
		opts.Features = meta.FeaturesOn([]string{"f"})
	case 2:
		opts.Features = meta.FeaturesOff([]string{"f"})
	}
	return parser.LoadModuleWithOptions(c20opener(f.mods), f.main, opts)
}

type opClock struct {
	now  int64
	mu   sync.Mutex
	ivls []opIvl
}
type opIvl struct {
	kind       string
	start, end int64
}

func (c *opClock) begin() int64 { return atomic.AddInt64(&c.now, 1) }
func (c *opClock) end(kind string, start int64) {
	e := atomic.AddInt64(&c.now, 1)
	c.mu.Lock()
	c.ivls = append(c.ivls, opIvl{kind, start, e})
	c.mu.Unlock()
}

// overlaps counts pairs of operations whose intervals intersect, by unordered kind pair.
func (c *opClock) overlaps() (int, map[string]int) {
	byPair := map[string]int{}
	n := 0
	iv := c.ivls
	if len(iv) > 3000 {
		iv = iv[:3000]
	}
	for i := 0; i < len(iv); i++ {
		for j := i + 1; j < len(iv); j++ {
			if iv[i].start < iv[j].end && iv[j].start < iv[i].end {
				n++
				a, b := iv[i].kind, iv[j].kind
				if a > b {
					a, b = b, a
				}
				byPair[a+"|"+b]++
			}
		}
	}
	return n, byPair
}

func (p c20) Run(c *core.Ctx, idx int) {
	workload := []string{"A-loads", "B-use", "C-mixed"}[idx%3]
	G := []int{2, 8, 32}[(idx/3)%3]
	procs := []int{2, 4, 16}[(idx/9)%3]
	fam := (idx / 27) % len(c20families)
	if workload != "A-loads" {
		fam = (idx/3 + idx/27) % len(c20families)
	}
	runtime.GOMAXPROCS(procs)
	c.Shape("%s/G%d/P%d/%s", workload, G, procs, c20families[fam].name)
	c.SetSample(map[string]interface{}{"workload": workload, "goroutines": G, "gomaxprocs": procs, "family": c20families[fam].name})
	clock := &opClock{}
	switch workload {
	case "A-loads":
		p.loads(c, clock, G, fam)
	case "B-use":
		if idx%2 == 0 {
			p.use(c, clock, G, false)
		} else {
			p.firstUse(c, clock, G)
		}
	default:
		p.use(c, clock, G, true)
	}
	n, pairs := clock.overlaps()
	c.CountN("ops", len(clock.ivls))
	c.CountN("overlapping_op_pairs", n)
	for k, v := range pairs {
		c.CountN("overlap:"+k, v)
	}
	if n == 0 && G > 1 {
		c.Count("runs_without_observed_overlap")
	}
}

// loads: concurrent loads first (nothing was compiled in this process before), then the same loads
// sequentially: every dump must be equal.
func (p c20) loads(c *core.Ctx, clock *opClock, G int, fam int) {
	per := 12
	shared := source.EmbedDir(c20fs, "c20embed")
	embedDumps := make([]string, G)
	dumps := make([][]string, G)
	errs := make([]error, G)
	var start, wg sync.WaitGroup
	start.Add(1)
	for g := 0; g < G; g++ {
		wg.Add(1)
		go func(g int) {
			defer wg.Done()
			start.Wait()
			// one opener over an embedded directory shared by every goroutine: main.yang imports modules stored as <name>@<revision>.yang,
			// which the opener finds by listing the directory
			{
				t0 := clock.begin()
				m, err := parser.LoadModule(shared, "main")
				clock.end("load:embed-dir", t0)
				if err != nil {
					errs[g] = fmt.Errorf("load main through a shared source.EmbedDir: %w", err)
					return
				}
				d, _ := walk.Dump(m)
				embedDumps[g] = walk.JSON(d)
			}
			for i := 0; i < per; i++ {
				f := (fam + g + i) % len(c20families)
				t0 := clock.begin()
				m, err := c20load(f, (g+i)%3)
				clock.end("load:"+c20families[f].name, t0)
				if err != nil {
					errs[g] = fmt.Errorf("load %s: %w", c20families[f].name, err)
					return
				}
				d, _ := walk.Dump(m)
				dumps[g] = append(dumps[g], fmt.Sprintf("%d/%d:%s", f, (g+i)%3, walk.JSON(d)))
			}
		}(g)
	}
	start.Done()
	wg.Wait()
	// sequential reference, after the fact (also checks: a load does not depend on earlier loads)
	ref := map[string]string{}
	for f := range c20families {
		for ft := 0; ft < 3; ft++ {
			m, err := c20load(f, ft)
			if err != nil {
				c.Violate("loads/sequential-load-error", "%v", err)
				return
			}
			d, _ := walk.Dump(m)
			ref[fmt.Sprintf("%d/%d", f, ft)] = walk.JSON(d)
			for _, fact := range c20facts[c20families[f].name] {
				if !strings.Contains(walk.JSON(d), fact) {
					c.Violate("loads/module-shows-another-modules-statement/"+c20families[f].name, "family %s loaded after other modules does not show what its text says (%s)\ndump: %s", c20families[f].name, fact, head(walk.JSON(d), 1500))
				}
			}
		}
	}
	embedRef := ""
	if m, err := parser.LoadModule(source.EmbedDir(c20fs, "c20embed"), "main"); err != nil {
		c.Violate("loads/sequential-load-error", "main through source.EmbedDir: %v", err)
		return
	} else {
		d, _ := walk.Dump(m)
		embedRef = walk.JSON(d)
	}
	for g := 0; g < G; g++ {
		c.Eval()
		if errs[g] != nil {
			c.Violate("loads/concurrent-load-error", "goroutine %d: %v", g, errs[g])
			continue
		}
		if embedDumps[g] != embedRef {
			c.Violate("loads/result-differs-from-sequential/embed-dir", "module main loaded through a shared source.EmbedDir opener by goroutine %d compiled to a different schema than when loaded alone\nconcurrent: %s\nsequential: %s", g, head(embedDumps[g], 800), head(embedRef, 800))
		}
		for _, d := range dumps[g] {
			k := d[:strings.Index(d, ":")]
			if d[len(k)+1:] != ref[k] {
				c.Violate("loads/result-differs-from-sequential/"+c20families[int(k[0]-'0')].name, "module family %s loaded concurrently compiled to a different schema than when loaded alone\nconcurrent: %s\nsequential: %s", k, head(d[len(k)+1:], 800), head(ref[k], 800))
			}
		}
	}
	// loading again must still give the same (loads do not modify process-wide state visible to later loads)
	for f := range c20families {
		m, err := c20load(f, 0)
		if err != nil {
			continue
		}
		d, _ := walk.Dump(m)
		if walk.JSON(d) != ref[fmt.Sprintf("%d/0", f)] {
			c.Violate("loads/later-load-differs", "family %s compiles differently after other loads", c20families[f].name)
		}
	}
}

type c20op struct {
	kind string
	run  func(b *node.Browser, s *dp.Schema, src *dp.DNode) (string, error)
}

func c20ops(s *dp.Schema, paths []string) []c20op {
	q := []string{"", "?depth=2", "?content=config", "?with-defaults=trim", "?fields=" + firstName(s), "?fc.xfields=" + firstName(s)}
	ops := []c20op{
		{"json", func(b *node.Browser, s *dp.Schema, _ *dp.DNode) (string, error) { return nodeutil.WriteJSON(b.Root()) }},
		{"json-pretty-qualified", func(b *node.Browser, s *dp.Schema, _ *dp.DNode) (string, error) {
			return nodeutil.JSONWtr{Pretty: true, QualifyNamespace: true}.JSON(b.Root())
		}},
		{"xml", func(b *node.Browser, s *dp.Schema, _ *dp.DNode) (string, error) {
			return nodeutil.WriteXMLDoc(b.Root(), false)
		}},
		{"export", func(b *node.Browser, s *dp.Schema, _ *dp.DNode) (string, error) {
			capt := dp.NewCapture(s)
			err := b.Root().UpsertInto(capt.Node())
			return capt.Root.Dump(s), err
		}},
		{"upsert", func(b *node.Browser, s *dp.Schema, src *dp.DNode) (string, error) {
			err := b.Root().UpsertFrom(dp.NewStore(s, src.Clone()).Node())
			if err != nil {
				return "", err
			}
			return nodeutil.WriteJSON(b.Root())
		}},
		{"upsert-json", func(b *node.Browser, s *dp.Schema, src *dp.DNode) (string, error) {
			n, err := nodeutil.ReadJSON(dp.EncodeJSON(s, src, dp.JOpts{Int64AsString: true}))
			if err != nil {
				return "", err
			}
			if err = b.Root().UpsertFrom(n); err != nil {
				return "", err
			}
			return nodeutil.WriteJSON(b.Root())
		}},
	}
	// a valid filter on every list at hand (its key leaf against a literal)
	for _, pth := range paths {
		if i := strings.LastIndex(pth, "="); i > 0 && !strings.Contains(pth[i:], "/") {
			lp := pth[:i]
			key := ""
			if n := s.Mod; n != nil {
				if def := meta.Find(n, lp); def != nil {
					if l, ok := def.(*meta.List); ok && len(l.KeyMeta()) > 0 {
						key = l.KeyMeta()[0].Ident()
					}
				}
			}
			if key == "" {
				continue
			}
			pp := lp + "?where=" + url.QueryEscape(key+"!='no such key'")
			ops = append(ops, c20op{"find-where", func(b *node.Browser, s *dp.Schema, _ *dp.DNode) (string, error) {
				sel, err := b.Root().Find(pp)
				if err != nil || sel == nil {
					return fmt.Sprintf("nil,%v", err), nil
				}
				return nodeutil.WriteJSON(sel)
			}})
		}
	}
	for i, pth := range paths {
		pp := pth + q[i%len(q)]
		ops = append(ops, c20op{"find", func(b *node.Browser, s *dp.Schema, _ *dp.DNode) (string, error) {
			sel, err := b.Root().Find(pp)
			if err != nil || sel == nil {
				return fmt.Sprintf("nil,%v", err), nil
			}
			return nodeutil.WriteJSON(sel)
		}})
	}
	return ops
}

func firstName(s *dp.Schema) string {
	for _, t := range s.TopData() {
		return t.Name
	}
	return "x"
}

// use: one shared compiled module, every goroutine its own store and browser.
func (p c20) use(c *core.Ctx, clock *opClock, G int, mixed bool) {
	r := c.Rand
	o := dp.DefaultGen()
	o.Choices = true
	o.NonConfig = true
	o.Aug = r.Intn(2) == 0
	o.MaxDepth = 3
	s := dp.GenSchema(r, o)
	if err := s.Compile(); err != nil {
		c.R.Inconclusive = "schema does not compile: " + head(err.Error(), 200)
		return
	}
	do := dp.DefaultData()
	trees := make([]*dp.DNode, G)
	srcs := make([]*dp.DNode, G)
	for g := 0; g < G; g++ {
		trees[g] = dp.GenTree(r, s, do)
		srcs[g] = dp.Derive(r, s, trees[g], s.Top, do)
	}
	var paths []string
	for _, ap := range trees[0].AllPaths() {
		if plainKeys(ap) && len(paths) < 6 {
			paths = append(paths, dp.PathString(ap))
		}
	}
	ops := c20ops(s, paths)
	fpBefore := walk.Fingerprint(s.Mod)
	d0, _ := walk.Dump(s.Mod)
	dumpBefore := walk.JSON(d0)

	runList := func(g int, clk *opClock) []string {
		store := dp.NewStore(s, trees[g].Clone())
		var out []string
		for i, op := range ops {
			b := store.Browser()
			var t0 int64
			if clk != nil && g%2 == 1 {
				// every other client also sends requests that are refused (filters that do not parse); a refused request leaves
				// nothing behind, for this client or for another
				hostile := []string{"?where==5", "?where=" + url.QueryEscape("a='x'='y'"), "?where=" + url.QueryEscape("a>1<3"), "?where=" + url.QueryEscape("a/='x'"), "?depth=abc", "no/such/node"}
				store.Browser().Root().Find(hostile[i%len(hostile)])
			}
			if clk != nil {
				t0 = clk.begin()
			}
			res, err := op.run(b, s, srcs[g])
			if clk != nil {
				clk.end(op.kind, t0)
			}
			out = append(out, fmt.Sprintf("%d:%s:%v:%s", i, op.kind, err, res))
		}
		return out
	}
	// sequential baseline first
	base := make([][]string, G)
	for g := 0; g < G; g++ {
		base[g] = runList(g, nil)
	}
	got := make([][]string, G)
	pan := make([]interface{}, G)
	var start, wg sync.WaitGroup
	start.Add(1)
	for g := 0; g < G; g++ {
		wg.Add(1)
		go func(g int) {
			defer wg.Done()
			defer func() { pan[g] = recover() }()
			start.Wait()
			got[g] = runList(g, clock)
		}(g)
	}
	if mixed {
		for k := 0; k < 4; k++ {
			wg.Add(1)
			go func(k int) {
				defer wg.Done()
				start.Wait()
				for i := 0; i < 6; i++ {
					f := (k + i) % len(c20families)
					t0 := clock.begin()
					c20load(f, i%3)
					clock.end("load:"+c20families[f].name, t0)
				}
			}(k)
		}
	}
	start.Done()
	wg.Wait()
	for g := 0; g < G; g++ {
		c.Eval()
		if pan[g] != nil {
			c.Violate("use/panic-under-concurrency", "goroutine %d panicked: %v", g, pan[g])
			continue
		}
		for i := range base[g] {
			if i >= len(got[g]) || got[g][i] != base[g][i] {
				kind := ops[i].kind
				gv := "<missing>"
				if i < len(got[g]) {
					gv = got[g][i]
				}
				c.Violate("use/result-differs-from-sequential/"+kind, "goroutine %d op %d (%s): concurrent result differs from the result obtained alone\nconcurrent: %s\nalone:      %s", g, i, kind, head(gv, 600), head(base[g][i], 600))
				break
			}
		}
	}
	// the module exported as data (the schema browser) into Go values, and every slice of that copy overwritten: the copy is
	// the caller's, the module is not
	c.Eval()
	if ymod, yerr := parser.LoadModule(yang.InternalYPath, "fc-yang"); yerr != nil {
		c.Count("schema_browser_module_not_loaded")
	} else {
		dest := map[string]interface{}{}
		var xerr error
		// (the export of a module with a choice ends with an error of the schema browser: what it wrote until then is a copy too)
		if !c.Guard("schema export", func() { xerr = nodeutil.Schema(ymod, s.Mod).Root().UpsertInto(nodeutil.ReflectChild(dest)) }) {
			if xerr != nil {
				c.Count("schema_export_ended_with_error")
			}
			scribbled := 0
			var scribble func(v reflect.Value, depth int)
			scribble = func(v reflect.Value, depth int) {
				if depth > 40 {
					return
				}
				for v.Kind() == reflect.Interface || v.Kind() == reflect.Pointer {
					if v.IsNil() {
						return
					}
					v = v.Elem()
				}
				switch v.Kind() {
				case reflect.Map:
					for _, k := range v.MapKeys() {
						scribble(v.MapIndex(k), depth+1)
					}
				case reflect.Slice:
					for i := 0; i < v.Len(); i++ {
						it := v.Index(i)
						if it.Kind() == reflect.String && it.CanSet() {
							it.SetString("scribbled-in-the-exported-copy")
							scribbled++
						} else {
							scribble(it, depth+1)
						}
					}
				}
			}
			scribble(reflect.ValueOf(dest), 0)
			c.CountN("exported_strings_overwritten", scribbled)
		}
	}
	// the same with a module that has what the schema browser hands out as lists of strings: bases of identities, unique of lists
	c.Eval()
	if ymod, yerr := parser.LoadModule(yang.InternalYPath, "fc-yang"); yerr == nil {
		sx, serr := parser.LoadModuleFromString(nil, `module sx { namespace "urn:sx"; prefix sx; revision 2020-01-01; feature f1; identity b1; identity b2; identity both { base b1; base b2; } identity one { base b1; }
  list l { key k; unique "a b"; unique "c"; leaf k { type string; } leaf a { type string; } leaf b { type string; } leaf c { if-feature "f1"; type string; } }
  leaf-list dl { type string; default "d1"; default "d2"; } leaf e { type enumeration { enum e1; enum e2; } } leaf bt { type bits { bit t1; bit t2; } } }`)
		if serr != nil {
			c.Violate("harness/schema-export-module", "%v", serr)
		} else {
			d0, _ := walk.Dump(sx)
			before := walk.JSON(d0)
			dest := map[string]interface{}{}
			c.Guard("schema export sx", func() { nodeutil.Schema(ymod, sx).Root().UpsertInto(nodeutil.ReflectChild(dest)) })
			n := 0
			var scribble func(v reflect.Value, depth int)
			scribble = func(v reflect.Value, depth int) {
				for v.Kind() == reflect.Interface || v.Kind() == reflect.Pointer {
					if v.IsNil() {
						return
					}
					v = v.Elem()
				}
				switch v.Kind() {
				case reflect.Map:
					for _, k := range v.MapKeys() {
						scribble(v.MapIndex(k), depth+1)
					}
				case reflect.Slice:
					for i := 0; i < v.Len() && depth < 40; i++ {
						if it := v.Index(i); it.Kind() == reflect.String && it.CanSet() {
							it.SetString("scribbled-in-the-exported-copy")
							n++
						} else {
							scribble(it, depth+1)
						}
					}
				}
			}
			scribble(reflect.ValueOf(dest), 0)
			c.CountN("exported_list_items_overwritten", n)
			d1, _ := walk.Dump(sx)
			if after := walk.JSON(d1); after != before {
				c.Violate("use/module-mutated/thru-exported-copy", "writing into the Go values the schema browser exported changed the module itself:\n%s", lineDiff(before, after))
			}
		}
	}
	if fp := walk.Fingerprint(s.Mod); fp != fpBefore {
		c.Violate("use/module-mutated/fingerprint", "the reflection fingerprint of the compiled module changed while it was being used (%x -> %x)", fpBefore, fp)
	}
	d1, _ := walk.Dump(s.Mod)
	if walk.JSON(d1) != dumpBefore {
		c.Violate("use/module-mutated/dump", "the canonical dump of the compiled module changed while it was being used")
	}
}

var firstUseErrs []string

// firstUse: a freshly compiled module with union / leafref / enum / identityref / bits leaves is used for the
// first time by G goroutines at once (lazily cached fields would be written concurrently); the sequential
// baseline is computed afterwards on a second, fresh load of the same text.
func (p c20) firstUse(c *core.Ctx, clock *opClock, G int) {
	imp := `module ids { namespace "urn:ids"; prefix ids; revision 2020-01-01; identity ext-base; identity e1 { base ext-base; } identity e2 { base e1; }
  typedef ext-ref { type identityref { base ext-base; } } }`
	text := `module m { namespace "urn:m"; prefix m; import ids { prefix ids; } revision 2020-01-01;
  identity local-e { base ids:ext-base; }
  leaf gi { type identityref { base ids:ext-base; } } leaf gt { type ids:ext-ref; } leaf-list gl { type ids:ext-ref; } leaf gu { type union { type int8; type ids:ext-ref; } }
  typedef t1 { type int32 { range "0..100"; } default "5"; units "u"; } typedef t2 { type t1 { range "10..20"; } }
  typedef u1 { type union { type int32; type string; } }
  identity base; identity d1 { base base; } identity d2 { base d1; }
  identity mb1; identity mb2; identity mb3; identity multi { base mb1; base mb2; base mb3; }
  typedef tri { type identityref { base mb1; base mb2; base mb3; } }
  leaf mu1 { type union { type tri; type identityref { base base; } } } leaf mu2 { type union { type tri; type ids:ext-ref; } }
  leaf a { type t2; } leaf b { type enumeration { enum x; enum y; } default "y"; } leaf d { type u1; } leaf d2 { type union { type uint8; type boolean; type string { length "1..3"; } } }
  leaf-list dl { type u1; } leaf f { type leafref { path "../a"; } } leaf g { type identityref { base base; } } leaf h { type bits { bit b0; bit b1; } }
  leaf s { type string { pattern "[a-z]+"; length "1..10"; } } leaf dec { type decimal64 { fraction-digits 2; range "0..10"; } }
  list l { key k; leaf k { type string; } leaf v { type t1; } leaf w { type u1; } }
  container c { leaf inner { type string; } leaf wl { when "inner='i'"; type string; } } leaf tl { when "a>5"; type string; }
  container cd { leaf n { type int32; } leaf-list tags { type string; default "a"; default "b"; } leaf-list nums { type int32; default "1"; default "2"; } } }`
	doc := func(g int) string {
		return fmt.Sprintf(`{"gi":"e2","gt":"e1","gl":["e1","local-e"],"gu":"e2","mu1":"d2","mu2":"e1","a":%d,"b":"x","d":"text%d","d2":%d,"dl":[1,"two",3],"f":%d,"g":"d2","h":"b0 b1","s":"abc","dec":1.5,"l":[{"k":"k%d","v":7,"w":"s"},{"k":"z%d","v":8,"w":9}],"c":{"inner":"i","wl":"w"},"tl":"t","cd":{"n":1}}`, 10+g%10, g, g%200, 10+g%10, g, g)
	}
	load := func() *meta.Module {
		m, err := parser.LoadModule(func(name, ext string) (io.Reader, error) {
			switch name {
			case "m":
				return strings.NewReader(text), nil
			case "ids":
				return strings.NewReader(imp), nil
			}
			return nil, nil
		}, "m")
		if err != nil {
			c.Violate("first-use/load-error", "%v", err)
			return nil
		}
		return m
	}
	run := func(m *meta.Module, g int, clk *opClock) []string {
		var out []string
		step := func(kind string, f func() (string, error)) {
			var t0 int64
			if clk != nil {
				t0 = clk.begin()
			}
			res, err := f()
			if clk != nil {
				clk.end(kind, t0)
			}
			out = append(out, fmt.Sprintf("%s:%v:%s", kind, err, res))
			if err != nil && g == 0 && clk == nil {
				firstUseErrs = append(firstUseErrs, kind+": "+err.Error())
			}
		}
		data := map[string]interface{}{}
		b := node.NewBrowser(m, nodeutil.ReflectChild(data))
		if g%2 == 1 {
			// every public accessor of the schema, as the first thing some goroutines do
			step("walk", func() (string, error) {
				d, _ := walk.Dump(m)
				return walk.JSON(d), nil
			})
		}
		step("upsert-json", func() (string, error) {
			n, err := nodeutil.ReadJSON(doc(g))
			if err != nil {
				return "", err
			}
			return "", b.Root().UpsertFrom(n)
		})
		step("json", func() (string, error) { return nodeutil.WriteJSON(b.Root()) })
		// the application changes ITS data in place: whatever the library handed out (defaults of a created container ...) must
		// not be the schema's own storage
		step("scribble", func() (string, error) {
			n := 0
			var rec func(v interface{})
			rec = func(v interface{}) {
				switch x := v.(type) {
				case map[string]interface{}:
					for _, e := range x {
						rec(e)
					}
				case map[interface{}]interface{}:
					for _, e := range x {
						rec(e)
					}
				case []string:
					for i := range x {
						x[i] = "SCRIBBLED"
						n++
					}
				case []int32:
					for i := range x {
						x[i] = -77
						n++
					}
				case []int:
					for i := range x {
						x[i] = -77
						n++
					}
				}
			}
			if cd, ok := data["cd"]; ok {
				rec(cd)
			}
			return fmt.Sprint(n > 0), nil
		})
		step("xml", func() (string, error) { return nodeutil.WriteXMLDoc(b.Root(), false) })
		step("find", func() (string, error) {
			sel, err := b.Root().Find(fmt.Sprintf("l=k%d", g))
			if err != nil || sel == nil {
				return "nil", err
			}
			return nodeutil.WriteJSON(sel)
		})
		step("getvalue", func() (string, error) {
			v, err := b.Root().GetValue("d2")
			return fmt.Sprint(v), err
		})
		step("setvalue", func() (string, error) {
			sel, err := b.Root().Find("d")
			if err != nil || sel == nil {
				return "", err
			}
			return "", sel.SetValue(g)
		})
		step("reject", func() (string, error) {
			sel, err := b.Root().Find("a")
			if err != nil || sel == nil {
				return "", err
			}
			e := sel.SetValue(500)
			return fmt.Sprint(e != nil), nil
		})
		step("json-trim", func() (string, error) {
			sel, err := b.Root().Find("?with-defaults=trim")
			if err != nil {
				return "", err
			}
			return nodeutil.WriteJSON(sel)
		})
		return out
	}
	m := load()
	if m == nil {
		return
	}
	defer func() {
		// the workload is meant to succeed step by step (except "reject"): a step that fails for everyone exercises nothing
		for _, e := range firstUseErrs {
			c.R.Inconclusive = "a step of the first-use workload fails in the sequential baseline: " + head(e, 200)
		}
		firstUseErrs = nil
	}()
	fpBefore := walk.Fingerprint(m)
	got := make([][]string, G)
	pan := make([]interface{}, G)
	var start, wg sync.WaitGroup
	start.Add(1)
	for g := 0; g < G; g++ {
		wg.Add(1)
		go func(g int) {
			defer wg.Done()
			defer func() { pan[g] = recover() }()
			start.Wait()
			got[g] = run(m, g, clock)
		}(g)
	}
	start.Done()
	wg.Wait()
	fpAfter := walk.Fingerprint(m)
	m2 := load()
	if m2 == nil {
		return
	}
	for g := 0; g < G; g++ {
		c.Eval()
		if pan[g] != nil {
			c.Violate("first-use/panic-under-concurrency", "goroutine %d panicked: %v", g, pan[g])
			continue
		}
		base := run(m2, g, nil)
		for i := range base {
			if i >= len(got[g]) || got[g][i] != base[i] {
				gv := "<missing>"
				if i < len(got[g]) {
					gv = got[g][i]
				}
				c.Violate("first-use/result-differs-from-sequential/"+strings.SplitN(base[i], ":", 2)[0], "goroutine %d: concurrent first use gives a different result than use alone\nconcurrent: %s\nalone:      %s", g, head(gv, 500), head(base[i], 500))
				break
			}
		}
	}
	c.Eval()
	if fpAfter != fpBefore {
		c.Violate("first-use/module-mutated/fingerprint", "using the compiled module changed it (reflection fingerprint %x -> %x): some accessor caches into the shared schema", fpBefore, fpAfter)
	}
	// what the public accessors report after use equals what a module nobody used reports
	c.Eval()
	if m3 := load(); m3 != nil {
		d3, _ := walk.Dump(m3)
		dm, _ := walk.Dump(m)
		if a, b := walk.JSON(dm), walk.JSON(d3); a != b {
			i := 0
			for i < len(a) && i < len(b) && a[i] == b[i] {
				i++
			}
			lo := i - 120
			if lo < 0 {
				lo = 0
			}
			c.Violate("first-use/module-mutated/accessors", "after use the schema reports something else than a freshly loaded one: ...%s   vs fresh   ...%s", head(a[lo:], 300), head(b[lo:], 300))
		}
	}
}
