package props

import (
	"errors"
	"fmt"
	"net/url"
	"sort"
	"strings"

	"github.com/freeconf/yang/fc"
	"github.com/freeconf/yang/node"
	"github.com/freeconf/yang/nodeutil"

	"verif/core"
	"verif/dp"
)

// C07 — query parameters return exactly the defined projection of the full read.

type c07 struct{}

func init() { core.Register(c07{}) }

func (c07) ID() string    { return "C07" }
func (c07) Level() string { return "exploration" }
func (c07) Rule() string {
	return "generated schema (config / non-config mix, defaults, nested lists) + tree; target selection {root, container, list, entry}; parameters: " +
		"content (3), depth (1..depth+2), fields / fc.xfields (every path expression up to 3 segments over the schema incl. ';' alternatives and '()' groups), " +
		"with-defaults=trim, fc.range (windows incl. empty and beyond the end, nested lists), fc.max-node-count (around the true count); all pairs and " +
		"sampled triples; invalid values. Oracle: model projection of the unconstrained read, compared on the set of (path, value) leaves of the JSON " +
		"output (token decoded); store unchanged by reads; invalid value => error. A shape = (parameter set, target kind, projection size class)"
}
func (c07) MinEvals(string) int { return 1000 }

func (c07) NumCases(tier string, seed int64) int {
	if tier == "thorough" {
		return 4000
	}
	return 400
}

// leafMap flattens a tree to path -> value; list entries are addressed by position.
func leafMap(d *dp.DNode, prefix string, out map[string]string) {
	for n, l := range d.Leaves {
		out[prefix+n] = l.String()
	}
	for n, k := range d.Kids {
		leafMap(k, prefix+n+"/", out)
	}
	for n, l := range d.Lists {
		for i, e := range l.Entries {
			leafMap(e, fmt.Sprintf("%s%s[%d]/", prefix, n, i), out)
		}
	}
}

type c07params struct {
	content  string // "", config, nonconfig, all
	depth    int    // 0 = unset
	fields   [][]string
	xfields  [][]string
	trim     bool
	rangeOf  []string // schema path of the list (relative to target)
	rStart   int
	rEnd     int // -1 open
	hasRange bool
	maxNode  int // 0 = unset
	query    []string
	optional map[string]string // unset leaves whose default may be reported
	// fields / fc.xfields written as prefix(rest1;rest2)
	groupedSpelling bool
	emptyWindow     bool
}

func (p *c07params) String() string { return strings.Join(p.query, "&") }

func hasPrefix(path, pre []string) bool {
	if len(pre) > len(path) {
		return false
	}
	for i := range pre {
		if path[i] != pre[i] {
			return false
		}
	}
	return true
}

// project computes the expected leaf map of the constrained read of node d (schema path rel, level lvl).
// containers counts the container / list nodes that the projection enters.
func (p *c07params) project(s *dp.Schema, d *dp.DNode, kids []*dp.SNode, rel []string, lvl int, prefix string, out map[string]string, containers *int, exactRange bool) {
	if p.depth > 0 && lvl > p.depth {
		return
	}
	keepPath := func(path []string) bool {
		if len(p.fields) > 0 {
			ok := false
			for _, f := range p.fields {
				if hasPrefix(path, f) {
					ok = true
				}
			}
			if !ok {
				return false
			}
		}
		for _, f := range p.xfields {
			if hasPrefix(path, f) {
				return false
			}
		}
		return true
	}
	leadsTo := func(path []string) bool {
		if len(p.fields) == 0 {
			return true
		}
		for _, f := range p.fields {
			if hasPrefix(path, f) || hasPrefix(f, path) {
				return true
			}
		}
		return false
	}
	for _, c := range flattenS(kids) {
		path := append(append([]string{}, rel...), c.Name)
		switch c.Kind {
		case dp.Leaf, dp.LeafList:
			l := d.Leaves[c.Name]
			unsetDefault := false
			if l == nil {
				// an unset leaf with a default may read as its default (never under trim)
				if c.Default == nil || c.Kind != dp.Leaf {
					continue
				}
				l = &dp.LVal{V: []string{*c.Default}}
				unsetDefault = true
			}
			if p.content == "config" && !c.Config {
				continue
			}
			if p.content == "nonconfig" && c.Config {
				continue
			}
			if !keepPath(path) {
				continue
			}
			if p.trim && c.Default != nil && !l.List && l.V[0] == *c.Default {
				continue
			}
			if unsetDefault {
				p.optional[prefix+c.Name] = l.String()
			} else {
				out[prefix+c.Name] = l.String()
			}
		case dp.Container:
			k := d.Kids[c.Name]
			if k == nil {
				continue
			}
			if p.content == "config" && !c.Config {
				continue
			}
			if !leadsTo(path) {
				continue
			}
			for _, f := range p.xfields {
				if hasPrefix(path, f) {
					k = nil
				}
			}
			if k == nil {
				continue
			}
			*containers++
			p.project(s, k, c.Children, path, lvl+1, prefix+c.Name+"/", out, containers, exactRange)
		case dp.List:
			l := d.Lists[c.Name]
			if l == nil {
				continue
			}
			if p.content == "config" && !c.Config {
				continue
			}
			if !leadsTo(path) {
				continue
			}
			skip := false
			for _, f := range p.xfields {
				if hasPrefix(path, f) {
					skip = true
				}
			}
			if skip {
				continue
			}
			*containers++
			entries := l.Entries
			windowed := p.hasRange && ((exactRange && pathEq(path, p.rangeOf)) || (!exactRange && hasPrefix(path, p.rangeOf)))
			if windowed {
				a, b := p.rStart, p.rEnd
				if a > len(entries) {
					a = len(entries)
				}
				if b < 0 || b > len(entries) {
					b = len(entries)
				}
				if b < a {
					b = a
				}
				entries = entries[a:b]
			}
			if p.depth > 0 && lvl+1 > p.depth {
				// entries are one level with their list: their content is the next level
			}
			for i, e := range entries {
				p.project(s, e, c.Children, path, lvl+1, fmt.Sprintf("%s%s[%d]/", prefix, c.Name, i), out, containers, exactRange)
			}
		}
	}
}

func pathEq(a, b []string) bool { return len(a) == len(b) && hasPrefix(a, b) }

func flattenS(cs []*dp.SNode) []*dp.SNode {
	var out []*dp.SNode
	for _, c := range cs {
		if c.Kind == dp.Choice || c.Kind == dp.Case {
			out = append(out, flattenS(c.Children)...)
		} else {
			out = append(out, c)
		}
	}
	return out
}

// schemaPaths lists data-node schema paths (names) below kids up to maxLen segments.
func schemaPaths(kids []*dp.SNode, maxLen int) [][]string {
	var out [][]string
	var rec func(cs []*dp.SNode, pre []string)
	rec = func(cs []*dp.SNode, pre []string) {
		if len(pre) >= maxLen {
			return
		}
		for _, c := range flattenS(cs) {
			p := append(append([]string{}, pre...), c.Name)
			out = append(out, p)
			if c.Kind == dp.Container || c.Kind == dp.List {
				rec(c.Children, p)
			}
		}
	}
	rec(kids, nil)
	return out
}

func listPaths(kids []*dp.SNode) [][]string {
	var out [][]string
	var rec func(cs []*dp.SNode, pre []string)
	rec = func(cs []*dp.SNode, pre []string) {
		for _, c := range flattenS(cs) {
			p := append(append([]string{}, pre...), c.Name)
			if c.Kind == dp.List {
				out = append(out, p)
			}
			if c.Kind == dp.Container || c.Kind == dp.List {
				rec(c.Children, p)
			}
		}
	}
	rec(kids, nil)
	return out
}

func (pp c07) Run(c *core.Ctx, idx int) {
	r := c.Rand
	o := dp.DefaultGen()
	o.MaxDepth = 2 + r.Intn(3)
	o.NonConfig = true
	o.Defaults = true
	o.Choices = idx%5 == 0
	o.Types = []string{"string", "int32", "uint8", "boolean", "enumeration", "int64", "decimal64", "bits", "empty", "identityref", "uint64"}
	s := dp.GenSchema(r, o)
	if err := s.Compile(); err != nil {
		c.R.Inconclusive = "generated schema does not compile: " + head(err.Error(), 300)
		return
	}
	do := dp.DefaultData()
	do.MaxEntries = 1 + r.Intn(5)
	do.PKid, do.PSet = 0.9, 0.7
	t := dp.GenTree(r, s, do)
	// set some leaves to exactly their default so that trim has something to do
	forceDefaults(r, t)
	pristine := t.Clone()
	store := dp.NewStore(s, t)
	b := store.Browser()
	c.SetSample(map[string]interface{}{"yang": head(s.Yang(), 1200), "tree": head(t.Dump(s), 800)})

	// targets
	type target struct {
		kind string
		path dp.DPath
	}
	targets := []target{{kind: "root"}}
	all := t.AllPaths()
	for i := 0; i < 3 && len(all) > 0; i++ {
		pth := all[r.Intn(len(all))]
		if !plainKeys(pth) {
			continue
		}
		n, l, _ := t.Resolve(pth)
		k := "container"
		if l != nil {
			k = "list"
		} else if n != nil && pth[len(pth)-1].Key != nil {
			k = "entry"
		}
		targets = append(targets, target{k, pth})
	}
	for _, tg := range targets {
		var tnode *dp.DNode
		var kids []*dp.SNode
		var tlist *dp.DList
		if len(tg.path) == 0 {
			tnode, kids = t, s.Top
		} else {
			n, l, _ := t.Resolve(tg.path)
			if l != nil {
				tlist = l
			} else {
				tnode, kids = n, n.S.Children
			}
		}
		// parameter sets for this target
		for k := 0; k < 14; k++ {
			p := pp.drawParams(c, s, kids, tlist, k)
			q := p.String()
			c.Eval()
			c.Progress()
			desc := fmt.Sprintf("Find(%q) on %s target", dp.PathString(tg.path)+"?"+q, tg.kind)
			var js string
			var err error
			// parameters may arrive in one query or be applied step by step to an already constrained selection:
			// the result is the intersection either way
			stepwise := len(p.query) > 1 && k%2 == 1
			if stepwise {
				desc += " applied stepwise"
			}
			panicked := c.Guard(desc, func() {
				var sel *node.Selection
				if !stepwise {
					sel, err = b.Root().Find(dp.PathString(tg.path) + "?" + q)
				} else {
					sel, err = b.Root().Find(dp.PathString(tg.path) + "?" + p.query[0])
					for _, more := range p.query[1:] {
						if err != nil || sel == nil {
							break
						}
						sel, err = sel.Constrain(more)
					}
				}
				if err != nil {
					return
				}
				if sel == nil {
					err = fmt.Errorf("verif: target not found")
					return
				}
				js, err = nodeutil.WriteJSON(sel)
			})
			if panicked {
				continue
			}
			// model
			exp := map[string]string{}
			containers := 0
			// fc.range windows the list it names; lists inside its entries keep all their rows
			exactRange := true
			proj := func() {
				exp = map[string]string{}
				p.optional = map[string]string{}
				containers = 0
				if tlist != nil {
					// parameter paths are relative to the target: for a list target that is below its entries
					for i, e := range tlist.Entries {
						p.project(s, e, tlist.S.Children, nil, 1, fmt.Sprintf("%s[%d]/", tlist.S.Name, i), exp, &containers, exactRange)
					}
				} else {
					p.project(s, tnode, kids, nil, 1, "", exp, &containers, exactRange)
				}
			}
			proj()
			wit := func() string {
				return fmt.Sprintf("query: %s\ntarget: %s %q\njson: %s\nschema:\n%stree:\n%s", q, tg.kind, tg.path.String(), head(js, 1200), s.Yang(), t.Dump(s))
			}
			pset := paramSet(p)
			if stepwise {
				pset += "/stepwise"
			}
			if d := dp.Diff(s, pristine, store.Root, dp.CmpOpts{}); d != "" {
				c.Violate("read-modified-data/"+pset, "a constrained read changed the data:\n%s\n%s", d, wit())
				store.Root = pristine.Clone()
			}
			if p.maxNode > 0 {
				// the limit: more containers than allowed => error; otherwise the unlimited answer
				if containers > p.maxNode {
					if err == nil {
						c.Violate("max-node-count-not-enforced", "the projection enters %d containers/lists, limit %d, but the read succeeded\n%s", containers, p.maxNode, wit())
					} else if !errors.Is(err, fc.ConflictError) {
						c.Count("max_node_other_error")
					}
					c.Shape("%s/%s/limit-hit", pset, tg.kind)
					continue
				}
			}
			if err != nil {
				c.Violate("error/"+pset+"/"+errClassText(err), "%s returned %v\n%s", desc, err, wit())
				continue
			}
			var jd *dp.JDecoded
			if tlist != nil {
				_, _, parent := t.Resolve(tg.path)
				jd = dp.DecodeJSON(s, parent.S, js, dp.JOpts{})
			} else {
				jd = dp.DecodeJSON(s, tnode.S, js, dp.JOpts{})
			}
			if len(jd.Problems) > 0 {
				c.Violate("json/"+pset+"/"+strings.SplitN(jd.Problems[0], ":", 2)[0], "%s\n%s", jd.Problems[0], wit())
				continue
			}
			got := map[string]string{}
			leafMap(jd.Tree, "", got)
			dropOptional := func() {
				for k, v := range got {
					if _, want := exp[k]; !want && p.optional[k] == v {
						delete(got, k)
					}
				}
			}
			dropOptional()
			if diff := mapDiff(exp, got); diff != "" {
				c.Violate("projection/"+pset+"/"+mapDiffClass(exp, got), "constrained read differs from the model projection:\n%s\n%s", diff, wit())
				continue
			}

			size := "empty"
			if len(exp) > 0 {
				size = "some"
			}
			c.Shape("%s/%s/%s", pset, tg.kind, size)
			c.Count("params_" + pset)
		}
		// invalid parameter values must be errors
		for _, bad := range []string{"depth=0", "depth=-1", "depth=abc", "depth=", "content=zz", "content=", "with-defaults=zz", "fc.range=nobang", "fc.range=l!x-y", "fc.range=l!", "fc.max-node-count=x", "fc.max-node-count=-1", "depth=1.5",
			// a raw semicolon does not separate alternatives (it has to be written %3B): the parameter cannot be read
			"fields=zz;yy", "depth=1;content=config", "fc.range=l!1-2-3", "fc.range=l!1-2-"} {
			c.Eval()
			var err error
			var js string
			if c.Guard("invalid "+bad, func() {
				var sel *node.Selection
				sel, err = b.Root().Find(dp.PathString(tg.path) + "?" + bad)
				if err == nil && sel != nil {
					js, err = nodeutil.WriteJSON(sel)
				}
			}) {
				continue
			}
			if err == nil {
				c.Violate("invalid-value-accepted/"+strings.SplitN(bad, "=", 2)[0]+"/"+invalidClass(bad), "the invalid parameter %q was answered with data instead of an error: %s", bad, head(js, 300))
			}
			c.Shape("invalid/%s", bad)
			// the same parameters given to Constrain
			c.Eval()
			err = nil
			if c.Guard("invalid (Constrain) "+bad, func() {
				var sel *node.Selection
				if sel, err = b.Root().Find(dp.PathString(tg.path)); err == nil && sel != nil {
					if sel, err = sel.Constrain(bad); err == nil && sel != nil {
						js, err = nodeutil.WriteJSON(sel)
					}
				}
			}) {
				continue
			}
			if err == nil {
				c.Violate("invalid-value-accepted/"+strings.SplitN(bad, "=", 2)[0]+"/"+invalidClass(bad)+"/constrain", "Constrain(%q) was answered with data instead of an error: %s", bad, head(js, 300))
			}
		}
	}
}

func invalidClass(bad string) string {
	v := strings.SplitN(bad, "=", 2)[1]
	switch {
	case v == "":
		return "empty"
	case strings.HasPrefix(v, "-"):
		return "negative"
	case v == "0":
		return "zero"
	case strings.ContainsAny(v, "0123456789") && strings.Contains(v, "."):
		return "fraction"
	}
	return "not-a-number-or-unknown"
}

func paramSet(p *c07params) string {
	var names []string
	if p.content != "" {
		names = append(names, "content")
	}
	if p.depth > 0 {
		names = append(names, "depth")
	}
	if len(p.fields) > 0 {
		n := "fields"
		for _, f := range p.fields {
			if len(f) > 1 {
				n = "fields-nested"
			}
		}
		if p.groupedSpelling {
			n += "-grouped"
		}
		names = append(names, n)
	}
	if len(p.xfields) > 0 {
		n := "xfields"
		for _, f := range p.xfields {
			if len(f) > 1 {
				n = "xfields-nested"
			}
		}
		names = append(names, n)
	}
	if p.trim {
		names = append(names, "trim")
	}
	if p.hasRange {
		n := "range"
		if len(p.rangeOf) > 1 {
			n = "range-nested"
		}
		if p.emptyWindow {
			n += "-empty"
		}
		names = append(names, n)
	}
	if p.maxNode > 0 {
		names = append(names, "maxnode")
	}
	if len(names) == 0 {
		return "none"
	}
	return strings.Join(names, "+")
}

func mapDiff(exp, got map[string]string) string {
	var lines []string
	for k, v := range exp {
		if g, ok := got[k]; !ok {
			lines = append(lines, fmt.Sprintf("missing  %s = %s", k, v))
		} else if g != v {
			lines = append(lines, fmt.Sprintf("changed  %s: expected %s, got %s", k, v, g))
		}
	}
	for k, v := range got {
		if _, ok := exp[k]; !ok {
			lines = append(lines, fmt.Sprintf("extra    %s = %s", k, v))
		}
	}
	sort.Strings(lines)
	if len(lines) > 12 {
		lines = append(lines[:12], fmt.Sprintf("... %d more", len(lines)-12))
	}
	return strings.Join(lines, "\n")
}

func mapDiffClass(exp, got map[string]string) string {
	missing, extra, changed := 0, 0, 0
	for k, v := range exp {
		if g, ok := got[k]; !ok {
			missing++
		} else if g != v {
			changed++
		}
	}
	for k := range got {
		if _, ok := exp[k]; !ok {
			extra++
		}
	}
	switch {
	case changed > 0:
		return "changed"
	case missing > 0 && extra > 0:
		return "missing-and-extra"
	case missing > 0:
		return "missing"
	}
	return "extra"
}

func forceDefaults(r interface{ Intn(int) int }, d *dp.DNode) {
	var kids []*dp.SNode
	if d.S != nil {
		kids = d.S.DataChildren()
	}
	for _, k := range kids {
		if k.Kind == dp.Leaf && k.Default != nil && !k.IsKey() && d.Leaves[k.Name] != nil && r.Intn(2) == 0 {
			d.Leaves[k.Name] = &dp.LVal{V: []string{*k.Default}}
		}
	}
	for _, k := range d.Kids {
		forceDefaults(r, k)
	}
	for _, l := range d.Lists {
		for _, e := range l.Entries {
			forceDefaults(r, e)
		}
	}
}

func (pp c07) drawParams(c *core.Ctx, s *dp.Schema, kids []*dp.SNode, tlist *dp.DList, k int) *c07params {
	r := c.Rand
	p := &c07params{}
	var skids []*dp.SNode = kids
	if tlist != nil {
		skids = tlist.S.Children
	}
	paths := schemaPaths(skids, 5)
	lists := listPaths(skids)
	pick := func() []string { return paths[r.Intn(len(paths))] }
	enc := func(alts [][]string) string {
		var parts []string
		for _, a := range alts {
			parts = append(parts, strings.Join(a, "/"))
		}
		return url.QueryEscape(strings.Join(parts, ";"))
	}
	// grouped spelling: alternatives that share a prefix written as prefix(rest1;rest2), the same set of paths
	grouped := func() ([][]string, string) {
		if r.Intn(4) == 0 && len(paths) >= 2 {
			// a group that starts the expression: (p1;p2)
			alts := [][]string{pick(), pick()}
			var parts []string
			for _, a := range alts {
				parts = append(parts, strings.Join(a, "/"))
			}
			return alts, url.QueryEscape("(" + strings.Join(parts, ";") + ")")
		}
		for try := 0; try < 8; try++ {
			pre := pick()
			var ext [][]string
			for _, q := range paths {
				if len(q) > len(pre) && strings.Join(q[:len(pre)], "/") == strings.Join(pre, "/") {
					ext = append(ext, q)
				}
			}
			if len(ext) < 2 {
				continue
			}
			r.Shuffle(len(ext), func(i, j int) { ext[i], ext[j] = ext[j], ext[i] })
			if len(ext) > 3 {
				ext = ext[:2+r.Intn(2)]
			}
			var rests []string
			for _, q := range ext {
				rests = append(rests, strings.Join(q[len(pre):], "/"))
			}
			return ext, url.QueryEscape(strings.Join(pre, "/") + "(" + strings.Join(rests, ";") + ")")
		}
		return nil, ""
	}
	add := func(kind int) {
		switch kind {
		case 0:
			p.content = []string{"config", "nonconfig", "all"}[r.Intn(3)]
			p.query = append(p.query, "content="+p.content)
			if p.content == "all" {
				p.content = ""
				// keep the name for shapes
			}
		case 1:
			p.depth = 1 + r.Intn(6)
			p.query = append(p.query, fmt.Sprintf("depth=%d", p.depth))
		case 2:
			if len(paths) == 0 {
				return
			}
			if r.Intn(3) == 0 {
				if alts, q := grouped(); alts != nil {
					p.fields = alts
					p.query = append(p.query, "fields="+q)
					p.groupedSpelling = true
					return
				}
			}
			n := 1 + r.Intn(3)
			for i := 0; i < n; i++ {
				p.fields = append(p.fields, pick())
			}
			p.query = append(p.query, "fields="+enc(p.fields))
		case 3:
			if len(paths) == 0 {
				return
			}
			if r.Intn(3) == 0 {
				if alts, q := grouped(); alts != nil {
					p.xfields = alts
					p.query = append(p.query, "fc.xfields="+q)
					p.groupedSpelling = true
					return
				}
			}
			n := 1 + r.Intn(2)
			for i := 0; i < n; i++ {
				p.xfields = append(p.xfields, pick())
			}
			p.query = append(p.query, "fc.xfields="+enc(p.xfields))
		case 4:
			p.trim = true
			p.query = append(p.query, "with-defaults=trim")
		case 5:
			if len(lists) == 0 {
				return
			}
			p.hasRange = true
			p.rangeOf = lists[r.Intn(len(lists))]
			p.rStart = r.Intn(4)
			p.rEnd = -1
			spec := fmt.Sprintf("%d", p.rStart)
			if r.Intn(3) != 0 {
				// [start,end): end == start is an empty window, end < start an inverted (empty) one
				p.rEnd = p.rStart - 1 + r.Intn(6)
				if p.rEnd < 0 {
					p.rEnd = 0
				}
				spec = fmt.Sprintf("%d-%d", p.rStart, p.rEnd)
				if p.rEnd <= p.rStart {
					p.emptyWindow = true
				}
			} else if r.Intn(2) == 0 {
				spec += "-"
			}
			p.query = append(p.query, "fc.range="+url.QueryEscape(strings.Join(p.rangeOf, "/")+"!"+spec))
		case 6:
			p.maxNode = 1 + r.Intn(12)
			p.query = append(p.query, fmt.Sprintf("fc.max-node-count=%d", p.maxNode))
		}
	}
	switch {
	case k < 7:
		add(k)
	case k < 12:
		// pairs
		a := r.Intn(7)
		bb := r.Intn(7)
		for bb == a {
			bb = r.Intn(7)
		}
		add(a)
		add(bb)
	default:
		seen := map[int]bool{}
		for len(seen) < 3 {
			x := r.Intn(7)
			if !seen[x] {
				seen[x] = true
				add(x)
			}
		}
	}
	return p
}
