package props

import "verif/core"

func c17LookupCases(tier string) int { return 0 }
func c17Lookup(c *core.Ctx, k int)   {}
