package props

import (
	"fmt"
	"sort"
	"strings"

	"github.com/freeconf/yang/node"
	"github.com/freeconf/yang/nodeutil"
	"github.com/freeconf/yang/parser"

	"verif/core"
	"verif/dp"
)

// Keyed lookup half of C17: a list kept in a Go slice or map (nodeutil.Reflect / nodeutil.Node over maps, slices of maps,
// slices of struct pointers / values, keyed maps) must find, for every key type, exactly the entry whose key leaves equal
// the requested key, and nothing when there is none. The model is the list the harness filled the Go values from.

var c17keyCatalog = map[string][]string{
	"int8":    {"-128", "-127", "-1", "0", "1", "126", "127"},
	"int16":   {"-32768", "-1", "0", "1", "255", "256", "32767"},
	"int32":   {"-2147483648", "-65536", "-1", "0", "1", "65536", "2147483647"},
	"int64":   {"-9223372036854775808", "-9007199254740993", "-1", "0", "1", "9007199254740993", "9223372036854775807"},
	"uint8":   {"0", "1", "127", "128", "254", "255"},
	"uint16":  {"0", "1", "32767", "32768", "65535"},
	"uint32":  {"0", "1", "2147483647", "2147483648", "4294967295"},
	"uint64":  {"0", "1", "9007199254740993", "9223372036854775807", "9223372036854775808", "18446744073709551615"},
	"string":  {"a", "A", "b", "aa", "ab", "zz", "10", "9", "1", "01", "a,b", "b,c", "c"},
	"boolean": {"true", "false"},
}

type c17keyCfg struct {
	types []string
}

var c17keyCfgs = []c17keyCfg{
	{[]string{"string"}}, {[]string{"int32"}}, {[]string{"int64"}}, {[]string{"int8"}}, {[]string{"int16"}}, {[]string{"uint8"}}, {[]string{"uint16"}},
	{[]string{"uint32"}}, {[]string{"uint64"}}, {[]string{"boolean"}},
	{[]string{"int32", "string"}}, {[]string{"uint8", "uint8"}}, {[]string{"string", "boolean"}}, {[]string{"int64", "uint64", "int8"}}, {[]string{"string", "string"}},
}

func c17LookupCases(tier string) int {
	n := len(dp.GoModes) * len(c17keyCfgs)
	if tier == "thorough" {
		n = 6 * n // other PRNG draws: list representations, present/absent split
	}
	return n + len(c17exoticKinds)*2 + len(c17builtOpts) + len(c17userMaps)*2
}

// lists the library itself builds (an edit into an empty Go map creates the map that holds the list) under the options that change how
// nodeutil.Node keeps enumeration / identityref leaves in Go data
var c17builtOpts = []struct {
	name string
	opts nodeutil.NodeOptions
}{{"defaults", nodeutil.NodeOptions{}}, {"EnumAsStrings", nodeutil.NodeOptions{EnumAsStrings: true}}, {"EnumAsInt", nodeutil.NodeOptions{EnumAsInt: true}}, {"IdentitiesAsStrings", nodeutil.NodeOptions{IdentitiesAsStrings: true}}, {"reflect", nodeutil.NodeOptions{}}}

func c17Built(c *core.Ctx, k int) {
	cfg := c17builtOpts[k]
	yang := `module m { namespace "urn:m"; prefix m; revision 2020-01-01; identity base-id; identity alpha { base base-id; } identity beta { base base-id; } identity gamma { base base-id; }
  list le { key id; leaf id { type enumeration { enum red; enum green { value 7; } enum blue; } } leaf payload { type string; } }
  list li { key id; leaf id { type identityref { base base-id; } } leaf payload { type string; } }
  list ls { key id; leaf id { type string; } leaf payload { type string; } }
  list l8 { key id; leaf id { type uint8; } leaf payload { type string; } }
  list l3 { key id; leaf id { type int32; } leaf payload { type string; } } }`
	m, err := parser.LoadModuleFromString(nil, yang)
	if err != nil {
		c.R.Inconclusive = "built-list schema does not load: " + head(err.Error(), 200)
		return
	}
	lists := []struct {
		name            string
		present, absent []string
		quote           bool
	}{{"le", []string{"green", "red"}, []string{"blue"}, true}, {"li", []string{"beta", "alpha"}, []string{"gamma"}, true}, {"ls", []string{"b", "a", "10", "9"}, []string{"c"}, true},
		{"l8", []string{"200", "3", "0"}, []string{"4"}, false}, {"l3", []string{"-5", "70000", "0"}, []string{"4"}, false}}
	app := map[string]interface{}{}
	var n node.Node = &nodeutil.Node{Object: app, Options: cfg.opts}
	if cfg.name == "reflect" {
		n = nodeutil.ReflectChild(app)
	}
	root := node.NewBrowser(m, n).Root()
	c.SetSample(map[string]interface{}{"store": "Go map filled by the library", "options": cfg.name})
	jv := func(quote bool, v string) string {
		if quote {
			return fmt.Sprintf("%q", v)
		}
		return v
	}
	for _, l := range lists {
		tag := fmt.Sprintf("built/%s/%s", cfg.name, l.name)
		var es []string
		for _, k := range l.present {
			es = append(es, fmt.Sprintf(`{"id":%s,"payload":"p-%s"}`, jv(l.quote, k), k))
		}
		doc := fmt.Sprintf(`{%q:[%s]}`, l.name, strings.Join(es, ","))
		c.Eval()
		var uerr error
		if c.Guard("fill "+tag, func() {
			in, e := nodeutil.ReadJSON(doc)
			if e != nil {
				uerr = e
				return
			}
			uerr = root.UpsertFrom(in)
		}) {
			continue
		}
		if uerr != nil {
			c.Violate("lookup-error/"+tag+"/fill", "UpsertFrom(%s) into an empty Go map failed: %v", doc, uerr)
			continue
		}
		find := func(k string) (string, bool, error) {
			var sel *node.Selection
			var ferr error
			payload := ""
			if c.Guard("Find "+l.name+"="+k, func() {
				sel, ferr = root.Find(l.name + "=" + k)
				if ferr == nil && sel != nil {
					if v, e := sel.GetValue("payload"); e != nil {
						ferr = e
					} else if v != nil {
						payload = v.String()
					}
				}
			}) {
				return "", false, fmt.Errorf("panic")
			}
			return payload, sel != nil, ferr
		}
		check := func(when string) {
			for _, k := range l.present {
				c.Eval()
				c.Shape("%s/present", tag)
				got, found, ferr := find(k)
				if ferr != nil && ferr.Error() == "panic" {
					continue
				}
				if ferr != nil || !found || got != "p-"+k {
					c.Violate("lookup-missed/"+tag, "%s: Find(%q) = found %v, payload %q, error %v; the entry was written with payload %q", when, l.name+"="+k, found, got, ferr, "p-"+k)
				}
			}
			for _, k := range l.absent {
				c.Eval()
				c.Shape("%s/absent", tag)
				if _, found, ferr := find(k); found || (ferr != nil && ferr.Error() != "panic") {
					c.Violate("lookup-found-absent/"+tag, "%s: Find(%q) = found %v, error %v; no entry has that key", when, l.name+"="+k, found, ferr)
				}
			}
		}
		check("after the edit that created the list")
		// the same key again: the entry is found and merged, not replaced by a new one
		c.Eval()
		again := fmt.Sprintf(`{%q:[{"id":%s}]}`, l.name, jv(l.quote, l.present[0]))
		if !c.Guard("upsert again "+tag, func() {
			in, _ := nodeutil.ReadJSON(again)
			uerr = root.UpsertFrom(in)
		}) {
			if uerr != nil {
				c.Violate("lookup-error/"+tag+"/again", "UpsertFrom(%s) failed: %v", again, uerr)
			}
			check("after an upsert naming " + l.present[0] + " again")
		}
		// every row once
		c.Eval()
		var rows []string
		var rerr error
		if !c.Guard("rows "+tag, func() {
			lsel, e := root.Find(l.name)
			if e != nil || lsel == nil {
				rerr = fmt.Errorf("list not found: %v", e)
				return
			}
			it, e := lsel.First()
			for ; e == nil && it.Selection != nil; it, e = it.Next() {
				if v, _ := it.Selection.GetValue("payload"); v != nil {
					rows = append(rows, v.String())
				}
			}
			rerr = e
		}) {
			want := map[string]bool{}
			for _, k := range l.present {
				want["p-"+k] = true
			}
			okRows := len(rows) == len(want)
			for _, p := range rows {
				okRows = okRows && want[p]
			}
			if rerr != nil || !okRows {
				c.Violate("lookup-rows/"+tag, "walking the list gives %v (error %v), it holds %v", rows, rerr, l.present)
			}
		}
		// delete by key removes that entry and no other
		c.Eval()
		victim := l.present[len(l.present)-1]
		var derr error
		if !c.Guard("delete "+tag, func() {
			sel, e := root.Find(l.name + "=" + victim)
			if e != nil || sel == nil {
				derr = fmt.Errorf("not found: %v", e)
				return
			}
			derr = sel.Delete()
		}) {
			if derr != nil {
				c.Violate("lookup-error/"+tag+"/delete", "deleting %s=%s failed: %v", l.name, victim, derr)
			} else {
				l.absent = append(l.absent, victim)
				l.present = l.present[:len(l.present)-1]
				check("after deleting " + victim)
			}
		}
	}
}

// key types whose Go values are not plain comparable scalars of one type: lists kept as []map[string]interface{} with the natural Go
// value for the key leaf ([]byte, float64, the enum label, an int or a string for a union), under both reflection nodes
var c17exoticKinds = []struct {
	name, typ string
	keys      []interface{} // Go values of the key leaf; the first half (rounded up) is present
	path      []string      // how each key is written in a path
}{
	{"binary", "binary", []interface{}{[]byte("ab"), []byte("cd"), []byte{0}, []byte{0xff, 0xfe}, []byte("abc"), []byte("a"), []byte{}}, []string{"YWI%3D", "Y2Q%3D", "AA%3D%3D", "%2F%2F4%3D", "YWJj", "YQ%3D%3D", ""}},
	{"decimal64", "decimal64 { fraction-digits 2; }", []interface{}{1.5, 2.25, -0.01, 0.0, 100.0, 1.51, -1.5, 2.2}, []string{"1.5", "2.25", "-0.01", "0", "100", "1.51", "-1.5", "2.2"}},
	{"enumeration", "enumeration { enum a; enum b; enum ab; enum c { value 10; } enum d; }", []interface{}{"a", "ab", "c", "b", "d"}, []string{"a", "ab", "c", "b", "d"}},
	{"union-of-enumerations", "union { type enumeration { enum x; enum y; } type enumeration { enum z; enum w; enum x2; } }", []interface{}{"x", "w", "x2", "z", "y"}, []string{"x", "w", "x2", "z", "y"}},
	{"union", "union { type int32; type string; }", []interface{}{5, "x", -1, "5x", "10", 7, "y", 50}, []string{"5", "x", "-1", "5x", "10", "7", "y", "50"}},
}

// lists kept in Go maps the user made, whose key type is another number kind than the Go value of the key leaf (a decimal64 leaf in a
// map[int]T, an int64 leaf in a map[float64]T, an int16 leaf in a map[uint16]T): a requested key the map's key type cannot represent
// equals no entry - the lookup finds nothing, or refuses the key - whatever entry the converted number would land on.
var c17userMaps = []struct {
	name, typ string
	data      func() interface{}
	present   map[string]string // path key -> payload
	absent    []string
}{
	{"decimal64-in-map[int]", "decimal64 { fraction-digits 2; }", func() interface{} {
		return map[int]interface{}{1: map[string]interface{}{"k": 1.0, "payload": "one"}, 7: map[string]interface{}{"k": 7.0, "payload": "seven"}, -3: map[string]interface{}{"k": -3.0, "payload": "minus-three"}}
	}, map[string]string{"1": "one", "7": "seven", "-3": "minus-three", "1.00": "one"}, []string{"1.5", "1.50", "7.9", "-3.01", "0.99", "2", "-2.5"}},
	{"decimal64-in-map[uint64]", "decimal64 { fraction-digits 1; }", func() interface{} {
		return map[uint64]interface{}{0: map[string]interface{}{"k": 0.0, "payload": "zero"}, 7: map[string]interface{}{"k": 7.0, "payload": "seven"}}
	}, map[string]string{"0": "zero", "7": "seven"}, []string{"7.9", "0.5", "-1", "-0.1", "6"}},
	{"int64-in-map[float64]", "int64", func() interface{} {
		return map[float64]interface{}{9007199254740992: map[string]interface{}{"k": int64(9007199254740992), "payload": "big"}, 5: map[string]interface{}{"k": int64(5), "payload": "five"}}
	}, map[string]string{"9007199254740992": "big", "5": "five"}, []string{"9007199254740993", "6", "-5"}},
	{"int16-in-map[uint16]", "int16", func() interface{} {
		return map[uint16]interface{}{65535: map[string]interface{}{"k": int16(-1), "payload": "top"}, 3: map[string]interface{}{"k": int16(3), "payload": "three"}}
	}, map[string]string{"3": "three"}, []string{"-1", "-2", "4"}},
	{"uint64-in-map[int64]", "uint64", func() interface{} {
		return map[int64]interface{}{-1: map[string]interface{}{"k": uint64(1), "payload": "minus"}, 9: map[string]interface{}{"k": uint64(9), "payload": "nine"}}
	}, map[string]string{"9": "nine"}, []string{"18446744073709551615", "10", "0"}},
	{"int32-in-map[int8]", "int32", func() interface{} {
		return map[int8]interface{}{44: map[string]interface{}{"k": int32(44), "payload": "forty-four"}, -128: map[string]interface{}{"k": int32(-128), "payload": "low"}}
	}, map[string]string{"44": "forty-four", "-128": "low"}, []string{"300", "128", "-129", "65580"}},
}

func c17UserMap(c *core.Ctx, k int) {
	um := c17userMaps[k/2]
	api := []string{"reflect", "node"}[k%2]
	yang := fmt.Sprintf("module m { namespace \"urn:m\"; prefix m; revision 2020-01-01; list l { key k; leaf k { type %s } leaf payload { type string; } } }", strings.TrimSuffix(um.typ, ";")+func() string {
		if strings.HasSuffix(um.typ, "}") {
			return ""
		}
		return ";"
	}())
	m, err := parser.LoadModuleFromString(nil, yang)
	if err != nil {
		c.R.Inconclusive = "lookup schema does not load: " + head(err.Error(), 200)
		return
	}
	data := map[string]interface{}{"l": um.data()}
	var n node.Node
	if api == "reflect" {
		n = nodeutil.ReflectChild(data)
	} else {
		n = &nodeutil.Node{Object: data}
	}
	b := node.NewBrowser(m, n)
	tag := fmt.Sprintf("%s-map/user-map/%s", api, um.name)
	c.SetSample(map[string]interface{}{"store": api, "map": um.name, "present": um.present, "absent": um.absent})
	var pres []string
	for pk := range um.present {
		pres = append(pres, pk)
	}
	sort.Strings(pres)
	ask := func(pk string) (*node.Selection, error, bool) {
		var sel *node.Selection
		var ferr error
		if c.Guard("Find l="+pk, func() { sel, ferr = b.Root().Find("l=" + pk) }) {
			return nil, nil, true
		}
		return sel, ferr, false
	}
	for _, pk := range pres {
		c.Eval()
		c.Shape("%s/present", tag)
		sel, ferr, bad := ask(pk)
		if bad {
			continue
		}
		if ferr != nil || sel == nil {
			c.Violate("lookup-missed/"+tag, "Find(%q) selected nothing (%v) although the %T holds that entry", "l="+pk, ferr, data["l"])
			continue
		}
		v, _ := sel.GetValue("payload")
		if v == nil || v.String() != um.present[pk] {
			c.Violate("lookup-wrong-entry/"+tag, "Find(%q) selected the entry with payload %v, want %q", "l="+pk, v, um.present[pk])
		}
	}
	for _, pk := range um.absent {
		c.Eval()
		c.Shape("%s/absent", tag)
		sel, ferr, bad := ask(pk)
		if bad {
			continue
		}
		if ferr == nil && sel != nil {
			v, _ := sel.GetValue("payload")
			c.Violate("lookup-found-absent/"+tag, "Find(%q) selected the entry with payload %v: no entry of the %T has a key equal to %s", "l="+pk, v, data["l"], pk)
		}
	}
}

func c17Exotic(c *core.Ctx, k int) {
	kind := c17exoticKinds[k/2]
	api := []string{"reflect", "node"}[k%2]
	yang := fmt.Sprintf("module m { namespace \"urn:m\"; prefix m; revision 2020-01-01; list l { key k; leaf k { type %s } leaf payload { type string; } } }", strings.TrimSuffix(kind.typ, ";")+func() string {
		if strings.HasSuffix(kind.typ, "}") {
			return ""
		}
		return ";"
	}())
	m, err := parser.LoadModuleFromString(nil, yang)
	if err != nil {
		c.R.Inconclusive = "lookup schema does not load: " + head(err.Error(), 200)
		return
	}
	nPresent := (len(kind.keys) + 1) / 2
	order := c.Rand.Perm(nPresent)
	var rows []map[string]interface{}
	for _, i := range order {
		rows = append(rows, map[string]interface{}{"k": kind.keys[i], "payload": fmt.Sprintf("entry-%d", i)})
	}
	data := map[string]interface{}{"l": rows}
	var n node.Node
	if api == "reflect" {
		n = nodeutil.ReflectChild(data)
	} else {
		n = &nodeutil.Node{Object: data}
	}
	b := node.NewBrowser(m, n)
	c.SetSample(map[string]interface{}{"store": api + "-map", "key-type": kind.name, "present": nPresent, "asked": len(kind.keys)})
	tag := fmt.Sprintf("%s-map/slice-of-maps/%s", api, kind.name)
	for i, pk := range kind.path {
		if pk == "" {
			continue // an empty key cannot be written in a path
		}
		present := i < nPresent
		c.Eval()
		c.Shape("%s/present=%v", tag, present)
		var sel *node.Selection
		var ferr error
		if c.Guard("Find l="+pk, func() { sel, ferr = b.Root().Find("l=" + pk) }) {
			continue
		}
		if ferr != nil {
			c.Violate("lookup-error/"+tag, "Find(%q) on a list kept as []map[string]interface{} (keys %v) returned %v", "l="+pk, kind.keys[:nPresent], ferr)
			continue
		}
		if !present {
			if sel != nil {
				c.Violate("lookup-found-absent/"+tag, "Find(%q) selected an entry although no entry has that key; present keys: %v", "l="+pk, kind.keys[:nPresent])
			}
			continue
		}
		if sel == nil {
			c.Violate("lookup-missed/"+tag, "Find(%q) selected nothing although the entry exists; present keys: %v", "l="+pk, kind.keys[:nPresent])
			continue
		}
		var got interface{}
		if c.Guard("read payload", func() {
			v, e := sel.GetValue("payload")
			ferr = e
			if v != nil {
				got = v.Value()
			}
		}) {
			continue
		}
		if want := fmt.Sprintf("entry-%d", i); ferr != nil || got != want {
			c.Violate("lookup-wrong-entry/"+tag, "Find(%q) selected the entry with payload %v (%v), want %q; present keys: %v", "l="+pk, got, ferr, want, kind.keys[:nPresent])
		}
	}
}

func c17Lookup(c *core.Ctx, k int) {
	um := len(c17userMaps) * 2
	if base := c17LookupCases(c.Tier) - um; k >= base {
		c17UserMap(c, k-base)
		return
	}
	if base := c17LookupCases(c.Tier) - um - len(c17builtOpts); k >= base {
		c17Built(c, k-base)
		return
	}
	if base := c17LookupCases(c.Tier) - um - len(c17builtOpts) - len(c17exoticKinds)*2; k >= base {
		c17Exotic(c, k-base)
		return
	}
	gm := dp.GoModes[k%len(dp.GoModes)]
	cfg := c17keyCfgs[(k/len(dp.GoModes))%len(c17keyCfgs)]
	r := c.Rand
	supported := false
	if len(cfg.types) == 1 || gm.Shape == "struct" {
		supported = true
		for _, t := range cfg.types {
			ok := false
			for _, kt := range dp.GoKeyTypes(gm) {
				if kt == t {
					ok = true
				}
			}
			supported = supported && ok
		}
	}
	if !supported {
		c.Count("lookup_key_config_outside_store_domain")
		return
	}
	// schema: one list, key leaves k0..kn, a payload leaf naming the entry
	lst := &dp.SNode{Kind: dp.List, Name: "l"}
	for i, t := range cfg.types {
		kn := fmt.Sprintf("k%d", i)
		lst.Keys = append(lst.Keys, kn)
		lst.Children = append(lst.Children, &dp.SNode{Kind: dp.Leaf, Name: kn, Type: &dp.SType{Base: t}})
	}
	lst.Children = append(lst.Children, &dp.SNode{Kind: dp.Leaf, Name: "payload", Type: &dp.SType{Base: "string"}})
	s := &dp.Schema{Name: "m", Prefix: "m", NS: "urn:m", Top: []*dp.SNode{lst}}
	if err := s.Compile(); err != nil {
		c.R.Inconclusive = "lookup schema does not compile: " + head(err.Error(), 200)
		return
	}
	// all key tuples of the catalog product; a PRNG-chosen half is present, the rest is asked for and must not be found
	tuples := [][]string{{}}
	for _, t := range cfg.types {
		var next [][]string
		for _, pre := range tuples {
			for _, v := range c17keyCatalog[t] {
				next = append(next, append(append([]string{}, pre...), v))
			}
		}
		tuples = next
	}
	r.Shuffle(len(tuples), func(i, j int) { tuples[i], tuples[j] = tuples[j], tuples[i] })
	if len(tuples) > 60 {
		tuples = tuples[:60]
	}
	nPresent := (len(tuples) + 1) / 2
	if len(cfg.types) == 2 && cfg.types[0] == "string" && cfg.types[1] == "string" {
		// tuples that read the same once their components are joined with a comma: one pair with both present (either order in
		// the store), one pair with one present and the other asked for
		var rest [][]string
		for _, tu := range tuples {
			if j := strings.Join(tu, ","); j != "a,b,c" && j != "x,y,z" {
				rest = append(rest, tu)
			}
		}
		both := [][]string{{"a", "b,c"}, {"a,b", "c"}}
		one := [][]string{{"x", "y,z"}, {"x,y", "z"}}
		if r.Intn(2) == 0 {
			both[0], both[1] = both[1], both[0]
		}
		if r.Intn(2) == 0 {
			one[0], one[1] = one[1], one[0]
		}
		tuples = append([][]string{both[0], one[0], both[1]}, rest...)
		nPresent = 3 + len(rest)/2
		tuples = append(tuples, one[1])
	}
	root := dp.NewDNode(nil)
	dl := &dp.DList{S: lst}
	root.Lists["l"] = dl
	payload := map[string]string{}
	for i, tu := range tuples[:nPresent] {
		e := dp.NewDNode(lst)
		for j, v := range tu {
			e.Leaves[lst.Keys[j]] = &dp.LVal{V: []string{v}}
		}
		p := fmt.Sprintf("entry-%d", i)
		e.Leaves["payload"] = &dp.LVal{V: []string{p}}
		payload[strings.Join(tu, "\x00")] = p
		dl.Entries = append(dl.Entries, e)
	}
	g := dp.NewGoStore(r, s, gm, root)
	repr := g.Repr[lst]
	c.SetSample(map[string]interface{}{"store": gm.String(), "list": repr, "key-types": cfg.types, "present": nPresent, "asked": len(tuples)})
	b := g.Browser()
	for i, tu := range tuples {
		present := i < nPresent
		c.Eval()
		c.Shape("%s/%s/%s/present=%v", gm, repr, strings.Join(cfg.types, ","), present)
		pth := dp.DPath{{Name: "l", Key: tu}}
		var sel *node.Selection
		var err error
		tag := fmt.Sprintf("%s/%s/%s", gm, repr, strings.Join(cfg.types, ","))
		if c.Guard("Find "+dp.PathString(pth), func() { sel, err = dp.FindSel(b, pth) }) {
			continue
		}
		if err != nil {
			c.Violate("lookup-error/"+tag, "Find(%q) on a %s list kept as %s returned %v", dp.PathString(pth), gm, repr, err)
			continue
		}
		if !present {
			if sel != nil {
				got, _ := sel.GetValue("payload")
				c.Violate("lookup-found-absent/"+tag, "Find(%q) selected an entry (payload %v) although no entry has that key; present keys: %v", dp.PathString(pth), got, tuples[:nPresent])
			}
			continue
		}
		if sel == nil {
			c.Violate("lookup-missed/"+tag, "Find(%q) selected nothing although the entry exists; present keys: %v", dp.PathString(pth), tuples[:nPresent])
			continue
		}
		var got interface{}
		if c.Guard("read payload", func() {
			v, e := sel.GetValue("payload")
			err = e
			if v != nil {
				got = v.Value()
			}
		}) {
			continue
		}
		if err != nil || got != payload[strings.Join(tu, "\x00")] {
			c.Violate("lookup-wrong-entry/"+tag, "Find(%q) selected the entry with payload %v (%v), the entry with that key has payload %q; present keys: %v",
				dp.PathString(pth), got, err, payload[strings.Join(tu, "\x00")], tuples[:nPresent])
		}
	}
	// one edit through one list node that appends entries in no particular key order and names one of them twice: every row has to be
	// found again by its key while the edit runs (the second mention merges) and afterwards
	if absent := tuples[nPresent:]; len(absent) >= 3 {
		mk := func(tu []string, pay string) *dp.DNode {
			e := dp.NewDNode(lst)
			for j, v := range tu {
				e.Leaves[lst.Keys[j]] = &dp.LVal{V: []string{v}}
			}
			e.Leaves["payload"] = &dp.LVal{V: []string{pay}}
			return e
		}
		holder := dp.NewDNode(nil)
		hl := &dp.DList{S: lst}
		holder.Lists["l"] = hl
		for i, tu := range absent[:3] {
			hl.Entries = append(hl.Entries, mk(tu, fmt.Sprintf("new-%d", i)))
		}
		again := r.Intn(3)
		hl.Entries = append(hl.Entries, mk(absent[again], "new-again"))
		c.Eval()
		var uerr error
		if !c.Guard("upsert through the list node", func() {
			lsel, e := b.Root().Find("l")
			if e != nil || lsel == nil {
				uerr = fmt.Errorf("list not found: %v", e)
				return
			}
			uerr = lsel.UpsertFrom(dp.NewStore(s, nil).ListAt(holder, "l"))
		}) {
			tag := fmt.Sprintf("%s/%s/%s", gm, repr, strings.Join(cfg.types, ","))
			if uerr != nil {
				c.Violate("lookup-after-append/error/"+tag, "upsert of %v (entry %d named twice) through the list node failed: %v", absent[:3], again, uerr)
			} else if snap, e := g.Snapshot(); e != nil {
				c.Violate("lookup-store-corrupt/"+gm.String(), "%v", e)
			} else {
				count := map[string]int{}
				pay := map[string]string{}
				if sl := snap.Lists["l"]; sl != nil {
					for _, e := range sl.Entries {
						k := strings.Join(e.Key(), "\x00")
						count[k]++
						if p := e.Leaves["payload"]; p != nil {
							pay[k] = p.V[0]
						}
					}
				}
				for i, tu := range absent[:3] {
					k := strings.Join(tu, "\x00")
					wantPay := fmt.Sprintf("new-%d", i)
					if i == again {
						wantPay = "new-again"
					}
					if count[k] != 1 || pay[k] != wantPay {
						c.Violate("lookup-after-append/"+tag, "after one upsert of %v with entry %d named twice the list holds %d entries with key %q (payload %q, want one entry with %q)", absent[:3], again, count[k], tu, pay[k], wantPay)
						break
					}
				}
			}
		}
		return
	}
	// the Go values are untouched by lookups
	if snap, err := g.Snapshot(); err != nil {
		c.Violate("lookup-store-corrupt/"+gm.String(), "%v", err)
	} else if d := dp.Diff(s, root, snap, dp.CmpOpts{IgnoreListOrder: true}); d != "" && gm.Shape == "map" {
		c.Violate("lookup-modified-store/"+gm.String(), "lookups changed the store:\n%s", d)
	}
}
