package props

import (
	"encoding/xml"
	"fmt"
	"io"
	"strings"

	"github.com/freeconf/yang/node"
	"github.com/freeconf/yang/nodeutil"

	"verif/core"
	"verif/dp"
)

// C19 — XML export and import are inverse on every data tree.

type c19 struct{}

func init() { core.Register(c19{}) }

func (c19) ID() string    { return "C19" }
func (c19) Level() string { return "exploration" }
func (c19) Rule() string {
	return "generated schema (all leaf types, nested lists, choices, augmenting-module namespaces) + tree with the XML-hostile text catalog (markup, quotes, " +
		"CDATA terminator, leading/trailing/inner whitespace, non-ASCII, empty) x writer {WriteXMLDoc compact, WriteXMLDoc pretty, WriteXML}; monitors: " +
		"output parsed by encoding/xml in strict mode (single root, well-formed) and compared with the model; ReadXMLDoc(output) upserted into a capture " +
		"store == source tree; 5 sibling interleavings of a reference document import to the same tree. A shape = (writer, tree shape, text class); " +
		"trivial = empty tree"
}
func (c19) MinEvals(string) int { return 500 }

func (c19) NumCases(tier string, seed int64) int {
	if tier == "thorough" {
		return 4000
	}
	return 400
}

var xmlHostile = []string{"<", ">", "&", "\"", "'", "]]>", "<a>b</a>", "&amp;", "&#65;", "<!--x-->", "<![CDATA[x]]>", "a b", "a  b", "tab\there", "é", "世界", "\U0001F600", "x", "1", "a&b<c>d\"e'f", "--", "?>", "<?x?>"}
var xmlWhitespace = []string{" lead", "trail ", " both ", "  ", "a\nb", "\ttab", "line\n", "\r\n"}

func textClass(t *dp.DNode) string {
	cls := "plain"
	var rec func(d *dp.DNode)
	rec = func(d *dp.DNode) {
		for _, l := range d.Leaves {
			for _, v := range l.V {
				if strings.ContainsAny(v, "<>&\"'") {
					cls = "markup"
				}
			}
		}
		for _, k := range d.Kids {
			rec(k)
		}
		for _, l := range d.Lists {
			for _, e := range l.Entries {
				rec(e)
			}
		}
	}
	rec(t)
	return cls
}

func (p c19) Run(c *core.Ctx, idx int) {
	r := c.Rand
	o := dp.DefaultGen()
	o.Choices = idx%3 == 0
	o.NestedChoice = idx%6 == 0
	o.Aug = idx%4 == 1
	o.AugSub = idx%8 == 1
	o.Sub = idx%4 == 3 // some top-level nodes written in a submodule: they have the module's namespace
	o.Presence = true
	o.ListsOfAll = true
	o.NumericEnumNames = true
	o.MaxDepth = 2 + r.Intn(3)
	if idx%5 == 4 {
		o.Types = []string{"string", "enumeration", "empty", "bits", "identityref", "binary", "boolean", "uint64", "int64", "decimal64"}
	}
	o.UnionWrapStrings = idx%7 == 6 // the white-space family: strings reached through unions, and unions inside unions, keep their white space too
	s := dp.GenSchema(r, o)
	if idx%7 == 5 {
		// a namespace URI is an attribute value like any other
		s.NS = "urn:m?a=1&b='2'"
	}
	if err := s.Compile(); err != nil {
		c.R.Inconclusive = "generated schema does not compile: " + head(err.Error(), 300)
		return
	}
	do := dp.DefaultData()
	do.Hostile = true
	do.Strings = xmlHostile
	wsFamily := idx%7 == 6
	if wsFamily {
		do.Strings = xmlWhitespace
	}
	do.MaxEntries = 1 + r.Intn(3)
	t := dp.GenTree(r, s, do)
	wit := func() string { return "schema:\n" + s.Yang() + s.AugYang() + s.SubYang() + "tree:\n" + t.Dump(s) }
	c.SetSample(map[string]interface{}{"yang": head(s.Yang()+s.AugYang()+s.SubYang(), 1500), "tree": head(t.Dump(s), 1000)})
	src := dp.NewStore(s, t)
	b := src.Browser()
	fam := "text"
	if wsFamily {
		fam = "whitespace"
	}
	cmp := dp.CmpOpts{DefaultsMayAppear: true, EmptyContainerIsAbsent: false}

	type writer struct {
		name string
		f    func(sel *node.Selection) (string, error)
	}
	writers := []writer{
		{"WriteXMLDoc", func(sel *node.Selection) (string, error) { return nodeutil.WriteXMLDoc(sel, false) }},
		{"WriteXMLDoc-pretty", func(sel *node.Selection) (string, error) { return nodeutil.WriteXMLDoc(sel, true) }},
		{"WriteXML", func(sel *node.Selection) (string, error) { return nodeutil.WriteXML(sel) }},
	}
	for _, w := range writers {
		c.Eval()
		var out string
		var err error
		if c.Guard(w.name, func() { out, err = w.f(b.Root()) }) {
			continue
		}
		c.Shape("%s/%s/%s", w.name, head(t.Shape(), 60), textClass(t))
		if err != nil {
			c.Violate("write-error/"+w.name+"/"+errClassText(err), "%s failed: %v\n%s", w.name, err, wit())
			continue
		}
		xd := dp.DecodeXML(s, nil, out)
		okDoc := true
		for _, pr := range xd.Problems {
			cls := strings.SplitN(pr, ":", 2)[0]
			if cls == "malformed" {
				okDoc = false
			}
			c.Violate("document/"+w.name+"/"+cls, "%s output: %s\nxml: %s\n%s", w.name, pr, head(out, 1500), wit())
		}
		if !okDoc {
			continue
		}
		if len(xd.Problems) == 0 {
			want := t
			if strings.HasSuffix(w.name, "pretty") {
				// indentation adds whitespace-only text around elements, never inside leaf text
			}
			if d := dp.Diff(s, want, xd.Tree, cmp); d != "" {
				c.Violate("document/"+w.name+"/"+fam+"/"+diffClass(d)+typeClass(s, d), "%s output does not denote the tree:\n%s\nxml: %s\n%s", w.name, d, head(out, 1500), wit())
			}
		}
		// import what was exported
		c.Eval()
		var rd *nodeutil.XmlNode
		if c.Guard("ReadXMLDoc", func() { rd, err = nodeutil.ReadXMLDoc(strings.NewReader(out)) }) {
			continue
		}
		if err != nil {
			c.Violate("roundtrip/"+w.name+"/read-error", "ReadXMLDoc of %s output failed: %v\nxml: %s", w.name, err, head(out, 1500))
			continue
		}
		capt := dp.NewCapture(s)
		if c.Guard("import", func() { err = node.NewBrowser(s.Mod, rd).Root().UpsertInto(capt.Node()) }) {
			continue
		}
		if err != nil {
			c.Violate("roundtrip/"+w.name+"/"+fam+"/"+errClassText(err), "importing the %s output failed: %v\nxml: %s\n%s", w.name, err, head(out, 1500), wit())
			continue
		}
		if d := dp.Diff(s, t, capt.Root, cmp); d != "" {
			c.Violate("roundtrip/"+w.name+"/"+fam+"/"+diffClass(d)+typeClass(s, d), "%s then ReadXMLDoc yields a different tree:\n%s\nxml: %s\n%s", w.name, d, head(out, 1500), wit())
		}
		for _, pr := range capt.Problems {
			c.Violate("roundtrip/"+w.name+"/"+fam+"/protocol/"+strings.SplitN(strings.SplitN(pr, ": ", 2)[len(strings.SplitN(pr, ": ", 2))-1], " ", 3)[0], "importing the %s output: %s\nxml: %s\n%s", w.name, pr, head(out, 1500), wit())
			break
		}
	}
	// documents that start below the root: a container or a list entry (up to three per case)
	var subs []dp.DPath
	for _, ap := range t.AllPaths() {
		if _, l, _ := t.Resolve(ap); l == nil && plainKeys(ap) {
			subs = append(subs, ap)
		}
	}
	r.Shuffle(len(subs), func(i, j int) { subs[i], subs[j] = subs[j], subs[i] })
	if len(subs) > 3 {
		subs = subs[:3]
	}
	for _, sp := range subs {
		mn, _, _ := t.Resolve(sp)
		kind := "container"
		if sp[len(sp)-1].Key != nil {
			kind = "entry"
		}
		for _, w := range writers {
			if w.name == "WriteXMLDoc-pretty" {
				continue
			}
			c.Eval()
			c.Shape("%s/below-root/%s/depth%d", w.name, kind, len(sp))
			var out string
			var err error
			var sel *node.Selection
			if c.Guard(w.name+" below root", func() {
				sel, err = dp.FindSel(b, sp)
				if err == nil && sel != nil {
					out, err = w.f(sel)
				}
			}) {
				continue
			}
			sig := w.name + "/below-root/" + kind
			swit := func() string { return fmt.Sprintf("start: %s\nxml: %s\n%s", dp.PathString(sp), head(out, 1200), wit()) }
			if err != nil || sel == nil {
				c.Violate("write-error/"+sig, "%s on %q failed: %v\n%s", w.name, dp.PathString(sp), err, wit())
				continue
			}
			// one well-formed element
			dec := xml.NewDecoder(strings.NewReader(out))
			depth, roots := 0, 0
			var xerr error
			for {
				tok, e := dec.Token()
				if e != nil {
					if e != io.EOF {
						xerr = e
					}
					break
				}
				switch tok.(type) {
				case xml.StartElement:
					if depth == 0 {
						roots++
					}
					depth++
				case xml.EndElement:
					depth--
				}
			}
			if xerr != nil || roots != 1 {
				c.Violate("document/"+sig+"/malformed", "%s on %q: not one well-formed element (roots=%d, error=%v)\n%s", w.name, dp.PathString(sp), roots, xerr, swit())
				continue
			}
			var rd *nodeutil.XmlNode
			if c.Guard("ReadXMLDoc below root", func() { rd, err = nodeutil.ReadXMLDoc(strings.NewReader(out)) }) {
				continue
			}
			if err != nil {
				c.Violate("roundtrip/"+sig+"/read-error", "ReadXMLDoc failed: %v\n%s", err, swit())
				continue
			}
			capt := dp.NewCapture(s)
			if c.Guard("import below root", func() { err = sel.Split(rd).UpsertInto(captNodeFor(capt, mn.S, false)) }) {
				continue
			}
			if err != nil {
				c.Violate("roundtrip/"+sig+"/"+errClassText(err), "importing the sub-tree document failed: %v\n%s", err, swit())
				continue
			}
			got := capt.Root
			got.S = mn.S
			if d := dp.Diff(s, mn, got, cmp); d != "" {
				c.Violate("roundtrip/"+sig+"/"+diffClass(d)+typeClass(s, d), "%s on %q then ReadXMLDoc yields a different sub-tree:\n%s\n%s", w.name, dp.PathString(sp), d, swit())
			}
		}
	}
	// documents that start at a whole list: one well-formed element holding one element per entry
	var lsubs []dp.DPath
	for _, ap := range t.AllPaths() {
		if _, l, _ := t.Resolve(ap); l != nil && len(l.Entries) > 0 && plainKeys(ap) {
			lsubs = append(lsubs, ap)
		}
	}
	r.Shuffle(len(lsubs), func(i, j int) { lsubs[i], lsubs[j] = lsubs[j], lsubs[i] })
	if len(lsubs) > 2 {
		lsubs = lsubs[:2]
	}
	for _, sp := range lsubs {
		_, ml, _ := t.Resolve(sp)
		for _, w := range writers {
			if w.name == "WriteXMLDoc-pretty" {
				continue
			}
			c.Eval()
			c.Shape("%s/below-root/list/depth%d", w.name, len(sp))
			var out string
			var err error
			var sel *node.Selection
			if c.Guard(w.name+" at a list", func() {
				sel, err = dp.FindSel(b, sp)
				if err == nil && sel != nil {
					out, err = w.f(sel)
				}
			}) {
				continue
			}
			if err != nil || sel == nil {
				// refusing to write several entries as one document is an answer
				c.Count("list_document_refused")
				continue
			}
			dec := xml.NewDecoder(strings.NewReader(out))
			depth, roots, entries := 0, 0, 0
			var xerr error
			for {
				tok, e := dec.Token()
				if e != nil {
					if e != io.EOF {
						xerr = e
					}
					break
				}
				switch x := tok.(type) {
				case xml.StartElement:
					if depth == 0 {
						roots++
					}
					if depth == 1 && x.Name.Local == ml.S.Name {
						entries++
					}
					depth++
				case xml.EndElement:
					depth--
				}
			}
			if xerr != nil || roots != 1 || depth != 0 {
				c.Violate("document/"+w.name+"/below-root/list/malformed", "%s on list %q: not one well-formed element (roots=%d, error=%v)\nxml: %s\n%s", w.name, dp.PathString(sp), roots, xerr, head(out, 1200), wit())
			} else if entries != len(ml.Entries) {
				c.Violate("document/"+w.name+"/below-root/list/entries", "%s on list %q: %d entry elements, the list has %d\nxml: %s\n%s", w.name, dp.PathString(sp), entries, len(ml.Entries), head(out, 1200), wit())
			}
		}
	}
	// interleavings of a reference document
	for k := 0; k < 5; k++ {
		c.Eval()
		doc := dp.EncodeXML(s, s.Mod.Ident(), t, func(n int) []int { return r.Perm(n) })
		var rd *nodeutil.XmlNode
		var err error
		if c.Guard("ReadXMLDoc interleaved", func() { rd, err = nodeutil.ReadXMLDoc(strings.NewReader(doc)) }) {
			continue
		}
		if err != nil {
			c.Violate("interleave/read-error", "ReadXMLDoc failed on a reference document: %v\nxml: %s", err, head(doc, 1500))
			continue
		}
		capt := dp.NewCapture(s)
		if c.Guard("import interleaved", func() { err = node.NewBrowser(s.Mod, rd).Root().UpsertInto(capt.Node()) }) {
			continue
		}
		if err != nil {
			c.Violate("interleave/"+fam+"/"+errClassText(err), "importing an interleaved document failed: %v\nxml: %s\n%s", err, head(doc, 1500), wit())
			continue
		}
		if d := dp.Diff(s, t, capt.Root, cmp); d != "" {
			c.Violate("interleave/"+fam+"/"+diffClass(d)+typeClass(s, d), "interleaved siblings import to a different tree:\n%s\nxml: %s\n%s", d, head(doc, 1500), wit())
		}
		for _, pr := range capt.Problems {
			c.Violate("interleave/"+fam+"/protocol", "importing a reference document: %s\nxml: %s\n%s", pr, head(doc, 1500), wit())
			break
		}
		c.Count("interleavings")
	}
	_ = fmt.Sprint
}
