package props

import (
	"fmt"
	"strings"
	"verif/walk"

	"github.com/freeconf/yang/meta"

	"verif/core"
)

var c02bases = []struct {
	name    string
	restr   string // range | length | none
	cat     []string
	leafCat [3]string // restrictions for the leaves themselves, all within the last of cat and all admitting dv
	dv      [2]string // two distinct values every level admits
}{
	{"int8", "range", []string{"0..100", "10..40", "12..30", "13..20"}, [3]string{"13..19", "13..18", "13..17"}, [2]string{"13", "14"}},
	{"int16", "range", []string{"-1000..1000", "0..500", "1..90", "5..60"}, [3]string{"5..50", "5..40", "5..30"}, [2]string{"5", "6"}},
	{"int32", "range", []string{"min..max", "0..max", "0..100", "7..80"}, [3]string{"7..70", "7..60", "7..50"}, [2]string{"7", "8"}},
	{"int64", "range", []string{"-9223372036854775808..9223372036854775807", "0..4294967296", "1..1000", "1..100"}, [3]string{"1..50", "1..40", "1..30"}, [2]string{"1", "2"}},
	{"uint8", "range", []string{"0..255", "1..200", "2..100", "50..90"}, [3]string{"50..80", "50..70", "50..60"}, [2]string{"50", "51"}},
	{"uint16", "range", []string{"0..65535", "1024..65535", "2000..3000", "2500..2510 | 2600..2610"}, [3]string{"2500..2505 | 2600..2605", "2500..2504 | 2600", "2500 | 2600"}, [2]string{"2500", "2600"}},
	{"uint32", "range", []string{"0..4294967295", "1..1000000", "10..200", "15..160"}, [3]string{"15..100", "15..90", "15..80"}, [2]string{"15", "16"}},
	{"uint64", "range", []string{"0..18446744073709551615", "1..100", "5..50", "6..40"}, [3]string{"6..30", "6..20", "6..10"}, [2]string{"6", "7"}},
	{"decimal64", "range", []string{"0..100", "1.5..50.5", "2..30", "2.25..20.75"}, [3]string{"2.5..10", "2.5..9.5", "2.5..9"}, [2]string{"2.5", "2.6"}},
	{"string", "length", []string{"0..100", "1..50", "2..10", "3..9"}, [3]string{"3..8", "3..7", "3..6"}, [2]string{"abc", "acc"}},
	{"boolean", "none", nil, [3]string{}, [2]string{"true", "false"}},
	{"binary", "length", []string{"0..100", "1..50", "2..10", "4..9"}, [3]string{"4..8", "4..7", "4..6"}, [2]string{"AAAAAA==", "AQIDBA=="}},
}

// one level of a typedef chain, base outwards
type c02level struct {
	ref     string // how m refers to it
	restr   string // own range or length, "" if none
	pattern string
	dflt    string
	units   string
	scope   byte
}

// chains: typedef chain td0 <- td1 <- ... with one leaf x deriving from the outermost and up to two sibling leaves deriving from any level,
// every leaf possibly adding its own restriction, default and units; everything inside a grouping used 0..4 times.
func (p c02) chains(c *core.Ctx, idx int) {
	r := c.Rand
	b := c02bases[(idx/7)%len(c02bases)]
	depth := r.Intn(5)
	list := idx%4 == 3
	reuse := r.Intn(5) // 0 = no grouping
	var mainTd, subTd, impTd, localTd strings.Builder
	var levels []c02level
	prev := b.name
	scopes, stated := "", ""
	for i := 0; i < depth; i++ {
		name := fmt.Sprintf("td%d", i)
		lv := c02level{}
		var body strings.Builder
		fd := ""
		if b.name == "decimal64" && i == 0 {
			fd = " fraction-digits 2;"
		}
		restr := ""
		if b.restr != "none" && r.Intn(3) != 0 {
			lv.restr = b.cat[min(i, len(b.cat)-1)]
			restr = fmt.Sprintf(" %s \"%s\";", b.restr, lv.restr)
		}
		if b.name == "string" && r.Intn(3) == 0 {
			lv.pattern = []string{"[a-z]*", "a.*", ".*c", "[a-c]+"}[i%4]
			restr += fmt.Sprintf(" pattern '%s';", lv.pattern)
		}
		if fd+restr == "" {
			fmt.Fprintf(&body, "type %s;", prev)
		} else {
			fmt.Fprintf(&body, "type %s {%s%s }", prev, fd, restr)
		}
		if r.Intn(3) == 0 {
			lv.dflt = b.dv[i%2]
			fmt.Fprintf(&body, " default \"%s\";", lv.dflt)
			stated += fmt.Sprintf("d%d", i)
		}
		if r.Intn(3) == 0 {
			lv.units = fmt.Sprintf("u%d", i)
			fmt.Fprintf(&body, " units \"%s\";", lv.units)
			stated += fmt.Sprintf("u%d", i)
		}
		td := fmt.Sprintf("typedef %s { %s }\n", name, body.String())
		lv.ref = name
		switch sc := r.Intn(6); {
		case sc == 0 && i == depth-1:
			localTd.WriteString("    " + td)
			lv.scope = 'L'
			if r.Intn(2) == 0 {
				// the module's own prefix on a name that is found in an enclosing scope, not at module level
				lv.ref = "m:" + name
				lv.scope = 'l'
			}
		case sc == 1:
			subTd.WriteString("  " + td)
			lv.scope = 'S'
			if r.Intn(2) == 0 {
				lv.ref = "m:" + name
				lv.scope = 's'
			}
		case sc == 2 && (!strings.Contains(prev, "td") || strings.HasPrefix(prev, "imp:")):
			// an imported typedef can only derive from built-ins or from typedefs of its own module
			if strings.HasPrefix(prev, "imp:") {
				td = strings.Replace(td, "type imp:", "type ", 1)
			}
			impTd.WriteString("  " + td)
			lv.ref = "imp:" + name
			lv.scope = 'I'
		case sc == 3:
			mainTd.WriteString("  " + td)
			lv.ref = "m:" + name // own prefix
			lv.scope = 'P'
		default:
			mainTd.WriteString("  " + td)
			lv.scope = 'M'
		}
		scopes += string(lv.scope)
		levels = append(levels, lv)
		prev = lv.ref
	}
	// effective type of a leaf deriving from level j (-1: the built-in) with its own restriction / default / units
	expect := func(j int, ownRestr, ownD, ownU string, isList bool) eff2 {
		w := eff2{format: b.name}
		if isList {
			w.format += "-list"
		}
		if b.restr == "range" {
			w.ranges = []string{}
		}
		if b.restr == "length" {
			w.lengths = []string{}
			if b.name == "string" {
				w.patterns = []string{}
			}
		}
		if b.name == "decimal64" {
			w.fd = 2
		}
		add := func(v string) {
			if v == "" {
				return
			}
			if b.restr == "range" {
				w.ranges = append(w.ranges, v)
			} else {
				w.lengths = append(w.lengths, v)
			}
		}
		for i := 0; i <= j; i++ {
			add(levels[i].restr)
			if levels[i].pattern != "" {
				w.patterns = append(w.patterns, levels[i].pattern)
				w.nearestPatterns = []string{levels[i].pattern}
			}
		}
		add(ownRestr)
		w.dflt, w.units = ownD, ownU
		for i := j; i >= 0; i-- {
			if w.dflt == "" && levels[i].dflt != "" {
				w.dflt = levels[i].dflt
			}
			if w.units == "" && levels[i].units != "" {
				w.units = levels[i].units
			}
		}
		if isList && w.dflt != "" {
			w.dflt = "[" + w.dflt + "]"
		}
		return w
	}
	type leafSpec struct {
		name string
		want eff2
	}
	var leaves []leafSpec
	var lb strings.Builder
	nSib := 0
	if depth > 0 {
		nSib = r.Intn(3)
	}
	for k := 0; k <= nSib; k++ {
		name := "x"
		j := depth - 1
		isList := list
		if k > 0 {
			name = fmt.Sprintf("x%d", k)
			// siblings mostly derive from the same typedef as x, sometimes from another level
			if r.Intn(3) == 0 {
				j = r.Intn(depth)
			}
			isList = false
		}
		ref := b.name
		if j >= 0 {
			ref = levels[j].ref
		}
		fd := ""
		if b.name == "decimal64" && j < 0 {
			fd = " fraction-digits 2;"
		}
		own := ""
		if b.restr != "none" && (r.Intn(3) == 0 || k > 0 && r.Intn(3) != 0) {
			own = b.leafCat[k]
		}
		kw := "leaf"
		if isList {
			kw = "leaf-list"
		}
		if fd == "" && own == "" {
			fmt.Fprintf(&lb, "    %s %s { type %s;", kw, name, ref)
		} else {
			rs := ""
			if own != "" {
				rs = fmt.Sprintf(" %s \"%s\";", b.restr, own)
			}
			fmt.Fprintf(&lb, "    %s %s { type %s {%s%s }", kw, name, ref, fd, rs)
		}
		ownD, ownU := "", ""
		if r.Intn(4) == 0 && !isList {
			// differs from what the nearest typedef states
			ownD = b.dv[(j+1)%2]
			fmt.Fprintf(&lb, " default \"%s\";", ownD)
			stated += "dL"
		}
		if r.Intn(4) == 0 {
			ownU = "uleaf" + name
			fmt.Fprintf(&lb, " units \"%s\";", ownU)
			stated += "uL"
		}
		lb.WriteString(" }\n")
		leaves = append(leaves, leafSpec{name, expect(j, own, ownD, ownU, isList)})
	}
	body, nExp := wrapReuse(lb.String(), reuse, localTd.String())
	mods := map[string]string{}
	main := "module m {\n  namespace \"urn:m\";\n  prefix m;\n"
	if impTd.Len() > 0 {
		main += "  import imp { prefix imp; }\n"
		mods["imp"] = "module imp {\n  namespace \"urn:imp\";\n  prefix imp;\n  revision 2020-01-01;\n" + impTd.String() + "}\n"
	}
	if subTd.Len() > 0 {
		main += "  include sub;\n"
		sub := "submodule sub {\n  belongs-to m { prefix m; }\n"
		if impTd.Len() > 0 {
			sub += "  import imp { prefix imp; }\n"
		}
		mods["sub"] = sub + subTd.String() + "}\n"
	}
	main += "  revision 2020-01-01;\n" + mainTd.String() + body + "}\n"
	mods["m"] = main
	text := ""
	for _, n := range []string{"m", "sub", "imp"} {
		if t, ok := mods[n]; ok {
			text += "--- " + n + " ---\n" + t
		}
	}
	c.SetSample(map[string]interface{}{"family": "chain", "text": text})
	c.Shape("chain/%s/d%d/%s/%s/reuse%d/list=%v/sib%d", b.name, depth, scopes, stated, reuse, list, nSib)
	var m *meta.Module
	var err error
	if c.Guard("load", func() { m, err = c02load(mods) }) {
		return
	}
	if err != nil {
		c.Violate("chain/load-error/"+scopeClass(scopes), "a valid typedef chain does not load: %v\n%s", err, text)
		return
	}
	extra := ""
	if reuse == 0 {
		extra = "/no-grouping"
	}
	// what the bounds of a range say about themselves agrees with how they are written
	if _, w := walk.Dump(m); w != nil {
		for _, pr := range w.Problems {
			if strings.HasPrefix(pr, "range-bound-flags") {
				c.Violate("chain/range-bound-flags", "%s\n%s", pr, text)
				break
			}
		}
	}
	for k, l := range leaves {
		e := extra
		if k > 0 {
			e += "/sibling-leaf"
		}
		p.compare(c, "chain", l.want, leafDumps(m, l.name), nExp, text, e)
	}
}

// identities: an identity DAG (up to two bases each) spread over a chain of modules m -> i1 -> i2 -> i3, each importing only the next one under a
// prefix that may be the same everywhere; the leaf reaches its base identity directly or through a chain of typedefs, one per module.
func (p c02) identities(c *core.Ctx, idx int) {
	r := c.Rand
	k := []int{0, 1, 2, 3, 3, 3}[r.Intn(6)]
	modName := []string{"m", "i1", "i2", "i3"}[:k+1]
	prefix := make([]string, k+1) // prefix module j uses for module j+1
	samePrefix := r.Intn(3) != 0
	for j := range prefix {
		prefix[j] = fmt.Sprintf("q%d", j)
		if samePrefix {
			prefix[j] = "p"
		}
	}
	n := 3 + r.Intn(6)
	type idn struct {
		name  string
		mod   int
		bases []int
	}
	var ids []idn
	bodies := make([]strings.Builder, k+1)
	refFrom := func(from int, id idn) string {
		if id.mod == from {
			return id.name
		}
		return prefix[from] + ":" + id.name
	}
	for i := 0; i < n; i++ {
		d := idn{name: fmt.Sprintf("id%d", i), mod: r.Intn(k + 1)}
		if m2 := r.Intn(k + 1); m2 > d.mod {
			d.mod = m2
		}
		if i > 0 {
			seen := map[int]bool{}
			for t := 0; t < 1+r.Intn(2); t++ {
				b := r.Intn(i)
				if (ids[b].mod == d.mod || ids[b].mod == d.mod+1) && !seen[b] {
					seen[b] = true
					d.bases = append(d.bases, b)
				}
			}
		}
		bs := ""
		for _, b := range d.bases {
			bs += " base " + refFrom(d.mod, ids[b]) + ";"
		}
		fmt.Fprintf(&bodies[d.mod], "  identity %s {%s description \"d\"; }\n", d.name, bs)
		ids = append(ids, d)
	}
	closure := func(b int) []string {
		in := map[int]bool{b: true}
		for changed := true; changed; {
			changed = false
			for i, d := range ids {
				if in[i] {
					continue
				}
				for _, x := range d.bases {
					if in[x] {
						in[i] = true
						changed = true
					}
				}
			}
		}
		var out []string
		for i := range in {
			out = append(out, ids[i].name)
		}
		return out
	}
	// prefer a base with derived identities
	t := r.Intn(n)
	for try := 0; try < 3; try++ {
		if t2 := r.Intn(n); len(closure(t2)) > len(closure(t)) {
			t = t2
		}
	}
	var want []string
	want = append(want, closure(t)...)
	var leafType string
	via := "direct"
	if ids[t].mod <= 1 && r.Intn(2) == 0 {
		leafType = "type identityref { base " + refFrom(0, ids[t]) + ";"
		// a second base: the value must derive from all of them; the compiled type lists each base with its own closure
		if t2 := r.Intn(n); t2 != t && ids[t2].mod <= 1 && r.Intn(2) == 0 {
			leafType += " base " + refFrom(0, ids[t2]) + ";"
			want = append(want, closure(t2)...)
			via = "direct-2-bases"
		}
		leafType += " }"
	} else {
		// deepest typedef lives in the identity's module or in the one importing it
		d := ids[t].mod
		if d > 0 && r.Intn(2) == 0 {
			d--
		}
		fmt.Fprintf(&bodies[d], "  typedef idt%d { type identityref { base %s; } }\n", d, refFrom(d, ids[t]))
		for j := d - 1; j >= 0; j-- {
			fmt.Fprintf(&bodies[j], "  typedef idt%d { type %s:idt%d; }\n", j, prefix[j], j+1)
		}
		leafType = "type idt0;"
		via = fmt.Sprintf("typedefs-from-module-%d", d)
	}
	reuse := r.Intn(3)
	body, nExp := wrapReuse("    leaf x { "+leafType+" }\n", reuse, "")
	mods := map[string]string{}
	all := ""
	for j := 0; j <= k; j++ {
		hdr := fmt.Sprintf("module %s {\n  namespace \"urn:%s\";\n  prefix %s;\n", modName[j], modName[j], modName[j])
		if j < k {
			hdr += fmt.Sprintf("  import %s { prefix %s; }\n", modName[j+1], prefix[j])
		}
		hdr += "  revision 2020-01-01;\n" + bodies[j].String()
		if j == 0 {
			hdr += body
		}
		mods[modName[j]] = hdr + "}\n"
		all += "--- " + modName[j] + " ---\n" + mods[modName[j]]
	}
	c.SetSample(map[string]interface{}{"family": "identityref", "text": all})
	c.Shape("identityref/n%d/modules%d/same-prefix=%v/%s/base-in-%d/reuse%d", n, k+1, samePrefix, via, ids[t].mod, reuse)
	var m *meta.Module
	var err error
	if c.Guard("load", func() { m, err = c02load(mods) }) {
		return
	}
	if err != nil {
		c.Violate("identityref/load-error/"+strings.SplitN(via, "-", 2)[0], "%v\n%s", err, all)
		return
	}
	extra := fmt.Sprintf("/modules%d", k+1)
	p.compare(c, "identityref", eff2{format: "identityref", idents: want}, leafDumps(m, "x"), nExp, all, extra)
}
