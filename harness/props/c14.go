package props

import (
	"errors"
	"fmt"
	"io"
	"os"
	"path/filepath"
	"sort"
	"strings"

	"github.com/freeconf/yang/meta"
	"github.com/freeconf/yang/parser"
	"github.com/freeconf/yang/source"

	"verif/core"
	"verif/dp"
	"verif/walk"
)

// C14 — loading any text terminates with a module or an error.

type c14 struct{}

func init() { core.Register(c14{}) }

func (c14) ID() string    { return "C14" }
func (c14) Level() string { return "exploration" }
func (c14) Rule() string {
	return "corpus = every *.yang of the repository + generated modules; per text: the text itself, every byte prefix (texts <= 2 KiB; token-boundary " +
		"prefixes otherwise; exhaustive per text), single-token deletion / duplication / substitution by each of 7 token classes (sampled per text), " +
		"pathological shapes (nesting 255/256/257/2000, 63/64/65/1000 concatenated strings, 1 MiB argument, unterminated comments/strings, BOM, NUL, " +
		"invalid UTF-8), reference cycles (typedef, grouping, identity, import, include) and opener faults (nil reader, error, mid-stream error, wrong " +
		"module). Monitors: recovered panic / worker death (fatal stack overflow) / cpu+rss watchdog per case; on success the canonical walker visits " +
		"every public accessor under recover. A shape = (text origin, mutation kind, outcome class); trivial = byte-identical repeat"
}
func (c14) MinEvals(string) int      { return 5000 }
func (c14) Batch(tier string) int    { return 4 }
func (c14) CPUBudgetMs(string) int64 { return 20000 }

func repoDir() string {
	if d := os.Getenv("VERIF_REPO"); d != "" {
		return d
	}
	return "/repo"
}

var corpusCache []string

func yangCorpus() []string {
	if corpusCache != nil {
		return corpusCache
	}
	var files []string
	filepath.Walk(repoDir(), func(p string, info os.FileInfo, err error) error {
		if err == nil && !info.IsDir() && strings.HasSuffix(p, ".yang") && !strings.Contains(p, "/.git/") {
			files = append(files, p)
		}
		return nil
	})
	sort.Strings(files)
	corpusCache = files
	return files
}

func corpusOpener(file string) source.Opener {
	return source.Any(source.Dir(filepath.Dir(file)), source.Dir(filepath.Join(repoDir(), "yang")))
}

const (
	c14Specials = 125 // pathological + cycles + opener faults
)

func (c14) NumCases(tier string, seed int64) int {
	n := len(yangCorpus())
	gen := 40
	if tier == "thorough" {
		gen = 400
	}
	// per corpus file: 3 cases (prefixes, token mutations, mutations with the file's own opener)
	return n*3 + c14Specials + len(c14DevTargets) + len(c14ExtHosts) + gen
}

// tokens splits YANG text into lexical tokens (strings and comments kept whole), with byte offsets.
type ytok struct {
	s     string
	start int
}

func yangTokens(t string) []ytok {
	var out []ytok
	i := 0
	for i < len(t) {
		ch := t[i]
		switch {
		case ch == ' ' || ch == '\t' || ch == '\n' || ch == '\r':
			i++
		case ch == '"' || ch == '\'':
			j := i + 1
			for j < len(t) && t[j] != ch {
				if t[j] == '\\' && ch == '"' {
					j++
				}
				j++
			}
			if j < len(t) {
				j++
			}
			if j > len(t) {
				j = len(t)
			}
			out = append(out, ytok{t[i:j], i})
			i = j
		case ch == '/' && i+1 < len(t) && t[i+1] == '/':
			j := i
			for j < len(t) && t[j] != '\n' {
				j++
			}
			out = append(out, ytok{t[i:j], i})
			i = j
		case ch == '/' && i+1 < len(t) && t[i+1] == '*':
			j := strings.Index(t[i+2:], "*/")
			if j < 0 {
				j = len(t)
			} else {
				j = i + 2 + j + 2
			}
			out = append(out, ytok{t[i:j], i})
			i = j
		case ch == '{' || ch == '}' || ch == ';' || ch == '+':
			out = append(out, ytok{t[i : i+1], i})
			i++
		default:
			j := i
			for j < len(t) && !strings.ContainsRune(" \t\n\r{};\"'", rune(t[j])) {
				j++
			}
			if j == i {
				j = i + 1
			}
			out = append(out, ytok{t[i:j], i})
			i = j
		}
	}
	return out
}

var substTokens = []string{"{", "}", ";", "\"str\"", "ident", "123", "+"}

// load runs one input through the loader and, on success, the walker. It records violations.
func c14Load(c *core.Ctx, origin, kind string, opener source.Opener, text string, byName string) string {
	c.Eval()
	c.Progress()
	if d := os.Getenv("VERIF_DUMP"); d != "" {
		os.WriteFile(d, []byte(text), 0o644)
	}
	if os.Getenv("VERIF_TRACE") != "" {
		fmt.Fprintf(os.Stderr, "LOAD %s %s %s\n", origin, kind, quoteHead(text, 3000))
	}
	var m *meta.Module
	var err error
	pv, st := core.Try(func() {
		if byName != "" {
			m, err = parser.LoadModule(opener, byName)
		} else {
			m, err = parser.LoadModuleFromString(opener, text)
		}
	})
	if pv != nil {
		c.Count("panics")
		c.Violate(core.CrashSig(pv, st), "load panicked (%s, %s): %v\ninput (%d bytes): %s\n%s", origin, kind, pv, len(text), quoteHead(text, 600), core.TrimStack(st))
		return "panic"
	}
	if err != nil {
		if m != nil {
			c.Count("module_and_error")
		}
		c.Count("outcome_error")
		return "error"
	}
	if m == nil {
		c.Violate("nil-module-nil-error", "load returned (nil, nil) (%s, %s)\ninput: %s", origin, kind, quoteHead(text, 600))
		return "nil"
	}
	c.Count("outcome_module")
	var w *walk.W
	pv, st = core.Try(func() { _, w = walk.Dump(m) })
	if pv != nil {
		c.Violate("walk/"+core.CrashSig(pv, st), "walking the loaded module panicked (%s, %s): %v\ninput: %s\n%s", origin, kind, pv, quoteHead(text, 600), core.TrimStack(st))
		return "walk-panic"
	}
	for _, p := range w.Panics {
		cls := strings.SplitN(p, ":", 2)[0]
		c.Violate("walk-accessor/"+cls+"/"+core.PanicClass(strings.SplitN(p, ":", 2)[1]), "accessor panicked while walking a successfully loaded module (%s, %s): %s\ninput: %s", origin, kind, p, quoteHead(text, 800))
	}
	c.CountN("walked_nodes", w.Nodes)
	return "module"
}

func quoteHead(s string, n int) string {
	if len(s) > n {
		return fmt.Sprintf("%q...(%d bytes)", s[:n], len(s))
	}
	return fmt.Sprintf("%q", s)
}

func (p c14) Run(c *core.Ctx, idx int) {
	files := yangCorpus()
	n := len(files)
	switch {
	case idx < n:
		p.prefixes(c, files[idx])
	case idx < 2*n:
		p.tokenMutations(c, files[idx-n], false)
	case idx < 3*n:
		p.tokenMutations(c, files[idx-2*n], true)
	case idx < 3*n+c14Specials:
		p.special(c, idx-3*n)
	case idx < 3*n+c14Specials+len(c14DevTargets):
		p.deviations(c, idx-3*n-c14Specials)
	case idx < 3*n+c14Specials+len(c14DevTargets)+len(c14ExtHosts):
		p.extensionBodies(c, idx-3*n-c14Specials-len(c14DevTargets))
	default:
		p.generated(c, idx)
	}
}

func (p c14) prefixes(c *core.Ctx, file string) {
	b, err := os.ReadFile(file)
	if err != nil {
		c.R.Inconclusive = err.Error()
		return
	}
	text := string(b)
	origin := strings.TrimPrefix(file, repoDir()+"/")
	op := corpusOpener(file)
	out := c14Load(c, origin, "as-is", op, text, "")
	c.Shape("%s/as-is/%s", origin, out)
	var cuts []int
	if len(text) <= 2048 {
		for i := 0; i < len(text); i++ {
			cuts = append(cuts, i)
		}
	} else {
		for _, t := range yangTokens(text) {
			cuts = append(cuts, t.start, t.start+len(t.s)/2)
		}
	}
	seen := map[string]int{}
	for _, cut := range cuts {
		o := c14Load(c, origin, fmt.Sprintf("prefix[:%d]", cut), op, text[:cut], "")
		seen[o]++
	}
	for o, k := range seen {
		c.Shape("%s/prefix/%s/%d", origin, o, k)
	}
	c.SetSample(map[string]interface{}{"file": origin, "prefixes": len(cuts), "outcomes": seen})
}

func (p c14) tokenMutations(c *core.Ctx, file string, second bool) {
	b, err := os.ReadFile(file)
	if err != nil {
		c.R.Inconclusive = err.Error()
		return
	}
	text := string(b)
	origin := strings.TrimPrefix(file, repoDir()+"/")
	op := corpusOpener(file)
	toks := yangTokens(text)
	budget := 250
	if c.Thorough() {
		budget = 1500
	}
	seen := map[string]int{}
	total := len(toks) * (2 + len(substTokens))
	for k := 0; k < budget && k < total; k++ {
		var ti, mut int
		if total <= budget {
			ti, mut = k/(2+len(substTokens)), k%(2+len(substTokens))
		} else {
			ti, mut = c.Rand.Intn(len(toks)), c.Rand.Intn(2+len(substTokens))
		}
		t := toks[ti]
		var mutated, kind string
		switch {
		case mut == 0:
			mutated, kind = text[:t.start]+text[t.start+len(t.s):], "delete"
		case mut == 1:
			mutated, kind = text[:t.start]+t.s+" "+t.s+text[t.start+len(t.s):], "duplicate"
		default:
			sub := substTokens[mut-2]
			mutated, kind = text[:t.start]+sub+text[t.start+len(t.s):], "subst:"+sub
		}
		if second {
			// second pass: mutate two tokens (the first mutation plus another deletion)
			t2 := yangTokens(mutated)
			if len(t2) > 0 {
				x := t2[c.Rand.Intn(len(t2))]
				mutated = mutated[:x.start] + mutated[x.start+len(x.s):]
				kind += "+delete"
			}
		}
		o := c14Load(c, origin, kind, op, mutated, "")
		seen[kind+"/"+o]++
	}
	for o, k := range seen {
		c.Shape("%s/%s/%d", origin, o, k)
	}
	c.SetSample(map[string]interface{}{"file": origin, "tokens": len(toks), "outcomes": seen})
}

func memOpener(mods map[string]string) source.Opener {
	return func(name string, ext string) (io.Reader, error) {
		if t, ok := mods[name]; ok {
			return strings.NewReader(t), nil
		}
		return nil, nil
	}
}

type errReader struct {
	data string
	pos  int
	fail int
}

func (e *errReader) Read(p []byte) (int, error) {
	if e.pos >= e.fail {
		return 0, errors.New("verif: injected read error")
	}
	n := copy(p, e.data[e.pos:e.fail])
	e.pos += n
	return n, nil
}

func hdr(name string) string {
	return "module " + name + " { namespace \"urn:" + name + "\"; prefix " + name + "; revision 2020-01-01; "
}

func (p c14) special(c *core.Ctx, k int) {
	nest := func(n int) string {
		return hdr("m") + strings.Repeat("container c { ", n) + "leaf x { type string; } " + strings.Repeat("} ", n) + "}"
	}
	concat := func(n int) string {
		parts := make([]string, n)
		for i := range parts {
			parts[i] = fmt.Sprintf("\"p%d\"", i)
		}
		return hdr("m") + "description " + strings.Join(parts, " + ") + "; }"
	}
	type sp struct {
		name   string
		text   string
		mods   map[string]string
		byName string
		opener source.Opener
	}
	ok := hdr("m") + "leaf x { type string; } }"
	specials := []sp{
		{name: "empty", text: ""},
		{name: "whitespace", text: " \n\t "},
		{name: "bom", text: "\xef\xbb\xbf" + ok},
		{name: "nul", text: "module m {\x00 namespace \"a\"; prefix m; }"},
		{name: "invalid-utf8", text: hdr("m") + "description \"\xff\xfe\xc0\"; }"},
		{name: "comment-line-eof", text: ok + " // trailing"},
		{name: "comment-line-only", text: "//"},
		{name: "comment-block-unterminated", text: ok + " /* never closed"},
		{name: "comment-block-only", text: "/*"},
		{name: "string-unterminated", text: hdr("m") + "description \"never closed"},
		{name: "string-backslash-eof", text: hdr("m") + "description \"x\\"},
		{name: "squote-unterminated", text: hdr("m") + "description 'never closed"},
		{name: "plus-eof", text: hdr("m") + "description \"a\" +"},
		{name: "nest-200", text: nest(200)},
		{name: "nest-255", text: nest(255)},
		{name: "nest-256", text: nest(256)},
		{name: "nest-257", text: nest(257)},
		{name: "nest-2000", text: nest(2000)},
		{name: "concat-63", text: concat(63)},
		{name: "concat-64", text: concat(64)},
		{name: "concat-65", text: concat(65)},
		{name: "concat-1000", text: concat(1000)},
		{name: "arg-1MiB", text: hdr("m") + "description \"" + strings.Repeat("x", 1<<20) + "\"; }"},
		{name: "ext-many-args", text: hdr("m") + "extension e { argument a; } m:e " + strings.Repeat("\"a\" ", 70) + "; }"},
		{name: "typedef-self", text: hdr("m") + "typedef a { type a; } leaf x { type a; } }"},
		{name: "typedef-cycle", text: hdr("m") + "typedef a { type b; } typedef b { type a; } leaf x { type a; } }"},
		{name: "grouping-self", text: hdr("m") + "grouping g { leaf y { type string; } uses g; } container c { uses g; } }"},
		{name: "grouping-cycle", text: hdr("m") + "grouping g1 { uses g2; } grouping g2 { uses g1; } container c { uses g1; } }"},
		{name: "grouping-via-augment", text: hdr("m") + "grouping g { container k { leaf y { type string; } } } container c { uses g { augment k { uses g; } } } }"},
		{name: "identity-self", text: hdr("m") + "identity i { base i; } leaf x { type identityref { base i; } } }"},
		{name: "identity-cycle", text: hdr("m") + "identity i1 { base i2; } identity i2 { base i1; } leaf x { type identityref { base i1; } } }"},
		{name: "import-self", byName: "m", mods: map[string]string{"m": hdr("m") + "import m { prefix s; } }"}},
		{name: "import-mutual", byName: "a", mods: map[string]string{"a": hdr("a") + "import b { prefix b; } }", "b": hdr("b") + "import a { prefix a; } }"}},
		{name: "import-missing", byName: "a", mods: map[string]string{"a": hdr("a") + "import nope { prefix n; } }"}},
		{name: "include-module", byName: "a", mods: map[string]string{"a": hdr("a") + "include b; }", "b": hdr("b") + "}"}},
		{name: "import-submodule", byName: "a", mods: map[string]string{"a": hdr("a") + "import s { prefix s; } }", "s": "submodule s { belongs-to zz { prefix z; } }"}},
		{name: "belongs-to-mismatch", byName: "a", mods: map[string]string{"a": hdr("a") + "include s; }", "s": "submodule s { belongs-to other { prefix o; } leaf q { type string; } }"}},
		{name: "nil-opener-import", text: hdr("a") + "import b { prefix b; } }"},
		{name: "opener-error", text: hdr("a") + "import b { prefix b; } }", opener: func(string, string) (io.Reader, error) { return nil, errors.New("verif: opener failed") }},
		{name: "opener-midstream-error", text: hdr("a") + "import b { prefix b; } }", opener: func(string, string) (io.Reader, error) {
			return &errReader{data: hdr("b") + "leaf x { type string; } }", fail: 30}, nil
		}},
	}
	// stacked diamonds: every module of a layer imports both modules of the next one. Linear in the number of modules when each is
	// visited once, 2^layers when every import path is walked
	diamonds := func(layers int) map[string]string {
		mods := map[string]string{"top": hdr("top") + "import l0a { prefix a; } import l0b { prefix b; } leaf x { type a:t; } }"}
		for i := 0; i < layers; i++ {
			for _, side := range []string{"a", "b"} {
				body := fmt.Sprintf("typedef t { type string; } identity id%d%s; ", i, side)
				if i+1 < layers {
					body = fmt.Sprintf("import l%da { prefix a; } import l%db { prefix b; } ", i+1, i+1) + body
				}
				name := fmt.Sprintf("l%d%s", i, side)
				mods[name] = hdr(name) + body + "}"
			}
		}
		return mods
	}
	specials = append(specials,
		sp{name: "import-diamonds-12", byName: "top", mods: diamonds(12)},
		sp{name: "import-diamonds-40", byName: "top", mods: diamonds(40)},
		sp{name: "belongs-to-in-module", text: "module main { namespace \"n\"; prefix m; belongs-to y { prefix p; } leaf l { type p:foo; } }"},
		sp{name: "include-mutual", byName: "a", mods: map[string]string{"a": hdr("a") + "include s1; include s2; }",
			"s1": "submodule s1 { belongs-to a { prefix a; } include s2; }", "s2": "submodule s2 { belongs-to a { prefix a; } include s1; }"}},
		sp{name: "include-mutual-with-data", byName: "a", mods: map[string]string{"a": hdr("a") + "include s1; }",
			"s1": "submodule s1 { belongs-to a { prefix a; } include s2; leaf p { type string; } }", "s2": "submodule s2 { belongs-to a { prefix a; } include s1; leaf q { type string; } }"}},
		sp{name: "include-self", byName: "a", mods: map[string]string{"a": hdr("a") + "include s1; }", "s1": "submodule s1 { belongs-to a { prefix a; } include s1; }"}},
		sp{name: "typedef-cycle-across-modules", byName: "a", mods: map[string]string{
			"a": hdr("a") + "import b { prefix o; } typedef ta { type o:tb; } leaf x { type ta; } }",
			"b": hdr("b") + "import a { prefix m; } typedef tb { type m:ta; } }"}},
		sp{name: "typedef-cycle-three-modules", byName: "a", mods: map[string]string{
			"a": hdr("a") + "import b { prefix p; } typedef ta { type p:tb; } }",
			"b": hdr("b") + "import c { prefix p; } typedef tb { type p:tc; } }",
			"c": hdr("c") + "import a { prefix p; } typedef tc { type p:ta; } }"}},
		sp{name: "grouping-cycle-across-modules", byName: "a", mods: map[string]string{
			"a": hdr("a") + "import b { prefix o; } grouping ga { uses o:gb; } uses ga; }",
			"b": hdr("b") + "import a { prefix m; } grouping gb { uses m:ga; } }"}},
		sp{name: "grouping-cycle-three", text: hdr("m") + "grouping a { uses b; } grouping b { uses c; } grouping c { uses a; } uses a; }"},
		sp{name: "config-in-notification", text: hdr("m") + "notification n { leaf a { type string; config true; } } }"},
		sp{name: "config-in-rpc-input", text: hdr("m") + "rpc r { input { container c { config true; leaf a { type string; } } } output { leaf o { config false; type string; } } } }"},
		sp{name: "config-in-grouping-used-in-action", text: hdr("m") + "grouping g { leaf a { type string; config true; } } container c { action x { input { uses g; } } } }"},
		sp{name: "augment-action-into-leaf", text: hdr("m") + "container c { leaf l { type string; } } augment \"/c/l\" { action z; } }"},
		sp{name: "augment-leaf-into-leaf", text: hdr("m") + "container c { leaf l { type string; } } augment \"/c/l\" { leaf z { type string; } } }"},
		sp{name: "augment-notification-into-choice", text: hdr("m") + "container c { choice ch { leaf l { type string; } } } augment \"/c/ch\" { notification z; } }"},
		sp{name: "deviate-not-supported-case", text: hdr("m") + "container z { choice ch { case k { leaf kl { type string; } } case j { leaf jl { type string; } } } } deviation \"/z/ch/k\" { deviate not-supported; } }"},
		sp{name: "deviate-add-default-anydata", text: hdr("m") + "anydata z; deviation \"/z\" { deviate add { default \"a\"; } } }"},
		sp{name: "deviate-add-units-anydata", text: hdr("m") + "anydata z; deviation \"/z\" { deviate add { units \"a\"; } } }"},
		sp{name: "deviate-replace-type", text: hdr("m") + "leaf r { type int32; } deviation \"/r\" { deviate replace { type string; } } }"},
		sp{name: "opener-answers-other-module", byName: "a", opener: func(name, ext string) (io.Reader, error) {
			if name == "a" {
				return strings.NewReader(hdr("a") + "import b { prefix b; } }"), nil
			}
			// whatever is asked for, a module of another name that imports b again
			return strings.NewReader(hdr("zz") + "import b { prefix b; } }"), nil
		}},
		sp{name: "range-invert-match", text: hdr("m") + "leaf a { type int32 { range \"1..2\" { modifier invert-match; } } } }"},
		sp{name: "length-invert-match", text: hdr("m") + "leaf a { type string { length \"1..2\" { modifier invert-match; } } } }"},
		sp{name: "augment-action-into-top-leaf", text: hdr("m") + "leaf z { type string; } augment \"/z\" { action a; } }"},
		sp{name: "augment-notification-into-top-leaf", text: hdr("m") + "leaf z { type string; } augment \"/z\" { notification n; } }"},
		sp{name: "augment-action-into-leaf-list", text: hdr("m") + "container c { leaf-list z { type string; } } augment \"/c/z\" { action a { input { leaf i { type string; } } } } }"},
		sp{name: "belongs-to-in-module-unprefixed-type", text: "module x { namespace \"n\"; prefix x; belongs-to y { prefix y; } typedef foo { type string; } leaf l { type foo; } }"},
		sp{name: "belongs-to-in-module-unprefixed-uses", text: "module x { namespace \"n\"; prefix x; belongs-to y { prefix y; } grouping g { leaf a { type string; } } uses g; }"},
		sp{name: "typedef-union-self", text: hdr("m") + "typedef a { type union { type a; type string; } } leaf l { type a; } }"},
		sp{name: "typedef-union-cycle", text: hdr("m") + "typedef a { type union { type b; } } typedef b { type union { type a; } } leaf l { type a; } }"},
		sp{name: "identity-cycle-three", text: hdr("m") + "identity i1 { base i2; } identity i2 { base i3; } identity i3 { base i1; } leaf x { type identityref { base i2; } } }"},
		sp{name: "identity-cycle-across-modules", byName: "a", mods: map[string]string{
			"a": hdr("a") + "import b { prefix o; } identity ia { base o:ib; } leaf x { type identityref { base ia; } } }",
			"b": hdr("b") + "import a { prefix m; } identity ib { base m:ia; } }"}},
		sp{name: "augment-missing-rpc-input", text: hdr("m") + "rpc r { output { leaf o { type string; } } } augment \"/r/input\" { leaf c { type string; } } }"},
		sp{name: "augment-below-missing-rpc-input", text: hdr("m") + "rpc r; augment \"/r/input/c\" { leaf d { type string; } } }"},
		sp{name: "augment-missing-action-output", text: hdr("m") + "container c { action a { input { leaf i { type string; } } } } augment \"/c/a/output\" { leaf o { type string; } } }"},
		sp{name: "deviation-missing-rpc-output", text: hdr("m") + "rpc r { input { leaf i { type string; } } } deviation \"/r/output\" { deviate not-supported; } }"},
		sp{name: "leafref-thru-missing-rpc-output", text: hdr("m") + "rpc r { input { leaf i { type string; } } } leaf l { type leafref { path \"/r/output/o\"; } } }"},
		sp{name: "augment-rpc-input-and-output", text: hdr("m") + "rpc r { input { leaf i { type string; } } output { leaf o { type string; } } } augment \"/r/input\" { leaf c { type string; } } augment \"/r/output\" { leaf d { type string; } } }"},
		sp{name: "leafref-cycle-two", text: hdr("m") + "container c { leaf a { type leafref { path \"../b\"; } } leaf b { type leafref { path \"../a\"; } } } }"},
		sp{name: "leafref-self", text: hdr("m") + "container c { leaf a { type leafref { path \"../a\"; } } } }"},
		sp{name: "leafref-cycle-three-typedef", text: hdr("m") + "typedef ra { type leafref { path \"../b\"; } } container c { leaf a { type ra; } leaf b { type leafref { path \"../c\"; } } leaf-list c { type leafref { path \"../a\"; } } } }"},
		sp{name: "leafref-chain", text: hdr("m") + "container c { leaf a { type leafref { path \"../b\"; } } leaf b { type leafref { path \"../c\"; } } leaf c { type int32; } } }"},
		sp{name: "if-feature-deep-parens", text: hdr("m") + "feature f; leaf x { if-feature \"" + strings.Repeat("(", 20000) + "f" + strings.Repeat(")", 20000) + "\"; type string; } }"},
	)
	// a lattice of identities with two bases each: 2^levels paths from the top to the bottom, levels*2 identities
	lattice := func(levels int) string {
		var b strings.Builder
		b.WriteString(hdr("m") + "identity a0; identity b0; ")
		for i := 1; i < levels; i++ {
			fmt.Fprintf(&b, "identity a%d { base a%d; base b%d; } identity b%d { base a%d; base b%d; } ", i, i-1, i-1, i, i-1, i-1)
		}
		fmt.Fprintf(&b, "leaf x { type identityref { base a0; } } }")
		return b.String()
	}
	specials = append(specials,
		sp{name: "identity-lattice-12", text: lattice(12)},
		sp{name: "identity-lattice-48", text: lattice(48)},
		sp{name: "grouping-recursion-thru-own-action", text: hdr("m") + "grouping g { leaf l { type string; } action act { input { uses g; } } } container top { uses g; } }"},
		sp{name: "grouping-recursion-thru-own-notification", text: hdr("m") + "grouping g { leaf l { type string; } notification n { container below { uses g; } } } container top { uses g; } }"},
		sp{name: "grouping-recursion-thru-action-output-of-other-grouping", text: hdr("m") + "grouping h { action act { output { uses g; } } } grouping g { leaf l { type string; } uses h; } list top { key l; uses g; } }"},
		sp{name: "default-twice-leaf", text: hdr("m") + "leaf a { type string; default a; default b; } }"},
		sp{name: "default-twice-choice", text: hdr("m") + "choice c { default a; default b; leaf a { type string; } leaf b { type string; } } }"},
		sp{name: "default-twice-typedef", text: hdr("m") + "typedef t { type string; default a; default b; } leaf l { type t; } }"},
		sp{name: "default-twice-deviate-add", text: hdr("m") + "leaf a { type string; } deviation \"/a\" { deviate add { default a; default b; } } }"},
		sp{name: "unused-grouping-with-typedef-cycle", text: hdr("m") + "grouping g { typedef a { type b; } typedef b { type a; } leaf x { type a; } } leaf y { type string; } }"},
	)
	if k >= len(specials) {
		return
	}
	if len(specials) > c14Specials {
		panic("harness: more special texts than slots")
	}
	s := specials[k]
	op := s.opener
	if op == nil && s.mods != nil {
		op = memOpener(s.mods)
	}
	out := c14Load(c, "special/"+s.name, "special", op, s.text, s.byName)
	c.Shape("special/%s/%s", s.name, out)
	c.SetSample(map[string]interface{}{"special": s.name, "outcome": out, "text": quoteHead(s.text, 200)})
}

// deviations: every kind of deviation target x every deviate form x every sub-statement a deviate can carry, most of which the target
// does not support. Each of them has to end in a module or an error (a panic inside the deviation code is what this family looks for).
var c14DevTargets = []struct{ name, body, path string }{
	{"leaf", "leaf t { type string; }", "/t"},
	{"leaf-with-default", "leaf t { type string; default d; units u; }", "/t"},
	{"leaf-list", "leaf-list t { type string; default a; default b; }", "/t"},
	{"container", "container t { leaf x { type string; } }", "/t"},
	{"presence-container", "container t { presence p; }", "/t"},
	{"list", "list t { key k; unique \"u v\"; leaf k { type string; } leaf u { type string; } leaf v { type string; } }", "/t"},
	{"choice", "choice t { default a; case a { leaf al { type string; } } case b { leaf bl { type string; } } }", "/t"},
	{"case", "choice ch { case t { leaf al { type string; } } case b { leaf bl { type string; } } }", "/ch/t"},
	{"implied-case", "choice ch { leaf t { type string; } leaf other { type string; } }", "/ch/t"},
	{"case-in-container", "container c { } augment \"/c\" { case t { leaf l { type string; } } }", "/c/t"},
	{"anydata", "anydata t;", "/t"},
	{"anyxml", "anyxml t;", "/t"},
	{"rpc", "rpc t { input { leaf i { type string; } } }", "/t"},
	{"rpc-input", "rpc r { input { leaf i { type string; } } }", "/r/input"},
	{"rpc-input-leaf", "rpc r { input { leaf i { type string; } } }", "/r/input/i"},
	{"action", "container c { action t { input { leaf i { type string; } } } }", "/c/t"},
	{"notification", "notification t { leaf l { type string; } }", "/t"},
	{"nested-notification", "container c { notification t { leaf l { type string; } } }", "/c/t"},
	{"leaf-of-grouping-used-twice", "grouping g { leaf t { type string; default d; } } container c1 { uses g; } container c2 { uses g; }", "/c1/t"},
	{"list-key-leaf", "list l { key t; leaf t { type string; } }", "/l/t"},
}

var c14DevSubs = []string{
	"units \"u\";", "default \"d\";", "default a;", "default \"a\"; default \"b\";", "config false;", "config true;", "mandatory true;", "mandatory false;",
	"min-elements 1;", "max-elements 3;", "max-elements unbounded;", "unique \"u v\";", "unique \"u\";", "must \"1\";", "type int32;", "type string { length 1..3; }",
	"units \"u\"; default \"d\";", "config false; mandatory true;", "",
}

// extension statements with a body, under every kind of statement: the body may hold anything, in particular leaves whose types have to be
// resolved (a leafref path, a prefixed typedef name) from a position that is not a schema node. EXT is replaced by each body in turn.
var c14ExtHosts = []struct{ name, text string }{
	{"module", "EXT"},
	{"revision", "revision 2019-01-01 { EXT }"},
	{"identity", "identity i { EXT }"},
	{"feature", "feature f { EXT }"},
	{"typedef", "typedef t2 { type string; EXT }"},
	{"extension", "extension e2 { EXT }"},
	{"argument", "extension e3 { argument a3 { EXT } }"},
	{"enum", "leaf en { type enumeration { enum a { EXT } } }"},
	{"bit", "leaf bi { type bits { bit a { EXT } } }"},
	{"type", "leaf ty { type string { EXT } }"},
	{"range", "leaf ra { type int32 { range \"1..2\" { EXT } } }"},
	{"length", "leaf le { type string { length \"1..2\" { EXT } } }"},
	{"pattern", "leaf pa { type string { pattern \"a\" { EXT } } }"},
	{"must", "leaf mu { type string; must \"1\" { EXT } }"},
	{"when", "leaf wh { type string; when \"1\" { EXT } }"},
	{"description", "leaf de { type string; description \"d\" { EXT } }"},
	{"container", "container co { EXT }"},
	{"leaf", "leaf lf { type string; EXT }"},
	{"leaf-list", "leaf-list ll { type string; EXT }"},
	{"list", "list li { key k; leaf k { type string; } EXT }"},
	{"choice", "choice ch { EXT leaf cl { type string; } }"},
	{"case", "choice ch { case ca { EXT leaf cl { type string; } } }"},
	{"anydata", "anydata ad { EXT }"},
	{"rpc", "rpc rp { EXT }"},
	{"input", "rpc rp { input { EXT leaf i { type string; } } }"},
	{"action", "container co { action ac { EXT } }"},
	{"notification", "notification no { EXT }"},
	{"grouping", "grouping g { EXT leaf gl { type string; } } container cg { uses g; }"},
	{"unused-grouping", "grouping g { EXT leaf gl { type string; } }"},
	{"uses", "grouping g { leaf gl { type string; } } container cg { uses g { EXT } }"},
	{"refine", "grouping g { leaf gl { type string; } } container cg { uses g { refine gl { EXT } } }"},
	{"augment", "container co { } augment \"/co\" { EXT leaf al { type string; } }"},
	{"deviation", "leaf dv { type string; } deviation \"/dv\" { EXT deviate add { units u; } }"},
	{"deviate", "leaf dv { type string; } deviation \"/dv\" { deviate add { EXT units u; } }"},
	{"import", "import other { prefix o; EXT }"},
}

var c14ExtBodies = []string{
	"m:e \"arg\";",
	"m:e \"arg\" { leaf q { type leafref { path \"/x\"; } } }",
	"m:e \"arg\" { leaf q { type leafref { path \"../x\"; } } }",
	"m:e \"arg\" { leaf r { type m:td; } }",
	"m:e \"arg\" { leaf r { type union { type m:td; type int32; } } }",
	"m:e \"arg\" { leaf r { type identityref { base m:idb; } } }",
	"m:e \"arg\" { container c { uses m:gx; } }",
	"m:e \"arg\" { m:e \"nested\" { m:e \"deeper\"; } }",
	"m:e \"arg\" { description \"d\"; leaf s { type string; default v; } }",
	"m:nope \"arg\";",
	"zz:e \"arg\";",
}

func (p c14) extensionBodies(c *core.Ctx, k int) {
	h := c14ExtHosts[k]
	outcomes := map[string]int{}
	for i, body := range c14ExtBodies {
		text := hdr("m") + "extension e { argument a; } typedef td { type string; } identity idb; grouping gx { leaf gxl { type string; } } leaf x { type string; } " + strings.Replace(h.text, "EXT", body, 1) + " }"
		var op source.Opener
		if h.name == "import" {
			op = memOpener(map[string]string{"other": hdr("other") + "leaf o { type string; } }"})
		}
		o := c14Load(c, fmt.Sprintf("extension-body/%s/%d", h.name, i), "extension-body", op, text, "")
		outcomes[o]++
	}
	for o, n := range outcomes {
		c.Shape("extension-body/%s/%s/%d", h.name, o, n)
	}
	c.SetSample(map[string]interface{}{"extension-host": h.name, "text": h.text, "outcomes": outcomes})
}

func (p c14) deviations(c *core.Ctx, k int) {
	t := c14DevTargets[k]
	outcomes := map[string]int{}
	run := func(form, dev string) {
		text := hdr("m") + t.body + " deviation \"" + t.path + "\" { " + dev + " } }"
		o := c14Load(c, "deviation/"+t.name+"/"+form, "deviation", nil, text, "")
		outcomes[form+"/"+o]++
	}
	run("not-supported", "deviate not-supported;")
	for _, kind := range []string{"add", "replace", "delete"} {
		for _, sub := range c14DevSubs {
			run(kind, "deviate "+kind+" { "+sub+" }")
		}
	}
	// two deviate statements in one deviation, and a deviation after not-supported
	run("add+delete", "deviate add { must \"1\"; } deviate delete { default \"d\"; }")
	run("not-supported+add", "deviate not-supported; deviate add { default \"d\"; }")
	for o, n := range outcomes {
		c.Shape("deviation/%s/%s/%d", t.name, o, n)
	}
	c.SetSample(map[string]interface{}{"deviation-target": t.name, "body": t.body, "outcomes": outcomes})
}

func (p c14) generated(c *core.Ctx, idx int) {
	o := dp.DefaultGen()
	o.Choices = true
	o.NestedChoice = true
	o.Aug = idx%3 == 0
	o.MaxDepth = 2 + c.Rand.Intn(3)
	s := dp.GenSchema(c.Rand, o)
	text := s.Yang()
	var op source.Opener
	byName := ""
	if s.AugName != "" {
		op = memOpener(map[string]string{s.Name: text, s.AugName: s.AugYang()})
	}
	out := c14Load(c, "generated", "as-is", op, text, byName)
	c.Shape("generated/as-is/%s", out)
	toks := yangTokens(text)
	seen := map[string]int{}
	for k := 0; k < 120; k++ {
		t := toks[c.Rand.Intn(len(toks))]
		var mutated, kind string
		switch c.Rand.Intn(4) {
		case 0:
			mutated, kind = text[:t.start], "prefix"
		case 1:
			mutated, kind = text[:t.start]+text[t.start+len(t.s):], "delete"
		case 2:
			mutated, kind = text[:t.start]+t.s+" "+t.s+text[t.start+len(t.s):], "duplicate"
		default:
			sub := substTokens[c.Rand.Intn(len(substTokens))]
			mutated, kind = text[:t.start]+sub+text[t.start+len(t.s):], "subst"
		}
		o := c14Load(c, "generated", kind, op, mutated, "")
		seen[kind+"/"+o]++
	}
	for o, k := range seen {
		c.Shape("generated/%s/%d", o, k)
	}
	c.SetSample(map[string]interface{}{"generated": head(text, 400), "outcomes": seen})
}
