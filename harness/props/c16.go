package props

import (
	"fmt"
	"reflect"
	"math/big"
	"net/url"
	"strings"

	"github.com/freeconf/yang/meta"
	"github.com/freeconf/yang/node"
	"github.com/freeconf/yang/nodeutil"
	"github.com/freeconf/yang/parser"
	"github.com/freeconf/yang/val"

	"verif/core"
	"verif/dp"
)

// C16 — when / where / filter hide exactly what their expression excludes.

type c16 struct{}

func init() { core.Register(c16{}) }

func (c16) ID() string    { return "C16" }
func (c16) Level() string { return "exploration" }
func (c16) Rule() string {
	return "operator (6) x operand type (all integer widths incl. unsigned and 64-bit, decimal64, string, enumeration, boolean) x operand value " +
		"straddling the literal (catalog neighbours) x presence {set, unset, unset with default} x placement of the condition {when on container, leaf, " +
		"leaf-list, uses, augment; ?where= on top-level and nested lists; ?filter= on a notification stream fed by a scripted node}. Oracle: truth of " +
		"'leaf OP literal' computed with math/big / code-point order / enum value / truth value, unset => false; visibility compared on JSON output and " +
		"on the store after an edit, and differentially against the same schema without the condition when it is true. " +
		"A shape = (placement, operand type, operator, truth, presence)"
}
func (c16) MinEvals(string) int { return 1000 }

func (c16) NumCases(tier string, seed int64) int {
	if tier == "thorough" {
		return 3000
	}
	return 360
}

type c16type struct {
	name   string
	stype  *dp.SType
	yang   string
	values []string // canonical values, ordered as the type orders them
	rank   func(s string) *big.Rat
}

func c16types() []c16type {
	num := func(s string) *big.Rat { r, _ := new(big.Rat).SetString(s); return r }
	mk := func(name string, vals ...string) c16type {
		return c16type{name: name, stype: &dp.SType{Base: name}, yang: "type " + name + ";", values: vals, rank: num}
	}
	ts := []c16type{
		mk("int8", "-128", "-1", "0", "1", "126", "127"),
		mk("uint8", "0", "1", "127", "128", "150", "255"),
		mk("int16", "-32768", "-1", "0", "255", "32767"),
		mk("uint16", "0", "1", "32767", "32768", "65535"),
		mk("int32", "-2147483648", "-5", "0", "5", "2147483647"),
		mk("uint32", "0", "5", "2147483647", "2147483648", "4294967295"),
		mk("int64", "-9223372036854775808", "-9007199254740993", "-1", "0", "4294967296", "9007199254740992", "9007199254740993", "9223372036854775806", "9223372036854775807"),
		mk("uint64", "0", "1", "9007199254740993", "1152921504606846975", "1152921504606846976", "9223372036854775807", "9223372036854775808", "18446744073709551614", "18446744073709551615"),
	}
	ts = append(ts, c16type{name: "decimal64", stype: &dp.SType{Base: "decimal64", FD: 2}, yang: "type decimal64 { fraction-digits 2; }", values: []string{"-1.5", "-0.25", "0", "0.5", "1.5", "100.25"}, rank: num})
	ts = append(ts, c16type{name: "string", stype: &dp.SType{Base: "string"}, yang: "type string;", values: []string{"", "A", "a", "ab", "b", "é"},
		rank: nil})
	ts = append(ts, c16type{name: "enumeration", stype: &dp.SType{Base: "enumeration", Enums: []string{"low", "mid", "high"}}, yang: "type enumeration { enum low; enum mid; enum high; }", values: []string{"low", "mid", "high"},
		rank: func(s string) *big.Rat {
			return big.NewRat(int64(map[string]int{"low": 0, "mid": 1, "high": 2}[s]), 1)
		}})
	ts = append(ts, c16type{name: "boolean", stype: &dp.SType{Base: "boolean"}, yang: "type boolean;", values: []string{"false", "true"}, rank: func(s string) *big.Rat {
		if s == "true" {
			return big.NewRat(1, 1)
		}
		return big.NewRat(0, 1)
	}})
	return ts
}

var c16ops = []string{"=", "!=", "<", "<=", ">", ">="}

func (t c16type) cmp(a, b string) int {
	if t.rank == nil {
		return strings.Compare(a, b)
	}
	return t.rank(a).Cmp(t.rank(b))
}

// truth of "operand OP literal"; operand == nil means the leaf has no value.
func (t c16type) truth(operand *string, op, lit string) bool {
	if operand == nil {
		return false
	}
	c := t.cmp(*operand, lit)
	switch op {
	case "=":
		return c == 0
	case "!=":
		return c != 0
	case "<":
		return c < 0
	case "<=":
		return c <= 0
	case ">":
		return c > 0
	case ">=":
		return c >= 0
	}
	panic(op)
}

// xlit spells the literal in the XPath subset: numbers bare when non-negative and small enough for the
// lexer's int64 parse, everything else quoted.
func (t c16type) xlit(v string) string {
	if t.rank != nil && t.name != "enumeration" && t.name != "boolean" {
		r, _ := new(big.Rat).SetString(v)
		if !strings.HasPrefix(v, "-") && r.Cmp(big.NewRat(1<<62, 1)) < 0 {
			return v
		}
		// negative numbers and numbers beyond 2^62: bare or quoted (decided by the digits, so that both spellings occur)
		if (len(v)+int(v[len(v)-1]))%2 == 0 && (r.IsInt() || t.name == "decimal64") && r.Cmp(new(big.Rat).SetInt(new(big.Int).Lsh(big.NewInt(1), 64))) < 0 {
			return v
		}
	}
	return "'" + v + "'"
}

// usesWhenOnContainer: a uses-level when also guards containers of the grouping; its context node is the
// parent of the uses. One coarse signature: the library copies the when onto the container and evaluates it
// relative to the container itself.
func (p c16) usesWhenOnContainer(c *core.Ctx) {
	body := "grouping gg { container g3 { leaf z { type string; } } } leaf o { type int32; } uses gg { when \"o>5\"; } leaf q { type string; }"
	m, err := parser.LoadModuleFromString(nil, "module m { namespace \"urn:m\"; prefix m; revision 2020-01-01; "+body+" }")
	if err != nil {
		c.Violate("when/uses-when-on-container-member", "load: %v", err)
		return
	}
	for _, tc := range []struct {
		o    int
		want bool
	}{{9, true}, {1, false}} {
		c.Eval()
		doc := fmt.Sprintf("{\"o\":%d,\"g3\":{\"z\":\"w\"},\"q\":\"keep\"}", tc.o)
		n, _ := nodeutil.ReadJSON(doc)
		var got string
		var rerr error
		if c.Guard("uses when on container", func() { got, rerr = nodeutil.WriteJSON(node.NewBrowser(m, n).Root()) }) {
			continue
		}
		visible := strings.Contains(got, "\"g3\"")
		if rerr != nil || visible != tc.want || !strings.Contains(got, "keep") {
			c.Violate("when/uses-when-on-container-member", "uses gg { when \"o>5\"; } with o=%d: container g3 visible=%v (want %v), error=%v\nschema: %s\ndata: %s\noutput: %s", tc.o, visible, tc.want, rerr, body, doc, got)
		}
	}
}

// whenStacked: a node under several conditions (its own when, the when of the uses that brings it, the when of an augment that adds
// it) is visible only if all of them hold.
func (p c16) whenStacked(c *core.Ctx) {
	for _, sc := range []struct{ name, body string }{
		{"uses+own", "leaf o { type int32; } leaf p { type int32; } grouping gg { leaf g { when \"p>5\"; type string; } } uses gg { when \"o>5\"; } leaf q { type string; }"},
		{"uses+uses", "leaf o { type int32; } leaf p { type int32; } grouping g1 { leaf g { type string; } } grouping gg { uses g1 { when \"p>5\"; } } uses gg { when \"o>5\"; } leaf q { type string; }"},
		{"uses+own-leaf-list", "leaf o { type int32; } leaf p { type int32; } grouping gg { leaf-list g { when \"p>5\"; type string; } } uses gg { when \"o>5\"; } leaf q { type string; }"},
		{"uses+own-container", "leaf o { type int32; } leaf p { type int32; } grouping gg { container g { when \"../p>5\"; leaf z { type string; } } } uses gg { when \"o>5\"; } leaf q { type string; }"},
		{"uses+own-list", "leaf o { type int32; } leaf p { type int32; } grouping gg { list g { when \"../p>5\"; key z; leaf z { type string; } } } uses gg { when \"o>5\"; } leaf q { type string; }"},
		{"augment+own-container", "container k { leaf o { type int32; } leaf p { type int32; } } augment \"/k\" { when \"o>5\"; container g { when \"../p>5\"; leaf z { type string; } } } leaf q { type string; }"},
		{"choice+case", "leaf o { type int32; } leaf p { type int32; } choice ch { when \"o>5\"; case a { when \"p>5\"; leaf g { type string; } } } leaf q { type string; }"},
		{"choice+own", "leaf o { type int32; } leaf p { type int32; } choice ch { when \"o>5\"; leaf g { when \"p>5\"; type string; } } leaf q { type string; }"},
		{"case+uses", "leaf o { type int32; } leaf p { type int32; } grouping gg { leaf g { type string; } } choice ch { case a { when \"o>5\"; uses gg { when \"p>5\"; } } } leaf q { type string; }"},
		{"uses-choice+own", "leaf o { type int32; } leaf p { type int32; } grouping gg { choice ch { leaf g { when \"p>5\"; type string; } } } uses gg { when \"o>5\"; } leaf q { type string; }"},
		{"augment+own", "container k { leaf o { type int32; } leaf p { type int32; } } augment \"/k\" { when \"o>5\"; leaf g { when \"p>5\"; type string; } } leaf q { type string; }"},
	} {
		m, err := parser.LoadModuleFromString(nil, "module m { namespace \"urn:m\"; prefix m; revision 2020-01-01; "+sc.body+" }")
		if err != nil {
			c.Violate("when/load-error/stacked/"+sc.name, "load: %v\n%s", err, sc.body)
			continue
		}
		for _, o := range []int{9, 1} {
			for _, pv := range []int{9, 1} {
				c.Eval()
				c.Shape("when-stacked/%s/%v/%v", sc.name, o > 5, pv > 5)
				gv := "\"x\""
				if strings.Contains(sc.body, "leaf-list g") {
					gv = "[\"x\"]"
				} else if strings.Contains(sc.body, "container g") {
					gv = "{\"z\":\"x\"}"
				} else if strings.Contains(sc.body, " list g {") {
					gv = "[{\"z\":\"x\"}]"
				}
				doc := fmt.Sprintf("{\"o\":%d,\"p\":%d,\"g\":%s,\"q\":\"keep\"}", o, pv, gv)
				if strings.Contains(sc.body, "container k") {
					doc = fmt.Sprintf("{\"k\":{\"o\":%d,\"p\":%d,\"g\":%s},\"q\":\"keep\"}", o, pv, gv)
				}
				n, _ := nodeutil.ReadJSON(doc)
				var got string
				var rerr error
				if c.Guard("stacked when", func() { got, rerr = nodeutil.WriteJSON(node.NewBrowser(m, n).Root()) }) {
					continue
				}
				want := o > 5 && pv > 5
				visible := strings.Contains(got, "\"g\"")
				if strings.Contains(sc.body, " list g {") {
					// the condition of a list holds or fails for each entry; a list without visible entries may still be an empty array
					visible = strings.Contains(got, "\"g\":[{")
				}
				if rerr != nil || visible != want || !strings.Contains(got, "keep") {
					cls := "false-but-visible"
					if want {
						cls = "true-but-hidden"
					}
					c.Violate("when/"+cls+"/stacked/"+sc.name, "o=%d p=%d: g visible=%v (want %v: both conditions must hold), error=%v\nschema: %s\ndata: %s\noutput: %s", o, pv, visible, want, rerr, sc.body, doc, got)
				}
			}
		}
	}
}

// whenSharedGrouping: one grouping, whose leaf has a condition of its own, used at two (three) places under different conditions: every
// copy is under its own pair of conditions and under nothing of the other use.
func (p c16) whenSharedGrouping(c *core.Ctx) {
	body := "grouping inner { leaf h { type string; } } grouping gg { leaf p { type int32; } leaf g { when \"p>5\"; type string; } leaf g2 { when \"../q='keep'\"; type string; } uses inner { when \"p>5\"; } } " +
		"container a { leaf o { type int32; } uses gg { when \"o>5\"; } } container b { leaf r { type int32; } uses gg { when \"r>5\"; } } container n { uses gg; } leaf q { type string; } " +
		// three conditions on one node: its own, the one of the uses, and the one of the augment the uses is written in
		"container d { leaf s { type int32; } leaf t { type int32; } } augment \"/d\" { when \"s>5\"; uses gg { when \"t>5\"; } }"
	m, err := parser.LoadModuleFromString(nil, "module m { namespace \"urn:m\"; prefix m; revision 2020-01-01; "+body+" }")
	if err != nil {
		c.Violate("when/load-error/shared-grouping", "load: %v\n%s", err, body)
		return
	}
	for mask := 0; mask < 256; mask++ {
		v := func(bit int) int {
			if mask&(1<<bit) != 0 {
				return 9
			}
			return 1
		}
		o, pa, r, pb, pn, ds, dt, pd := v(0), v(1), v(2), v(3), v(4), v(5), v(6), v(7)
		c.Eval()
		c.Shape("when-shared-grouping/%08b", mask)
		doc := fmt.Sprintf("{\"a\":{\"o\":%d,\"p\":%d,\"g\":\"x\",\"h\":\"y\"},\"b\":{\"r\":%d,\"p\":%d,\"g\":\"x\",\"h\":\"y\"},\"n\":{\"p\":%d,\"g\":\"x\",\"h\":\"y\"},\"d\":{\"s\":%d,\"t\":%d,\"p\":%d,\"g\":\"x\",\"g2\":\"z\",\"h\":\"y\"},\"q\":\"keep\"}", o, pa, r, pb, pn, ds, dt, pd)
		n, _ := nodeutil.ReadJSON(doc)
		var got string
		var rerr error
		if c.Guard("shared grouping", func() { got, rerr = nodeutil.WriteJSON(node.NewBrowser(m, n).Root()) }) {
			continue
		}
		wit := fmt.Sprintf("schema: %s\ndata: %s\noutput: %s", body, doc, got)
		var top map[string]map[string]interface{}
		var raw map[string]interface{}
		if rerr != nil || jsonUnmarshal(got, &raw) != nil {
			c.Violate("when/error/shared-grouping", "read failed: %v\n%s", rerr, wit)
			continue
		}
		top = map[string]map[string]interface{}{}
		for k, x := range raw {
			if mm, ok := x.(map[string]interface{}); ok {
				top[k] = mm
			}
		}
		for _, site := range []struct {
			name       string
			outer, own bool
		}{{"a", o > 5, pa > 5}, {"b", r > 5, pb > 5}, {"n", true, pn > 5}, {"d", ds > 5 && dt > 5, pd > 5}} {
			_, hasP := top[site.name]["p"]
			_, hasG := top[site.name]["g"]
			_, hasH := top[site.name]["h"]
			if hasP != site.outer || hasG != (site.outer && site.own) || hasH != (site.outer && site.own) {
				c.Violate("when/shared-grouping/"+site.name, "container %s: p visible=%v (want %v), g visible=%v and h visible=%v (want %v: the condition of this use and the leaf's own)\n%s", site.name, hasP, site.outer, hasG, hasH, site.outer && site.own, wit)
			}
		}
		// a leaf whose own condition holds and does not depend on anything the uses brings: only the uses' and the augment's decide
		if _, hasG2 := top["d"]["g2"]; hasG2 != (ds > 5 && dt > 5) {
			c.Violate("when/shared-grouping/three-conditions", "container d: g2 visible=%v, want %v (its own condition holds; the uses wants t>5, the augment s>5)\n%s", hasG2, ds > 5 && dt > 5, wit)
		}
		if raw["q"] != "keep" {
			c.Violate("when/hides-too-much/shared-grouping", "the sibling leaf disappeared\n%s", wit)
		}
	}
}

// whenVsParams: a condition is about the data, not about what the request selects of it: the operand of a when may be left out
// of the answer by fields / fc.xfields / content / depth / with-defaults and is there all the same.
func (p c16) whenVsParams(c *core.Ctx) {
	body := "leaf z { type int32; } leaf st { config false; type int32; } leaf mode { type string; default \"auto\"; } container deep { leaf dz { type int32; } } " +
		"leaf y3 { when \"z>5\"; type string; } leaf y2 { when \"st>5\"; type string; } leaf y { when \"mode='auto'\"; type string; } leaf yd { when \"deep/dz>5\"; type string; } " +
		"container k { when \"../z>5\"; leaf k1 { type string; } } leaf q { type string; }"
	m, err := parser.LoadModuleFromString(nil, "module m { namespace \"urn:m\"; prefix m; revision 2020-01-01; "+body+" }")
	if err != nil {
		c.Violate("when/load-error/params", "load: %v\n%s", err, body)
		return
	}
	for _, big := range []bool{true, false} {
		n := 1
		if big {
			n = 9
		}
		doc := fmt.Sprintf(`{"z":%d,"st":%d,"deep":{"dz":%d},"y3":"a","y2":"b","y":"c","yd":"d","k":{"k1":"e"},"q":"keep"}`, n, n, n)
		for _, rq := range []struct {
			params string
			member string // what the request asks for and the condition decides about
		}{{"fields=y3", "y3"}, {"fields=y2", "y2"}, {"fields=yd", "yd"}, {"fields=k", "k"}, {"fc.xfields=z", "y3"}, {"fc.xfields=deep", "yd"}, {"content=config", "y2"},
			{"depth=1", "yd"}, {"with-defaults=trim", "y"}, {"fields=y3&content=config", "y3"}} {
			c.Eval()
			c.Shape("when-vs-params/%s/%v", rq.params, big)
			src, _ := nodeutil.ReadJSON(doc)
			var got string
			var rerr error
			if c.Guard("when vs params", func() {
				sel, e := node.NewBrowser(m, src).Root().Find("?" + rq.params)
				if e != nil || sel == nil {
					rerr = fmt.Errorf("find: %v", e)
					return
				}
				got, rerr = nodeutil.WriteJSON(sel)
			}) {
				continue
			}
			wit := fmt.Sprintf("schema: %s\ndata: %s\nrequest: ?%s\nanswer: %s", body, doc, rq.params, got)
			var raw map[string]interface{}
			if rerr != nil || jsonUnmarshal(got, &raw) != nil {
				c.Violate("when/error/params", "read failed: %v\n%s", rerr, wit)
				continue
			}
			_, has := raw[rq.member]
			want := big
			if rq.member == "y" {
				want = true // mode is not set: its default is what the condition sees, trimmed from the answer or not
			}
			if has != want {
				c.Violate("when/operand-hidden-by-request/"+strings.SplitN(rq.params, "=", 2)[0], "%s present=%v, want %v: the operand of its condition is in the data (only not in the answer)\n%s", rq.member, has, want, wit)
			}
		}
	}
}

// whenCircular: conditions that depend on themselves, directly or through one another. What such a schema means is not the point; a
// read of it ends (with data or with an error) and does not take the process down.
func (p c16) whenCircular(c *core.Ctx) {
	for _, sc := range []struct{ name, body, doc string }{
		{"list-on-itself", "list l { when \"../l/k='a'\"; key k; leaf k { type string; } } leaf q { type string; }", `{"l":[{"k":"a"},{"k":"b"}],"q":"keep"}`},
		{"two-leaves", "leaf a { when \"b=1\"; type int32; } leaf b { when \"a=1\"; type int32; } leaf q { type string; }", `{"a":1,"b":1,"q":"keep"}`},
		{"leaf-on-itself", "leaf a { when \"a=1\"; type int32; } leaf q { type string; }", `{"a":1,"q":"keep"}`},
		{"two-containers", "container c { when \"../d/x=1\"; leaf y { type int32; } } container d { when \"../c/y=1\"; leaf x { type int32; } } leaf q { type string; }", `{"c":{"y":1},"d":{"x":1},"q":"keep"}`},
		{"three-leaves", "leaf a { when \"b=1\"; type int32; } leaf b { when \"c=1\"; type int32; } leaf c { when \"a=1\"; type int32; } leaf q { type string; }", `{"a":1,"b":1,"c":1,"q":"keep"}`},
		{"entry-on-sibling-entries", "container w { list l { when \"../l/v=1\"; key k; leaf k { type string; } leaf v { type int32; } } } leaf q { type string; }", `{"w":{"l":[{"k":"a","v":1},{"k":"b","v":2},{"k":"c","v":1}]},"q":"keep"}`},
	} {
		m, err := parser.LoadModuleFromString(nil, "module m { namespace \"urn:m\"; prefix m; revision 2020-01-01; "+sc.body+" }")
		if err != nil {
			c.Count("circular_when_rejected_at_load")
			continue
		}
		c.Eval()
		c.Shape("when-circular/%s", sc.name)
		n, _ := nodeutil.ReadJSON(sc.doc)
		var rerr error
		if c.Guard("circular when "+sc.name, func() { _, rerr = nodeutil.WriteJSON(node.NewBrowser(m, n).Root()) }) {
			continue
		}
		if rerr != nil {
			c.Count("circular_when_read_error")
		} else {
			c.Count("circular_when_read_ok")
		}
	}
}

// whenEditNodes: an edit that brings a container / list entries / a leaf-list whose condition is false for what the target holds does
// not write them (and leaves nothing of them behind), one whose condition holds writes them like any other.
func (p c16) whenEditNodes(c *core.Ctx) {
	body := "leaf o { type int32; } container gc { when \"../o>5\"; leaf y { type string; } } list gl { when \"../o>5\"; key k; leaf k { type string; } leaf v { type int32; } } " +
		"leaf-list gll { when \"o>5\"; type string; } container w { leaf o2 { type int32; } container inner { when \"../o2>5\"; leaf z { type string; } } } leaf q { type string; }"
	m, err := parser.LoadModuleFromString(nil, "module m { namespace \"urn:m\"; prefix m; revision 2020-01-01; "+body+" }")
	if err != nil {
		c.Violate("when/load-error/edit-nodes", "load: %v\n%s", err, body)
		return
	}
	for _, o := range []int{9, 1} {
		for _, piece := range []struct{ name, doc, key string }{
			{"container", `{"gc":{"y":"v"}}`, "gc"},
			{"list", `{"gl":[{"k":"a","v":1},{"k":"b","v":2}]}`, "gl"},
			{"leaf-list", `{"gll":["p","q"]}`, "gll"},
			{"nested-container", `{"w":{"inner":{"z":"v"}}}`, "w/inner"},
		} {
			c.Eval()
			c.Shape("when-edit-nodes/%s/%v", piece.name, o > 5)
			data := map[string]interface{}{}
			b := node.NewBrowser(m, nodeutil.ReflectChild(data))
			seed, _ := nodeutil.ReadJSON(fmt.Sprintf(`{"o":%d,"w":{"o2":%d},"q":"keep"}`, o, o))
			if err := b.Root().UpsertFrom(seed); err != nil {
				c.Violate("when/edit-seed-error/edit-nodes", "seeding failed: %v", err)
				continue
			}
			n, _ := nodeutil.ReadJSON(piece.doc)
			var uerr error
			if c.Guard("edit nodes under when "+piece.name, func() { uerr = b.Root().UpsertFrom(n) }) {
				continue
			}
			var holder interface{} = data
			stored := true
			for _, seg := range strings.Split(piece.key, "/") {
				rv := reflect.ValueOf(holder)
				if rv.Kind() != reflect.Map {
					stored = false
					break
				}
				item := rv.MapIndex(reflect.ValueOf(seg))
				if !item.IsValid() {
					// maps the library creates have interface{} keys
					for _, k := range rv.MapKeys() {
						if fmt.Sprint(k.Interface()) == seg {
							item = rv.MapIndex(k)
						}
					}
				}
				if stored = item.IsValid(); !stored {
					break
				}
				holder = item.Interface()
			}
			if rv := reflect.ValueOf(holder); stored && piece.name == "list" && (rv.Kind() == reflect.Map || rv.Kind() == reflect.Slice) && rv.Len() == 0 {
				// a list without entries and no list are the same data
				stored = false
			}
			want := o > 5
			wit := fmt.Sprintf("schema: %s\ntarget before: o=%d\nedit: %s\ntarget after: %v (error %v)", body, o, piece.doc, data, uerr)
			if !want && stored {
				c.Violate("when/false-but-written/edit-nodes/"+piece.name, "the condition is false for the target's data, yet the edit left %s in the target\n%s", piece.key, wit)
			}
			if want && (uerr != nil || !stored) {
				c.Violate("when/true-but-not-written/edit-nodes/"+piece.name, "the condition holds for the target's data, yet the edit did not store %s\n%s", piece.key, wit)
			}
			if data["q"] != "keep" {
				c.Violate("when/hides-too-much/edit-nodes", "the sibling leaf disappeared\n%s", wit)
			}
		}
	}
}

// whenOperandGuarded: the operand of a condition is itself under a condition; and a leaf under a condition read directly
// (Find + Get, GetValue) instead of as part of its container.
func (p c16) whenOperandGuarded(c *core.Ctx) {
	body := "leaf w { type int32; } leaf z { when \"w=1\"; type int32; } leaf y { when \"z>10\"; type string; } container k { leaf o { type int32; } leaf g { when \"o>5\"; type string; } } leaf q { type string; }"
	m, err := parser.LoadModuleFromString(nil, "module m { namespace \"urn:m\"; prefix m; revision 2020-01-01; "+body+" }")
	if err != nil {
		c.Violate("when/load-error/operand-guarded", "load: %v\n%s", err, body)
		return
	}
	for _, w := range []int{1, 2} {
		for _, z := range []int{20, 5} {
			for _, o := range []int{9, 1} {
				c.Eval()
				c.Shape("when-operand-guarded/%v/%v/%v", w == 1, z > 10, o > 5)
				doc := fmt.Sprintf("{\"w\":%d,\"z\":%d,\"y\":\"yv\",\"k\":{\"o\":%d,\"g\":\"gv\"},\"q\":\"keep\"}", w, z, o)
				n, _ := nodeutil.ReadJSON(doc)
				b := node.NewBrowser(m, n)
				var got string
				var rerr error
				if c.Guard("operand guarded", func() { got, rerr = nodeutil.WriteJSON(b.Root()) }) {
					continue
				}
				wantZ, wantY, wantG := w == 1, w == 1 && z > 10, o > 5
				wit := fmt.Sprintf("schema: %s\ndata: %s\noutput: %s", body, doc, got)
				if rerr != nil {
					c.Violate("when/error/operand-guarded", "read failed: %v\n%s", rerr, wit)
					continue
				}
				var top map[string]interface{}
				if e := jsonUnmarshal(got, &top); e != nil {
					c.Violate("when/error/operand-guarded", "output is not JSON\n%s", wit)
					continue
				}
				_, hasZ := top["z"]
				_, hasY := top["y"]
				kk, _ := top["k"].(map[string]interface{})
				_, hasG := kk["g"]
				if hasZ != wantZ || hasY != wantY || hasG != wantG || top["q"] != "keep" {
					c.Violate("when/operand-guarded/read", "z visible=%v (want %v), y visible=%v (want %v: its operand z must be visible and > 10), k/g visible=%v (want %v)\n%s", hasZ, wantZ, hasY, wantY, hasG, wantG, wit)
				}
				// the same leaves asked for one by one
				for _, probe := range []struct {
					path string
					want bool
				}{{"z", wantZ}, {"y", wantY}, {"k/g", wantG}, {"q", true}} {
					c.Eval()
					var v val.Value
					var gerr error
					if c.Guard("GetValue "+probe.path, func() { v, gerr = b.Root().GetValue(probe.path) }) {
						continue
					}
					if gerr != nil {
						c.Violate("when/operand-guarded/direct-read-error", "GetValue(%q) failed: %v\n%s", probe.path, gerr, wit)
					} else if (v != nil) != probe.want {
						c.Violate("when/operand-guarded/direct-read", "GetValue(%q) = %v, the leaf is visible=%v in a read of its container\n%s", probe.path, v, probe.want, wit)
					}
				}
			}
		}
	}
}

func (p c16) Run(c *core.Ctx, idx int) {
	ts := c16types()
	t := ts[idx%len(ts)]
	if idx%97 == 1 {
		p.whenStacked(c)
	}
	if idx%97 == 2 {
		p.whenOperandGuarded(c)
	}
	if idx%97 == 3 {
		p.whenSharedGrouping(c)
	}
	if idx%97 == 4 {
		p.whenCircular(c)
	}
	if idx%97 == 5 {
		p.whenEditNodes(c)
	}
	if idx%97 == 0 {
		p.usesWhenOnContainer(c)
	}
	if idx%97 == 6 {
		p.whenVsParams(c)
	}
	placement := []string{"when-container", "when-leaf", "when-leaf-list", "when-uses", "when-augment", "where-top", "where-nested", "filter", "when-edit", "when-list", "when-path"}[(idx/len(ts))%11]
	ops := c16ops
	if t.name == "boolean" {
		ops = []string{"=", "!="}
	}
	for _, op := range ops {
		lits := append([]string{}, t.values...)
		if lo, hi := dp.IntBounds(t.name); lo != nil {
			// a literal the operand's type cannot hold still compares mathematically
			lits = append(lits, new(big.Int).Sub(lo, big.NewInt(1)).String(), new(big.Int).Add(hi, big.NewInt(1)).String())
		}
		for _, lit := range lits {
			if t.name == "string" && lit == "" {
				continue // '' is not distinguishable from no literal in this subset
			}
			switch placement {
			case "where-top", "where-nested":
				p.where(c, t, op, lit, placement == "where-nested")
			case "filter":
				p.filter(c, t, op, lit)
			case "when-list":
				p.whenList(c, t, op, lit)
			case "when-path":
				p.whenPath(c, t, op, lit)
			default:
				p.when(c, t, op, lit, placement)
			}
		}
	}
}

// when: the guarded node g is visible iff "o OP lit" holds.
func (p c16) when(c *core.Ctx, t c16type, op, lit, placement string) {
	expr := "o" + op + t.xlit(lit)
	dflt := ""
	var mkYang func(cond string) string
	switch placement {
	case "when-container":
		mkYang = func(cond string) string {
			return fmt.Sprintf("container g { %s leaf o { %s %s } leaf p { type string; } } leaf q { type string; }", cond, t.yang, dflt)
		}
	case "when-leaf", "when-edit":
		mkYang = func(cond string) string {
			return fmt.Sprintf("leaf o { %s %s } leaf g { %s type string; } leaf q { type string; }", t.yang, dflt, cond)
		}
	case "when-leaf-list":
		mkYang = func(cond string) string {
			return fmt.Sprintf("leaf o { %s %s } leaf-list g { %s type string; } leaf q { type string; }", t.yang, dflt, cond)
		}
	case "when-uses":
		mkYang = func(cond string) string {
			// the same grouping is used again, later and without a condition: that expansion is never hidden
			return fmt.Sprintf("grouping inner { leaf g2 { type int32; } } grouping gg { leaf g { type string; } uses inner; } leaf o { %s %s } uses gg { %s } container other { uses gg; } leaf q { type string; }", t.yang, dflt, cond)
		}
	case "when-augment":
		mkYang = func(cond string) string {
			return fmt.Sprintf("container k { leaf o { %s %s } } augment \"/k\" { %s leaf g { type string; } } leaf q { type string; }", t.yang, dflt, cond)
		}
	}
	for pres := 0; pres < 3; pres++ {
		// 0: operand set to each catalog value; 1: unset; 2: unset with default
		var operands []*string
		switch pres {
		case 0:
			for i := range t.values {
				v := t.values[i]
				operands = append(operands, &v)
			}
			dflt = ""
		case 1:
			operands = []*string{nil}
			dflt = ""
		case 2:
			operands = []*string{nil}
			dv := t.values[len(t.values)/2]
			dflt = fmt.Sprintf("default \"%s\";", dv)
		}
		cond := fmt.Sprintf("when \"%s\";", expr)
		load := func(body string) *meta.Module {
			m, err := parser.LoadModuleFromString(nil, "module m { namespace \"urn:m\"; prefix m; revision 2020-01-01; "+body+" }")
			if err != nil {
				c.Violate("when/load-error/"+placement, "schema with %s does not load: %v\n%s", cond, err, body)
				return nil
			}
			return m
		}
		var mod, plain *meta.Module
		if c.Guard("load", func() { mod = load(mkYang(cond)); plain = load(mkYang("")) }) || mod == nil || plain == nil {
			return
		}
		for _, operand := range operands {
			c.Eval()
			c.Progress()
			// effective operand: an unset leaf with a default takes the default value
			eff := operand
			if operand == nil && pres == 2 {
				dv := t.values[len(t.values)/2]
				eff = &dv
			}
			want := t.truth(eff, op, lit)
			presName := []string{"set", "unset", "unset-default"}[pres]
			c.Shape("%s/%s/%s/%v/%s", placement, t.name, op, want, presName)
			// data as JSON (reader is the source node, like the library's own when tests)
			ov := ""
			if operand != nil {
				ov = fmt.Sprintf("\"o\":%s,", jsonScalar(t, *operand))
			}
			var doc string
			switch placement {
			case "when-container":
				doc = fmt.Sprintf("{\"g\":{%s\"p\":\"x\"},\"q\":\"keep\"}", ov)
			case "when-uses":
				doc = fmt.Sprintf("{%s\"g\":\"x\",\"g2\":7,\"other\":{\"g\":\"y\",\"g2\":8},\"q\":\"keep\"}", ov)
			case "when-leaf", "when-edit":
				doc = fmt.Sprintf("{%s\"g\":\"x\",\"q\":\"keep\"}", ov)
			case "when-leaf-list":
				doc = fmt.Sprintf("{%s\"g\":[\"x\",\"y\"],\"q\":\"keep\"}", ov)
			case "when-augment":
				doc = fmt.Sprintf("{\"k\":{%s\"g\":\"x\"},\"q\":\"keep\"}", strings.TrimSuffix(ov, ",")+",")
				doc = strings.Replace(doc, "{,", "{", 1)
			}
			read := func(m *meta.Module) (string, error) {
				n, err := nodeutil.ReadJSON(doc)
				if err != nil {
					return "", err
				}
				return nodeutil.WriteJSON(node.NewBrowser(m, n).Root())
			}
			var got, ref string
			var err, rerr error
			if c.Guard("read with "+cond+" data "+doc, func() { got, err = read(mod); ref, rerr = read(plain) }) {
				continue
			}
			sig := fmt.Sprintf("%s/%s/%s/%s", placement, t.name, opName(op), presName)
			wit := fmt.Sprintf("schema: %s\ndata: %s\noutput: %s\noutput without the condition: %s", mkYang(cond), doc, got, ref)
			if placement == "when-edit" {
				p.whenEdit(c, mod, t, doc, want, sig, wit)
				continue
			}
			if err != nil || rerr != nil {
				c.Violate("when/error/"+sig, "read failed: %v / %v\n%s", err, rerr, wit)
				continue
			}
			visible := strings.Contains(got, "\"g\"") || strings.Contains(got, "\"g2\"") || strings.Contains(got, "\"g3\"")
			if placement == "when-uses" {
				var top map[string]interface{}
				if jsonUnmarshal(got, &top) != nil {
					c.Violate("when/error/"+sig, "output is not JSON\n%s", wit)
					continue
				}
				_, g1 := top["g"]
				_, g2 := top["g2"]
				visible = g1 || g2
				if o, _ := top["other"].(map[string]interface{}); o == nil || o["g"] != "y" || o["g2"] != 8.0 {
					c.Violate("when/unconditional-uses-hidden/"+sig, "the second, unconditional uses of the grouping is affected by the condition of the first\n%s", wit)
					continue
				}
			}
			if want {
				// true: behaves as if there was no when
				if got != ref {
					c.Violate("when/true-but-differs/"+sig, "the condition %q holds, yet the read differs from the schema without it\n%s", expr, wit)
				}
			} else if visible {
				c.Violate("when/false-but-visible/"+sig, "the condition %q is false, yet the guarded node is reported\n%s", expr, wit)
			} else if !strings.Contains(got, "\"q\":\"keep\"") {
				c.Violate("when/hides-too-much/"+sig, "the condition %q is false and hides more than the guarded node\n%s", expr, wit)
			}
		}
	}
}

// whenList: a when on a list holds or fails for each entry: exactly the entries whose own operand satisfies it are read.
func (p c16) whenList(c *core.Ctx, t c16type, op, lit string) {
	expr := "o" + op + t.xlit(lit)
	yang := fmt.Sprintf("module m { namespace \"urn:m\"; prefix m; revision 2020-01-01; list g { when \"%s\"; key k; leaf k { type int32; } leaf o { %s } leaf p { type string; } } leaf q { type string; } }", expr, t.yang)
	var mod *meta.Module
	var err error
	if c.Guard("load", func() { mod, err = parser.LoadModuleFromString(nil, yang) }) {
		return
	}
	if err != nil {
		c.Violate("when/load-error/when-list", "schema does not load: %v\n%s", err, yang)
		return
	}
	// one entry per catalog value plus one without the operand
	var entries []string
	var want []string
	for i, v := range t.values {
		v := v
		entries = append(entries, fmt.Sprintf("{\"k\":%d,\"o\":%s,\"p\":\"x\"}", i, jsonScalar(t, v)))
		if t.truth(&v, op, lit) {
			want = append(want, fmt.Sprint(i))
		}
	}
	entries = append(entries, fmt.Sprintf("{\"k\":%d,\"p\":\"x\"}", len(t.values)))
	doc := "{\"g\":[" + strings.Join(entries, ",") + "],\"q\":\"keep\"}"
	c.Eval()
	c.Shape("when-list/%s/%s/%d-of-%d", t.name, op, len(want), len(entries))
	var got string
	if c.Guard("read list with when", func() {
		n, e := nodeutil.ReadJSON(doc)
		if e != nil {
			err = e
			return
		}
		got, err = nodeutil.WriteJSON(node.NewBrowser(mod, n).Root())
	}) {
		return
	}
	sig := fmt.Sprintf("when-list/%s/%s", t.name, opName(op))
	wit := fmt.Sprintf("schema: %s\ndata: %s\noutput: %s", yang, doc, got)
	if err != nil {
		c.Violate("when/error/"+sig, "read failed: %v\n%s", err, wit)
		return
	}
	var top struct {
		G []struct {
			K int `json:"k"`
		} `json:"g"`
		Q string `json:"q"`
	}
	if jsonUnmarshal(got, &top) != nil {
		c.Violate("when/error/"+sig, "output is not JSON\n%s", wit)
		return
	}
	var gotKeys []string
	for _, e := range top.G {
		gotKeys = append(gotKeys, fmt.Sprint(e.K))
	}
	if strings.Join(gotKeys, ",") != strings.Join(want, ",") {
		cls := "wrong-entries"
		if len(gotKeys) > len(want) {
			cls = "false-but-visible"
		}
		c.Violate("when/"+cls+"/"+sig, "entries read: %v, entries whose operand satisfies %q: %v\n%s", gotKeys, expr, want, wit)
	}
	if top.Q != "keep" {
		c.Violate("when/hides-too-much/"+sig, "the sibling leaf disappeared\n%s", wit)
	}
	// the same list read with a where every entry satisfies: the intersection is still what the when leaves
	c.Eval()
	var got2 string
	if c.Guard("read list with when and where", func() {
		n, e := nodeutil.ReadJSON(doc)
		if e != nil {
			err = e
			return
		}
		var sel *node.Selection
		sel, err = node.NewBrowser(mod, n).Root().Find("g?where=" + url.QueryEscape("p='x'"))
		if err == nil && sel != nil {
			got2, err = nodeutil.WriteJSON(sel)
		}
	}) {
		return
	}
	var lst struct {
		G []struct {
			K int `json:"k"`
		} `json:"g"`
	}
	if err != nil || jsonUnmarshal(got2, &lst) != nil {
		c.Violate("when/error/"+sig+"/with-where", "read with where=p='x' failed: %v\n%s\noutput: %s", err, wit, got2)
		return
	}
	var keys2 []string
	for _, e := range lst.G {
		keys2 = append(keys2, fmt.Sprint(e.K))
	}
	if strings.Join(keys2, ",") != strings.Join(want, ",") {
		c.Violate("when/where-overrides-when/"+sig, "with where=p='x' (true for every entry) the entries read are %v, the when leaves %v\n%s\noutput: %s", keys2, want, wit, got2)
	}
}

// whenPath: the operand is reached through a path: container/leaf for every type, and list/key='literal' (true when some entry has
// that key) for strings, with literals holding the characters that mean something in a URL path.
func (p c16) whenPath(c *core.Ctx, t c16type, op, lit string) {
	load := func(body string) *meta.Module {
		m, err := parser.LoadModuleFromString(nil, "module m { namespace \"urn:m\"; prefix m; revision 2020-01-01; "+body+" }")
		if err != nil {
			c.Violate("when/load-error/when-path", "%v\n%s", err, body)
			return nil
		}
		return m
	}
	read := func(m *meta.Module, doc string) (map[string]interface{}, string, error) {
		n, err := nodeutil.ReadJSON(doc)
		if err != nil {
			return nil, "", err
		}
		js, err := nodeutil.WriteJSON(node.NewBrowser(m, n).Root())
		if err != nil {
			return nil, js, err
		}
		var top map[string]interface{}
		if e := jsonUnmarshal(js, &top); e != nil {
			return nil, js, e
		}
		return top, js, nil
	}
	// container/leaf, container/container/leaf, and from a container up to a sibling of it or of its parent ("..": the parent of the
	// context node, which for a container is the same node under RFC 7950 and under the library's convention)
	type pathForm struct {
		name, expr, body string
		doc              func(o string) string // o: ,"o":<value> or empty
	}
	lit2 := t.xlit(lit)
	forms := []pathForm{
		{"container", "c/o" + op + lit2, "container c { leaf o { %s } } leaf g { when \"%s\"; type string; } leaf q { type string; }",
			func(o string) string { return "{\"c\":{\"z\":1" + o + "},\"g\":\"x\",\"q\":\"keep\"}" }},
		{"container-container", "c/d/o" + op + lit2, "container c { container d { leaf o { %s } leaf z { type int32; } } } leaf g { when \"%s\"; type string; } leaf q { type string; }",
			func(o string) string { return "{\"c\":{\"d\":{\"z\":1" + o + "}},\"g\":\"x\",\"q\":\"keep\"}" }},
		{"up-sibling", "../o" + op + lit2, "leaf o { %s } leaf z { type int32; } container g { when \"%s\"; leaf p { type string; } } leaf q { type string; }",
			func(o string) string { return "{\"z\":1" + o + ",\"g\":{\"p\":\"x\"},\"q\":\"keep\"}" }},
		{"up-up-container", "../../c/o" + op + lit2, "container c { leaf o { %s } leaf z { type int32; } } container h { container g { when \"%s\"; leaf p { type string; } } leaf hz { type int32; } } leaf q { type string; }",
			func(o string) string {
				return "{\"c\":{\"z\":1" + o + "},\"h\":{\"hz\":1,\"g\":{\"p\":\"x\"}},\"q\":\"keep\"}"
			}},
		{"up-from-entry", "../o" + op + lit2, "container w { leaf o { %s } leaf z { type int32; } list g { when \"%s\"; key k; leaf k { type string; } } } leaf q { type string; }",
			func(o string) string {
				return "{\"w\":{\"z\":1" + o + ",\"g\":[{\"k\":\"a\"},{\"k\":\"b\"}]},\"q\":\"keep\"}"
			}},
	}
	form := forms[c.Rand.Intn(len(forms))]
	expr := form.expr
	body := fmt.Sprintf(form.body, t.yang, strings.ReplaceAll(expr, "\"", "\\\""))
	var mod *meta.Module
	if c.Guard("load", func() { mod = load(body) }) || mod == nil {
		return
	}
	operands := []*string{nil}
	for i := range t.values {
		v := t.values[i]
		operands = append(operands, &v)
	}
	visible := func(top map[string]interface{}) bool {
		switch form.name {
		case "up-up-container":
			h, _ := top["h"].(map[string]interface{})
			_, vis := h["g"]
			return vis
		case "up-from-entry":
			w, _ := top["w"].(map[string]interface{})
			l, _ := w["g"].([]interface{})
			return len(l) == 2
		}
		_, vis := top["g"]
		return vis
	}
	for _, o := range operands {
		c.Eval()
		want := t.truth(o, op, lit)
		doc := form.doc("")
		if o != nil {
			doc = form.doc(",\"o\":" + jsonScalar(t, *o))
		}
		c.Shape("when-path/%s/%s/%s/%v", form.name, t.name, op, want)
		var top map[string]interface{}
		var js string
		var err error
		if c.Guard("read "+expr, func() { top, js, err = read(mod, doc) }) {
			continue
		}
		sig := fmt.Sprintf("when-path/%s/%s/%s", form.name, t.name, opName(op))
		wit := fmt.Sprintf("schema: %s\ndata: %s\noutput: %s", body, doc, js)
		if err != nil {
			c.Violate("when/error/"+sig, "read failed: %v\n%s", err, wit)
			continue
		}
		if vis := visible(top); vis != want {
			cls := "false-but-visible"
			if want {
				cls = "true-but-hidden"
			}
			c.Violate("when/"+cls+"/"+sig, "%q is %v for this data\n%s", expr, want, wit)
		}
		if top["q"] != "keep" {
			c.Violate("when/hides-too-much/"+sig, "the sibling leaf disappeared\n%s", wit)
		}
	}
	if t.name != "string" || op != "=" {
		return
	}
	p.whenThroughGuardedList(c, load, read)
	// list/key = 'literal'
	keys := []string{"plain", "a/b", "ge-0/0/1", "x,y", "1+1", "100%", "q?x", "a b", "k=v", "#h", "a&b"}
	for _, l := range keys {
		expr := "l/k='" + l + "'"
		body := fmt.Sprintf("list l { key k; leaf k { type string; } leaf v { type int32; } } leaf g { when \"%s\"; type string; } leaf q { type string; }", expr)
		var mod *meta.Module
		if c.Guard("load", func() { mod = load(body) }) || mod == nil {
			return
		}
		for _, present := range []bool{true, false} {
			c.Eval()
			var es []string
			for i, k := range keys {
				if k == l && !present {
					continue
				}
				es = append(es, fmt.Sprintf("{\"k\":%q,\"v\":%d}", k, i))
			}
			doc := "{\"l\":[" + strings.Join(es, ",") + "],\"g\":\"x\",\"q\":\"keep\"}"
			c.Shape("when-path/list-key/%q/%v", l, present)
			var top map[string]interface{}
			var js string
			var err error
			if c.Guard("read "+expr, func() { top, js, err = read(mod, doc) }) {
				continue
			}
			wit := fmt.Sprintf("schema: %s\ndata: %s\noutput: %s", body, doc, js)
			if err != nil {
				c.Violate("when/error/when-path/list-key", "read failed: %v\n%s", err, wit)
				continue
			}
			if _, vis := top["g"]; vis != present {
				cls := "false-but-visible"
				if present {
					cls = "true-but-hidden"
				}
				c.Violate("when/"+cls+"/when-path/list-key", "%q is %v for this data\n%s", expr, present, wit)
			}
		}
	}
}

// whenThroughGuardedList: the path of a when goes through a list whose entries are themselves guarded by a when (evaluated per entry).
// Entries whose when is false are invisible - to the expression as to any reader - and the ones after them are not: the condition holds
// exactly when some VISIBLE entry satisfies the comparison, wherever the hidden entries stand in the list.
func (p c16) whenThroughGuardedList(c *core.Ctx, load func(string) *meta.Module, read func(*meta.Module, string) (map[string]interface{}, string, error)) {
	body := "list l { when \"on='true'\"; key k; leaf k { type string; } leaf on { type boolean; } leaf v { type int32; } } leaf g { when \"l/v>100\"; type string; } leaf q { type string; }"
	var mod *meta.Module
	if c.Guard("load", func() { mod = load(body) }) || mod == nil {
		return
	}
	type ent struct {
		on bool
		v  int
	}
	// every list of up to three entries over {visible, hidden} x {satisfies, does not}
	kinds := []ent{{true, 150}, {true, 50}, {false, 150}, {false, 50}}
	var lists [][]ent
	for _, a := range kinds {
		lists = append(lists, []ent{a})
		for _, b := range kinds {
			lists = append(lists, []ent{a, b})
			for _, d := range kinds {
				lists = append(lists, []ent{a, b, d})
			}
		}
	}
	for _, es := range lists {
		c.Eval()
		want := false
		var parts []string
		shape := ""
		for i, e := range es {
			if e.on && e.v > 100 {
				want = true
			}
			parts = append(parts, fmt.Sprintf("{\"k\":\"e%d\",\"on\":%v,\"v\":%d}", i, e.on, e.v))
			shape += map[bool]string{true: "V", false: "H"}[e.on] + map[bool]string{true: "+", false: "-"}[e.v > 100]
		}
		doc := "{\"l\":[" + strings.Join(parts, ",") + "],\"g\":\"x\",\"q\":\"keep\"}"
		c.Shape("when-path/guarded-list/%s", shape)
		var top map[string]interface{}
		var js string
		var err error
		if c.Guard("read through guarded list", func() { top, js, err = read(mod, doc) }) {
			continue
		}
		wit := fmt.Sprintf("schema: %s\ndata: %s\noutput: %s", body, doc, js)
		if err != nil {
			c.Violate("when/error/when-path/guarded-list", "read failed: %v\n%s", err, wit)
			continue
		}
		if _, vis := top["g"]; vis != want {
			cls := "false-but-visible"
			if want {
				cls = "true-but-hidden"
			}
			c.Violate("when/"+cls+"/when-path/guarded-list", "l/v>100 over the visible entries (%s: V visible, H hidden by the list's when, + satisfies) is %v\n%s", shape, want, wit)
		}
		if top["q"] != "keep" {
			c.Violate("when/hides-too-much/when-path/guarded-list", "the sibling leaf disappeared\n%s", wit)
		}
	}
}

// whenEdit: a leaf whose when is false for the target's data is not written by an edit, one whose when is
// true is written like any other leaf. The operand already sits in the target; the edit brings only g.
func (p c16) whenEdit(c *core.Ctx, mod *meta.Module, t c16type, doc string, want bool, sig, wit string) {
	data := map[string]interface{}{}
	b := node.NewBrowser(mod, nodeutil.ReflectChild(data))
	// seed the operand (and q) without g
	seed := strings.Replace(doc, "\"g\":\"x\",", "", 1)
	n, err := nodeutil.ReadJSON(seed)
	if err != nil {
		return
	}
	if err := b.Root().UpsertFrom(n); err != nil {
		c.Violate("when/edit-seed-error/"+sig, "seeding the operand failed: %v\n%s", err, wit)
		return
	}
	n2, _ := nodeutil.ReadJSON("{\"g\":\"x\"}")
	var uerr error
	if c.Guard("edit under when", func() { uerr = b.Root().UpsertFrom(n2) }) {
		return
	}
	_, stored := data["g"]
	if !want && stored {
		c.Violate("when/false-but-written/"+sig, "the condition is false for the target's data, yet the edit stored the guarded leaf (store %v, error=%v)\n%s", data, uerr, wit)
	}
	if want && (uerr != nil || !stored) {
		c.Violate("when/true-but-not-written/"+sig, "the condition holds for the target's data, yet the edit did not store g (store %v, error=%v)\n%s", data, uerr, wit)
	}
}

func opName(op string) string {
	return map[string]string{"=": "eq", "!=": "ne", "<": "lt", "<=": "le", ">": "gt", ">=": "ge"}[op]
}

func jsonScalar(t c16type, v string) string {
	switch t.name {
	case "string", "enumeration":
		return fmt.Sprintf("%q", v)
	case "int64", "uint64":
		return "\"" + v + "\""
	}
	return v
}

// where keeps exactly the entries for which the predicate holds, in order.
func (p c16) where(c *core.Ctx, t c16type, op, lit string, nested bool) {
	body := fmt.Sprintf("list l { key k; leaf k { type string; } leaf o { %s } leaf r { type string; } }", t.yang)
	path := "l"
	if nested {
		body = fmt.Sprintf("container top { list outer { key id; leaf id { type int32; } %s } }", body)
		path = "top/outer=1/l"
	}
	var mod *meta.Module
	var err error
	if c.Guard("load", func() {
		mod, err = parser.LoadModuleFromString(nil, "module m { namespace \"urn:m\"; prefix m; revision 2020-01-01; "+body+" }")
	}) || err != nil {
		if err != nil {
			c.Violate("where/load-error", "%v", err)
		}
		return
	}
	// entries: one per catalog value (in a scrambled but fixed order) plus entries without the operand
	var entries []string
	var wantKeys []string
	order := c.Rand.Perm(len(t.values))
	for n, i := range order {
		v := t.values[i]
		key := fmt.Sprintf("e%d", n)
		entries = append(entries, fmt.Sprintf("{\"k\":%q,\"o\":%s,\"r\":\"x\"}", key, jsonScalar(t, v)))
		if t.truth(&v, op, lit) {
			wantKeys = append(wantKeys, key)
		}
		if n%2 == 1 {
			entries = append(entries, fmt.Sprintf("{\"k\":\"u%d\",\"r\":\"x\"}", n))
		}
	}
	doc := "{\"l\":[" + strings.Join(entries, ",") + "]}"
	if nested {
		doc = "{\"top\":{\"outer\":[{\"id\":1," + doc[1:len(doc)-1] + "},{\"id\":2,\"l\":[{\"k\":\"other\",\"o\":" + jsonScalar(t, t.values[0]) + "}]}]}}"
	}
	expr := "o" + op + t.xlit(lit)
	c.Eval()
	c.Progress()
	placement := "where-top"
	if nested {
		placement = "where-nested"
	}
	c.Shape("%s/%s/%s/%d", placement, t.name, op, len(wantKeys))
	var got string
	if c.Guard("where "+expr, func() {
		n, e := nodeutil.ReadJSON(doc)
		if e != nil {
			err = e
			return
		}
		var sel *node.Selection
		sel, err = node.NewBrowser(mod, n).Root().Find(path + "?where=" + url.QueryEscape(expr))
		if err != nil || sel == nil {
			if err == nil {
				err = fmt.Errorf("verif: list not found")
			}
			return
		}
		got, err = nodeutil.WriteJSON(sel)
	}) {
		return
	}
	sig := fmt.Sprintf("%s/%s/%s", placement, t.name, opName(op))
	wit := fmt.Sprintf("schema: %s\ndata: %s\nquery: %s?where=%s\noutput: %s", body, doc, path, expr, got)
	if err != nil {
		c.Violate("where/error/"+sig, "%v\n%s", err, wit)
		return
	}
	// keys reported, in order
	var gotKeys []string
	rest := got
	for {
		i := strings.Index(rest, "\"k\":\"")
		if i < 0 {
			break
		}
		rest = rest[i+5:]
		j := strings.Index(rest, "\"")
		gotKeys = append(gotKeys, rest[:j])
		rest = rest[j:]
	}
	if strings.Join(gotKeys, ",") != strings.Join(wantKeys, ",") {
		cls := "wrong-rows"
		for _, k := range gotKeys {
			if strings.HasPrefix(k, "u") {
				cls = "row-without-operand-kept"
			}
		}
		c.Violate("where/"+cls+"/"+sig, "where keeps %v, the predicate holds for %v\n%s", gotKeys, wantKeys, wit)
	}
}

// filter delivers exactly the events for which the predicate holds.
func (p c16) filter(c *core.Ctx, t c16type, op, lit string) {
	body := fmt.Sprintf("notification ev { leaf o { %s } leaf seq { type int32; } }", t.yang)
	var mod *meta.Module
	var err error
	if c.Guard("load", func() {
		mod, err = parser.LoadModuleFromString(nil, "module m { namespace \"urn:m\"; prefix m; revision 2020-01-01; "+body+" }")
	}) || err != nil {
		if err != nil {
			c.Violate("filter/load-error", "%v", err)
		}
		return
	}
	// scripted events: every catalog value, plus events without the operand
	type evt struct {
		seq int
		o   *string
	}
	var events []evt
	var want []int
	for i := range t.values {
		v := t.values[i]
		events = append(events, evt{seq: len(events), o: &v})
		if t.truth(&v, op, lit) {
			want = append(want, len(events)-1)
		}
		if i%2 == 0 {
			events = append(events, evt{seq: len(events)})
		}
	}
	expr := "o" + op + t.xlit(lit)
	c.Eval()
	c.Progress()
	c.Shape("filter/%s/%s/%d", t.name, op, len(want))
	root := &nodeutil.Basic{
		OnNotify: func(r node.NotifyRequest) (node.NotifyCloser, error) {
			for _, e := range events {
				ov := ""
				if e.o != nil {
					ov = fmt.Sprintf("\"o\":%s,", jsonScalar(t, *e.o))
				}
				n, _ := nodeutil.ReadJSON(fmt.Sprintf("{%s\"seq\":%d}", ov, e.seq))
				r.Send(n)
			}
			return func() error { return nil }, nil
		},
	}
	var got []int
	var streamErr []string
	if c.Guard("filter "+expr, func() {
		var sel *node.Selection
		sel, err = node.NewBrowser(mod, root).Root().Find("ev?filter=" + url.QueryEscape(expr))
		if err != nil || sel == nil {
			if err == nil {
				err = fmt.Errorf("verif: notification not found")
			}
			return
		}
		var closer node.NotifyCloser
		closer, err = sel.Notifications(func(n node.Notification) {
			js, e := nodeutil.WriteJSON(n.Event)
			if e != nil {
				streamErr = append(streamErr, e.Error())
				return
			}
			var seq int
			if i := strings.Index(js, "\"seq\":"); i >= 0 {
				fmt.Sscanf(js[i+6:], "%d", &seq)
			}
			got = append(got, seq)
		})
		if closer != nil {
			closer()
		}
	}) {
		return
	}
	sig := fmt.Sprintf("%s/%s", t.name, opName(op))
	wit := fmt.Sprintf("schema: %s\nfilter: %s\nevents: %d\ndelivered seq: %v\nexpected seq: %v\nstream errors: %v", body, expr, len(events), got, want, streamErr)
	if err != nil {
		c.Violate("filter/error/"+sig, "%v\n%s", err, wit)
		return
	}
	if fmt.Sprint(got) != fmt.Sprint(want) || len(streamErr) > 0 {
		cls := "wrong-events"
		if len(streamErr) > 0 {
			cls = "stream-error"
		}
		c.Violate("filter/"+cls+"/"+sig, "filter delivers %v, the predicate holds for %v\n%s", got, want, wit)
	}
}
