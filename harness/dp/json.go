package dp

import (
	"bytes"
	"encoding/json"
	"fmt"
	"io"
	"math/big"
	"strconv"
	"strings"
)

// JOpts describe how a JSON document is expected to be spelled.
type JOpts struct {
	EnumAsIds bool
	// Int64AsString spells 64-bit integers as JSON strings (RFC 7951) instead of numbers when encoding.
	Int64AsString bool
	// Qualify: member names carry "module:" at the top level and where the module changes.
	Qualify bool
	// TopBelowRoot: the document's top-level object is not the module root (start selection below the
	// root): RFC 7951 still wants every member of the top-level object qualified.
	TopBelowRoot bool
}

// ---- reference encoder (model tree -> JSON text), used to feed readers ------------------------

func jstr(s string) string {
	b, _ := json.Marshal(s)
	// json.Marshal escapes <,>,& as <...: still valid JSON denoting the same text
	return string(b)
}

func encScalar(t *SType, v string, o JOpts) string {
	switch t.Base {
	case "string", "bits", "identityref", "binary":
		return jstr(v)
	case "enumeration":
		if o.EnumAsIds {
			return strconv.Itoa(enumID(t, v))
		}
		return jstr(v)
	case "boolean":
		return v
	case "empty":
		return "[null]"
	case "int64", "uint64":
		if o.Int64AsString {
			return jstr(v)
		}
		return v
	}
	return v
}

func (n *SNode) jname(s *Schema, parent *SNode, o JOpts) string {
	if !o.Qualify {
		return n.Name
	}
	pm := ""
	if parent != nil {
		pm = parent.Module
	}
	if parent == nil || pm != n.Module {
		mod := s.Name
		if n.Module != "" {
			mod = n.Module
		}
		return mod + ":" + n.Name
	}
	return n.Name
}

// EncodeJSON renders the content of d (root, container or entry) as a JSON object.
func EncodeJSON(s *Schema, d *DNode, o JOpts) string {
	var b bytes.Buffer
	encObj(&b, s, d, o)
	return b.String()
}

// EncodeJSONList renders {"name":[entries...]} for a list.
func EncodeJSONList(s *Schema, l *DList, o JOpts) string {
	var b bytes.Buffer
	b.WriteString("{" + jstr(l.S.jname(s, l.S.DataParent(), o)) + ":")
	encList(&b, s, l, o)
	b.WriteString("}")
	return b.String()
}

func encList(b *bytes.Buffer, s *Schema, l *DList, o JOpts) {
	b.WriteString("[")
	for i, e := range l.Entries {
		if i > 0 {
			b.WriteString(",")
		}
		encObj(b, s, e, o)
	}
	b.WriteString("]")
}

func encObj(b *bytes.Buffer, s *Schema, d *DNode, o JOpts) {
	b.WriteString("{")
	first := true
	sep := func() {
		if !first {
			b.WriteString(",")
		}
		first = false
	}
	for _, c := range d.schemaKids(s) {
		name := jstr(c.jname(s, d.S, o))
		switch c.Kind {
		case Leaf:
			if l := d.Leaves[c.Name]; l != nil {
				sep()
				b.WriteString(name + ":" + encScalar(c.Type, l.V[0], o))
			}
		case LeafList:
			if l := d.Leaves[c.Name]; l != nil {
				sep()
				b.WriteString(name + ":[")
				for i, v := range l.V {
					if i > 0 {
						b.WriteString(",")
					}
					b.WriteString(encScalar(c.Type, v, o))
				}
				b.WriteString("]")
			}
		case Container:
			if k := d.Kids[c.Name]; k != nil {
				sep()
				b.WriteString(name + ":")
				encObj(b, s, k, o)
			}
		case List:
			if l := d.Lists[c.Name]; l != nil {
				sep()
				b.WriteString(name + ":")
				encList(b, s, l, o)
			}
		}
	}
	b.WriteString("}")
}

// ---- checking decoder (JSON text -> model tree), used on writer output -------------------------

type JDecoded struct {
	Tree     *DNode
	Problems []string // well-formedness, naming, typing and ordering problems, each prefixed with a class
	Members  int
}

func (jd *JDecoded) problem(class, format string, a ...interface{}) {
	if len(jd.Problems) < 30 {
		jd.Problems = append(jd.Problems, class+": "+fmt.Sprintf(format, a...))
	}
}

type jdec struct {
	d  *json.Decoder
	jd *JDecoded
	s  *Schema
	o  JOpts
}

// DecodeJSON parses text as exactly one JSON value holding the content of a node whose schema children
// are kids (parentS is the SNode of that node, nil for the root) and rebuilds the model tree, recording
// every deviation from RFC 8259 / the schema. Token order is checked against schema order.
func DecodeJSON(s *Schema, parentS *SNode, text string, o JOpts) *JDecoded {
	jd := &JDecoded{Tree: NewDNode(parentS)}
	d := json.NewDecoder(strings.NewReader(text))
	d.UseNumber()
	p := &jdec{d: d, jd: jd, s: s, o: o}
	tok, err := d.Token()
	if err != nil {
		jd.problem("malformed", "%v", err)
		return jd
	}
	if tok != json.Delim('{') {
		jd.problem("shape/top-not-object", "top level value is %v", tok)
		return jd
	}
	if !p.object(jd.Tree, true) {
		return jd
	}
	// exactly one value then EOF
	if _, err := d.Token(); err != io.EOF {
		jd.problem("malformed", "trailing data after the top-level value (%v)", err)
	}
	// also make sure the whole text is one valid value for a plain decoder
	var any interface{}
	if err := json.Unmarshal([]byte(text), &any); err != nil {
		jd.problem("malformed", "json.Unmarshal: %v", err)
	}
	return jd
}

func (p *jdec) skipValue() bool {
	var raw json.RawMessage
	if err := p.d.Decode(&raw); err != nil {
		p.jd.problem("malformed", "%v", err)
		return false
	}
	return true
}

// object reads members until the closing brace; the opening brace is already consumed.
func (p *jdec) object(into *DNode, top bool) bool {
	kids := into.schemaKids(p.s)
	pos := -1
	seen := map[string]bool{}
	for p.d.More() {
		tok, err := p.d.Token()
		if err != nil {
			p.jd.problem("malformed", "%v", err)
			return false
		}
		name, ok := tok.(string)
		if !ok {
			p.jd.problem("malformed", "member name expected, got %v", tok)
			return false
		}
		p.jd.Members++
		local := name
		qual := ""
		if i := strings.Index(name, ":"); i >= 0 {
			qual, local = name[:i], name[i+1:]
		}
		var sn *SNode
		idx := -1
		for i, c := range kids {
			if c.Name == local {
				sn, idx = c, i
			}
		}
		if sn == nil {
			p.jd.problem("name/unknown-member", "member %q is not a schema child of %s", name, nodeName(into.S))
			if !p.skipValue() {
				return false
			}
			continue
		}
		if seen[local] {
			p.jd.problem("shape/duplicate-member", "member %q appears twice in %s", name, nodeName(into.S))
		}
		seen[local] = true
		if idx < pos {
			p.jd.problem("order/schema-order", "member %q appears after a later schema sibling in %s", name, nodeName(into.S))
		}
		pos = idx
		// qualification
		wantQ := ""
		if p.o.Qualify {
			want := sn.jname(p.s, into.S, p.o)
			if top {
				want = sn.jname(p.s, nil, p.o)
			}
			if i := strings.Index(want, ":"); i >= 0 {
				wantQ = want[:i]
			}
		}
		if qual != wantQ {
			p.jd.problem("name/qualification", "member %q of %s: module qualifier %q, expected %q", name, nodeName(into.S), qual, wantQ)
		}
		switch sn.Kind {
		case Leaf:
			v, ok := p.scalar(sn)
			if !ok {
				return false
			}
			if v != nil {
				into.Leaves[sn.Name] = &LVal{V: []string{*v}}
			}
		case LeafList:
			tok, err := p.d.Token()
			if err != nil {
				p.jd.problem("malformed", "%v", err)
				return false
			}
			if tok != json.Delim('[') {
				p.jd.problem("shape/leaf-list-not-array", "leaf-list %s is %v", sn.Name, tok)
				if _, isDelim := tok.(json.Delim); isDelim {
					return false
				}
				continue
			}
			l := &LVal{List: true, V: []string{}}
			for p.d.More() {
				v, ok := p.scalar(sn)
				if !ok {
					return false
				}
				if v != nil {
					l.V = append(l.V, *v)
				}
			}
			p.d.Token()
			into.Leaves[sn.Name] = l
		case Container:
			tok, err := p.d.Token()
			if err != nil {
				p.jd.problem("malformed", "%v", err)
				return false
			}
			if tok != json.Delim('{') {
				p.jd.problem("shape/container-not-object", "container %s is %v", sn.Name, tok)
				return false
			}
			k := NewDNode(sn)
			into.Kids[sn.Name] = k
			if !p.object(k, false) {
				return false
			}
		case List:
			tok, err := p.d.Token()
			if err != nil {
				p.jd.problem("malformed", "%v", err)
				return false
			}
			if tok != json.Delim('[') {
				p.jd.problem("shape/list-not-array", "list %s is %v", sn.Name, tok)
				return false
			}
			l := &DList{S: sn}
			into.Lists[sn.Name] = l
			for p.d.More() {
				tok, err := p.d.Token()
				if err != nil {
					p.jd.problem("malformed", "%v", err)
					return false
				}
				if tok != json.Delim('{') {
					p.jd.problem("shape/entry-not-object", "entry of list %s is %v", sn.Name, tok)
					return false
				}
				e := NewDNode(sn)
				if !p.object(e, false) {
					return false
				}
				l.Entries = append(l.Entries, e)
			}
			p.d.Token()
		}
	}
	if _, err := p.d.Token(); err != nil { // closing brace
		p.jd.problem("malformed", "%v", err)
		return false
	}
	return true
}

func nodeName(s *SNode) string {
	if s == nil {
		return "<root>"
	}
	return s.Name
}

// scalar reads one JSON value for a leaf of type sn.Type and returns its canonical model form.
func (p *jdec) scalar(sn *SNode) (*string, bool) {
	t := sn.Type
	var raw json.RawMessage
	if err := p.d.Decode(&raw); err != nil {
		p.jd.problem("malformed", "value of %s: %v", sn.Name, err)
		return nil, false
	}
	txt := strings.TrimSpace(string(raw))
	bad := func(class string) (*string, bool) {
		p.jd.problem("type/"+t.Base+"/"+class, "leaf %s: JSON value %s", sn.Name, head(txt, 60))
		return nil, true
	}
	if t.Base == "empty" {
		if compact(txt) != "[null]" {
			return bad("not-[null]")
		}
		e := ""
		return &e, true
	}
	var asString *string
	if strings.HasPrefix(txt, "\"") {
		var s string
		if err := json.Unmarshal(raw, &s); err != nil {
			return bad("bad-string")
		}
		asString = &s
	}
	isNumber := len(txt) > 0 && (txt[0] == '-' || (txt[0] >= '0' && txt[0] <= '9'))
	switch t.Base {
	case "string", "binary", "bits":
		if asString == nil {
			return bad("not-a-string")
		}
		if t.Base == "bits" {
			// canonical: position order
			var on []string
			set := map[string]bool{}
			for _, w := range strings.Fields(*asString) {
				set[w] = true
			}
			for _, b := range t.Bits {
				if set[b] {
					on = append(on, b)
					delete(set, b)
				}
			}
			if len(set) > 0 {
				return bad("unknown-bit")
			}
			c := strings.Join(on, " ")
			return &c, true
		}
		return asString, true
	case "identityref":
		if asString == nil {
			return bad("not-a-string")
		}
		v := *asString
		if i := strings.Index(v, ":"); i >= 0 {
			v = v[i+1:]
		}
		return &v, true
	case "enumeration":
		if p.o.EnumAsIds {
			if !isNumber {
				return bad("not-a-number")
			}
			id, err := strconv.Atoi(txt)
			if err != nil {
				return bad("bad-enum-id")
			}
			for i, e := range t.Enums {
				if enumID(t, e) == id {
					lab := t.Enums[i]
					return &lab, true
				}
			}
			return bad("unknown-enum-id")
		}
		if asString == nil {
			return bad("not-a-string")
		}
		return asString, true
	case "boolean":
		if txt != "true" && txt != "false" {
			return bad("not-a-boolean")
		}
		return &txt, true
	case "decimal64":
		num := txt
		if asString != nil {
			num = *asString
		} else if !isNumber {
			return bad("not-a-number")
		}
		f, err := strconv.ParseFloat(num, 64)
		if err != nil {
			return bad("bad-number")
		}
		c := CanonDecimal(f)
		return &c, true
	}
	// integers: number, or (64-bit) string of digits
	num := txt
	if asString != nil {
		if t.Base != "int64" && t.Base != "uint64" {
			return bad("not-a-number")
		}
		num = *asString
	} else if !isNumber {
		return bad("not-a-number")
	}
	bi, ok := new(big.Int).SetString(num, 10)
	if !ok {
		// 1e3 or 1.0 spelled integers are still that integer
		r, ok2 := new(big.Rat).SetString(num)
		if !ok2 || !r.IsInt() {
			return bad("bad-integer")
		}
		bi = r.Num()
	}
	c := bi.String()
	return &c, true
}

func compact(s string) string {
	var b bytes.Buffer
	if err := json.Compact(&b, []byte(s)); err != nil {
		return s
	}
	return b.String()
}

func head(s string, n int) string {
	if len(s) > n {
		return s[:n] + "..."
	}
	return s
}

// TokenStream returns the JSON token sequence of text (whitespace-insensitive identity of a document).
func TokenStream(text string) ([]string, error) {
	d := json.NewDecoder(strings.NewReader(text))
	d.UseNumber()
	var out []string
	for {
		tok, err := d.Token()
		if err == io.EOF {
			return out, nil
		}
		if err != nil {
			return out, err
		}
		out = append(out, fmt.Sprintf("%T:%v", tok, tok))
	}
}
