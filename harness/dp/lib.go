package dp

import (
	"fmt"
	"net/url"
	"strings"

	"github.com/freeconf/yang/node"
)

// Capture is a fresh reference store used as the target of an export, with per-node write logs so that
// "exactly once" and "in schema order" can be checked (a plain store would absorb duplicates).
type Capture struct {
	*Store
}

func NewCapture(s *Schema) *Capture {
	st := NewStore(s, nil)
	st.logWrites = true
	return &Capture{st}
}

// OrderProblems reports leaves written twice and writes out of schema order, per node.
func (c *Capture) OrderProblems() []string {
	var out []string
	for d, names := range c.writeLog {
		kids := d.schemaKids(c.S)
		idx := map[string]int{}
		for i, k := range kids {
			idx[k.Name] = i
		}
		seen := map[string]bool{}
		last := -1
		for _, n := range names {
			if seen[n] {
				out = append(out, fmt.Sprintf("twice: %s reported twice in %s", n, nodeName(d.S)))
			}
			seen[n] = true
			if idx[n] < last {
				out = append(out, fmt.Sprintf("order: %s reported after a later schema sibling in %s", n, nodeName(d.S)))
			}
			if idx[n] > last {
				last = idx[n]
			}
		}
	}
	return out
}

// PathString renders a model path in RESTCONF form with percent-encoded keys.
func PathString(p DPath) string {
	var parts []string
	for _, s := range p {
		if s.Key == nil {
			parts = append(parts, s.Name)
			continue
		}
		ks := make([]string, len(s.Key))
		for i, k := range s.Key {
			ks[i] = url.QueryEscape(k)
		}
		parts = append(parts, s.Name+"="+strings.Join(ks, ","))
	}
	return strings.Join(parts, "/")
}

// FindSel navigates from the root selection of b to the model path.
func FindSel(b *node.Browser, p DPath) (*node.Selection, error) {
	root := b.Root()
	if len(p) == 0 {
		return root, nil
	}
	return root.Find(PathString(p))
}

// ErrClass classifies an error returned by an edit call against the fc sentinel errors.
func ErrClass(err error, is func(error, error) bool, conflict, notFound error) OpErr {
	switch {
	case err == nil:
		return OK
	case is(err, conflict):
		return ErrConflict
	case is(err, notFound):
		return ErrNotFound
	}
	return -1
}
