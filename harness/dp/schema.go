// Package dp is the data-plane toolkit shared by the data tree properties: a schema model rendered to
// YANG text (inline spelling), a plain data-tree model with executable reference operations, a
// harness-owned node.Node over that model (the reference store / capturing node), recording and
// fault-injecting wrappers, and reference JSON/XML codecs built on the standard library.
package dp

import (
	"fmt"
	"io"
	"math/rand"
	"sort"
	"strings"

	"github.com/freeconf/yang/meta"
	"github.com/freeconf/yang/parser"
	"github.com/freeconf/yang/source"
)

type Kind int

const (
	Container Kind = iota
	List
	Leaf
	LeafList
	Choice
	Case
)

func (k Kind) String() string {
	return [...]string{"container", "list", "leaf", "leaf-list", "choice", "case"}[k]
}

// SType is the semantic type of a leaf as far as data generation needs it.
type SType struct {
	Base   string // int8..uint64, decimal64, string, boolean, enumeration, bits, identityref, binary, empty
	FD     int    // fraction-digits
	Enums  []string
	EnumID []int
	Bits   []string
	Idents []string // identities derived from identity "base-id"
	// restrictions (text as written in YANG), used by C05
	Range   string
	Length  string
	Pattern []string
	// how the type is written in YANG (the values are those of Base either way):
	// "" inline, "typedef" through a module-level typedef, "union" as first member of a union, "leafref" as a leafref to a sibling leaf
	Wrap       string
	WrapID     int
	WrapTarget string
}

type SNode struct {
	Kind    Kind
	Name    string
	Config  bool  // effective
	CfgStmt *bool // stated
	Keys    []string
	Type    *SType
	Default *string
	// DefaultText, when set, is how the default is spelled in the YANG text (a non-canonical spelling of Default)
	DefaultText *string
	Children    []*SNode
	Parent      *SNode
	When        string
	Presence    bool
	Module      string // "" main module; otherwise name of the augmenting module that contributes the node
	Ordered     bool   // ordered-by user
	Short       bool   // case written in shorthand form (the case statement is implicit)
	Meta        meta.Definition
}

type Schema struct {
	Name   string
	Prefix string
	NS     string
	Top    []*SNode
	// augmenting module (optional): nodes with Module != "" are emitted there as augments
	AugName string
	// AugSub: the augment statements of the augmenting module are written in a submodule of it ("augs")
	AugSub bool
	// submodule (optional): the top-level nodes named in SubNodes are written in submodule SubName, which the main module includes;
	// in data they are the main module's like any other
	SubName  string
	SubNodes map[string]bool
	Mod      *meta.Module
	Extra    string // extra module-level text (features, identities...)
}

// DataParent returns the nearest ancestor that holds data (container or list), skipping choice/case.
func (n *SNode) DataParent() *SNode {
	p := n.Parent
	for p != nil && (p.Kind == Choice || p.Kind == Case) {
		p = p.Parent
	}
	return p
}

// DataChildren returns the data nodes (container, list, leaf, leaf-list) reachable without crossing
// another data node, in schema order, flattening choices and cases.
func (n *SNode) DataChildren() []*SNode {
	return flatten(n.Children)
}

func flatten(cs []*SNode) []*SNode {
	var out []*SNode
	for _, c := range cs {
		if c.Kind == Choice || c.Kind == Case {
			out = append(out, flatten(c.Children)...)
		} else {
			out = append(out, c)
		}
	}
	return out
}

func (s *Schema) TopData() []*SNode { return flatten(s.Top) }

func (n *SNode) Child(name string) *SNode {
	for _, c := range n.DataChildren() {
		if c.Name == name {
			return c
		}
	}
	return nil
}

func (s *Schema) TopChild(name string) *SNode {
	for _, c := range s.TopData() {
		if c.Name == name {
			return c
		}
	}
	return nil
}

// CaseChain returns the (choice, case) pairs between n and its data parent, outermost first.
func (n *SNode) CaseChain() [][2]*SNode {
	var chain [][2]*SNode
	p := n.Parent
	for p != nil && (p.Kind == Choice || p.Kind == Case) {
		if p.Kind == Case {
			chain = append([][2]*SNode{{p.Parent, p}}, chain...)
		}
		p = p.Parent
	}
	return chain
}

// Path returns the data path names from the top.
func (n *SNode) Path() []string {
	var p []string
	for x := n; x != nil; x = x.DataParent() {
		p = append([]string{x.Name}, p...)
	}
	return p
}

func (n *SNode) IsKey() bool {
	p := n.DataParent()
	if p == nil || p.Kind != List {
		return false
	}
	for _, k := range p.Keys {
		if k == n.Name {
			return true
		}
	}
	return false
}

func (s *Schema) link() {
	var rec func(n *SNode, parent *SNode, cfg bool)
	rec = func(n *SNode, parent *SNode, cfg bool) {
		n.Parent = parent
		if n.CfgStmt != nil {
			cfg = *n.CfgStmt
		}
		n.Config = cfg
		for _, c := range n.Children {
			rec(c, n, cfg)
		}
	}
	for _, t := range s.Top {
		rec(t, nil, true)
	}
}

func yq(s string) string {
	// YANG double-quoted string with the escapes the library cannot decode avoided: the generator
	// only emits texts free of backslash and double quote here (C06 covers quoting separately).
	return "\"" + s + "\""
}

// identBase is how identityref leaves name their base: prefixed when the schema is spelled through an
// imported grouping (the library resolves identity names in the using module; C02 covers that defect).
var identBasePrefix = ""

// typedefPrefix is how leaves rendered in the augmenting module name typedefs of the main module
var typedefPrefix = ""

func (t *SType) yang(ind string) string {
	switch t.Wrap {
	case "typedef":
		return fmt.Sprintf("type %std%d;", typedefPrefix, t.WrapID)
	case "union":
		other := "boolean"
		if t.Base == "boolean" {
			other = "int8"
		}
		if t.WrapID%2 == 1 {
			// the same members, the first of them inside a union of its own
			return "type union {\n" + ind + "  type union {\n" + ind + "    " + t.inline(ind+"    ") + "\n" + ind + "  }\n" + ind + "  type " + other + ";\n" + ind + "}"
		}
		return "type union {\n" + ind + "  " + t.inline(ind+"  ") + "\n" + ind + "  type " + other + ";\n" + ind + "}"
	case "leafref":
		return "type leafref { path \"../" + t.WrapTarget + "\"; }"
	}
	return t.inline(ind)
}

func (t *SType) inline(ind string) string {
	var b strings.Builder
	switch t.Base {
	case "enumeration":
		b.WriteString("type enumeration {\n")
		for i, e := range t.Enums {
			if t.EnumID != nil {
				fmt.Fprintf(&b, "%s  enum %s { value %d; }\n", ind, yqEnum(e), t.EnumID[i])
			} else {
				fmt.Fprintf(&b, "%s  enum %s;\n", ind, yqEnum(e))
			}
		}
		b.WriteString(ind + "}")
	case "bits":
		b.WriteString("type bits {\n")
		for i, e := range t.Bits {
			fmt.Fprintf(&b, "%s  bit %s { position %d; }\n", ind, e, i)
		}
		b.WriteString(ind + "}")
	case "identityref":
		b.WriteString("type identityref { base " + identBasePrefix + "base-id; }")
	case "decimal64":
		fmt.Fprintf(&b, "type decimal64 { fraction-digits %d;", t.FD)
		if t.Range != "" {
			fmt.Fprintf(&b, " range %s;", yq(t.Range))
		}
		b.WriteString(" }")
	default:
		if t.Range == "" && t.Length == "" && len(t.Pattern) == 0 {
			fmt.Fprintf(&b, "type %s;", t.Base)
		} else {
			fmt.Fprintf(&b, "type %s {", t.Base)
			if t.Range != "" {
				fmt.Fprintf(&b, " range %s;", yq(t.Range))
			}
			if t.Length != "" {
				fmt.Fprintf(&b, " length %s;", yq(t.Length))
			}
			for _, p := range t.Pattern {
				fmt.Fprintf(&b, " pattern '%s';", p)
			}
			b.WriteString(" }")
		}
	}
	return b.String()
}

func (n *SNode) yang(b *strings.Builder, ind string, mod string) {
	if n.Module != mod {
		return
	}
	n.yangBody(b, ind, mod)
}

func (n *SNode) yangBody(b *strings.Builder, ind string, mod string) {
	if n.Kind == Case && n.Short {
		n.Children[0].yangBody(b, ind, mod)
		return
	}
	fmt.Fprintf(b, "%s%s %s {\n", ind, n.Kind, n.Name)
	in := ind + "  "
	if n.When != "" {
		fmt.Fprintf(b, "%swhen %s;\n", in, yq(n.When))
	}
	if n.Kind == List && len(n.Keys) > 0 {
		fmt.Fprintf(b, "%skey %s;\n", in, yq(strings.Join(n.Keys, " ")))
	}
	if n.CfgStmt != nil {
		fmt.Fprintf(b, "%sconfig %v;\n", in, *n.CfgStmt)
	}
	if n.Presence {
		fmt.Fprintf(b, "%spresence \"p\";\n", in)
	}
	if n.Ordered {
		fmt.Fprintf(b, "%sordered-by user;\n", in)
	}
	if n.Type != nil {
		fmt.Fprintf(b, "%s%s\n", in, n.Type.yang(in))
	}
	if n.DefaultText != nil {
		fmt.Fprintf(b, "%sdefault %s;\n", in, yq(*n.DefaultText))
	} else if n.Default != nil {
		fmt.Fprintf(b, "%sdefault %s;\n", in, yq(*n.Default))
	}
	for _, c := range n.Children {
		if c.Module == mod {
			c.yangBody(b, in, mod)
		}
	}
	fmt.Fprintf(b, "%s}\n", ind)
}

func (s *Schema) needsIdent() bool {
	need := false
	s.Walk(func(n *SNode) {
		if n.Type != nil && n.Type.Base == "identityref" {
			need = true
		}
	})
	return need
}

// Walk visits every schema node depth-first in schema order.
func (s *Schema) Walk(f func(n *SNode)) {
	var rec func(n *SNode)
	rec = func(n *SNode) {
		f(n)
		for _, c := range n.Children {
			rec(c)
		}
	}
	for _, t := range s.Top {
		rec(t)
	}
}

// Yang renders the main module.
func (s *Schema) Yang() string {
	s.link()
	identBasePrefix = ""
	if s.AugName != "" {
		identBasePrefix = s.Prefix + ":"
	}
	defer func() { identBasePrefix = "" }()
	var b strings.Builder
	fmt.Fprintf(&b, "module %s {\n  namespace %s;\n  prefix %s;\n", s.Name, yq(s.NS), s.Prefix)
	if s.SubName != "" {
		fmt.Fprintf(&b, "  include %s;\n", s.SubName)
	}
	b.WriteString("  revision 2020-01-01;\n")
	if s.needsIdent() {
		b.WriteString("  identity base-id;\n")
		ids := map[string]bool{}
		s.Walk(func(n *SNode) {
			if n.Type != nil && n.Type.Base == "identityref" {
				for _, id := range n.Type.Idents {
					ids[id] = true
				}
			}
		})
		var names []string
		for id := range ids {
			names = append(names, id)
		}
		sort.Strings(names)
		for _, id := range names {
			fmt.Fprintf(&b, "  identity %s { base base-id; }\n", id)
		}
	}
	if s.Extra != "" {
		b.WriteString(s.Extra)
	}
	s.Walk(func(n *SNode) {
		if n.Type != nil && n.Type.Wrap == "typedef" {
			fmt.Fprintf(&b, "  typedef td%d {\n    %s\n  }\n", n.Type.WrapID, n.Type.inline("    "))
		}
	})
	if s.AugName != "" {
		// freeconf's cross-module pattern: the main module offers a grouping, the augmenting module
		// uses it and augments its own tree (see nodeutil/testdata/example-barmod.yang)
		b.WriteString("  grouping g {\n")
		for _, t := range s.Top {
			if s.SubName != "" && s.SubNodes[t.Name] {
				continue
			}
			t.yang(&b, "    ", "")
		}
		if s.SubName != "" {
			// the rest of the grouping is written in the submodule
			b.WriteString("    uses gs;\n")
		}
		b.WriteString("  }\n")
	} else {
		for _, t := range s.Top {
			if s.SubName != "" && s.SubNodes[t.Name] {
				continue
			}
			t.yang(&b, "  ", "")
		}
	}
	b.WriteString("}\n")
	return b.String()
}

// SubYang renders the submodule, or "" when the schema has none.
func (s *Schema) SubYang() string {
	if s.SubName == "" {
		return ""
	}
	s.link()
	var b strings.Builder
	fmt.Fprintf(&b, "submodule %s {\n  belongs-to %s { prefix %s; }\n", s.SubName, s.Name, s.Prefix)
	ind := "  "
	if s.AugName != "" {
		b.WriteString("  grouping gs {\n")
		ind = "    "
	}
	for _, t := range s.Top {
		if s.SubNodes[t.Name] {
			t.yang(&b, ind, "")
		}
	}
	if s.AugName != "" {
		b.WriteString("  }\n")
	}
	b.WriteString("}\n")
	return b.String()
}

// AugYang renders the augmenting module, or "" when the schema has none.
func (s *Schema) AugYang() string {
	if s.AugName == "" {
		return ""
	}
	s.link()
	identBasePrefix = s.Prefix + ":"
	typedefPrefix = s.Prefix + ":"
	defer func() { identBasePrefix = ""; typedefPrefix = "" }()
	var b strings.Builder
	fmt.Fprintf(&b, "module %s {\n  namespace \"urn:%s\";\n  prefix %s;\n  import %s { prefix %s; }\n", s.AugName, s.AugName, s.AugName, s.Name, s.Prefix)
	if s.AugSub {
		b.WriteString("  include augs;\n")
	}
	fmt.Fprintf(&b, "  revision 2020-01-01;\n  uses %s:g;\n", s.Prefix)
	if s.AugSub {
		b.WriteString("}\n")
		fmt.Fprintf(&b, "submodule augs {\n  belongs-to %s { prefix %s; }\n  import %s { prefix %s; }\n", s.AugName, s.AugName, s.Name, s.Prefix)
	}
	s.Walk(func(n *SNode) {
		if n.Module == "" || (n.Parent != nil && n.Parent.Module != "") {
			return
		}
		// augment target = absolute schema path of the parent (including choice/case steps)
		var steps []string
		for p := n.Parent; p != nil; p = p.Parent {
			steps = append([]string{p.Name}, steps...)
		}
		fmt.Fprintf(&b, "  augment \"/%s\" {\n", strings.Join(steps, "/"))
		n.yangBody(&b, "    ", n.Module)
		b.WriteString("  }\n")
	})
	b.WriteString("}\n")
	return b.String()
}

// Compile loads the schema through the real parser and binds every SNode to its meta definition.
func (s *Schema) Compile() error {
	main := s.Yang()
	var m *meta.Module
	var err error
	if s.AugName == "" && s.SubName != "" {
		sub := s.SubYang()
		opener := func(name string, ext string) (io.Reader, error) {
			switch name {
			case s.Name:
				return strings.NewReader(main), nil
			case s.SubName:
				return strings.NewReader(sub), nil
			}
			return nil, nil
		}
		m, err = parser.LoadModule(source.Opener(opener), s.Name)
	} else if s.AugName == "" {
		m, err = parser.LoadModuleFromString(nil, main)
	} else {
		aug := s.AugYang()
		augSub := ""
		if i := strings.Index(aug, "submodule augs {"); s.AugSub && i > 0 {
			aug, augSub = aug[:i], aug[i:]
		}
		opener := func(name string, ext string) (io.Reader, error) {
			switch name {
			case s.Name:
				return strings.NewReader(main), nil
			case s.AugName:
				return strings.NewReader(aug), nil
			case "augs":
				if augSub != "" {
					return strings.NewReader(augSub), nil
				}
			case s.SubName:
				if s.SubName != "" {
					return strings.NewReader(s.SubYang()), nil
				}
			}
			return nil, nil
		}
		// the augmenting module uses the main module's grouping and augments its own tree
		m, err = parser.LoadModule(source.Opener(opener), s.AugName)
	}
	if err != nil {
		return fmt.Errorf("schema does not compile: %w\n%s%s%s", err, main, s.AugYang(), s.SubYang())
	}
	s.Mod = m
	if s.SubName != "" {
		// where the nodes of a submodule stand among the module's own is the compiler's choice: follow it
		pos := map[string]int{}
		for i, d := range m.DataDefinitions() {
			pos[d.Ident()] = i
		}
		sort.SliceStable(s.Top, func(i, j int) bool { return pos[s.Top[i].Name] < pos[s.Top[j].Name] })
	}
	return s.bind()
}

// BindTo binds a hand-built schema description to an already compiled module.
func (s *Schema) BindTo(m *meta.Module) error {
	s.link()
	s.Mod = m
	return s.bind()
}

func (s *Schema) bind() error {
	var rec func(n *SNode, parent meta.HasDataDefinitions) error
	rec = func(n *SNode, parent meta.HasDataDefinitions) error {
		var found meta.Definition
		for _, d := range parent.DataDefinitions() {
			if d.Ident() == n.Name {
				found = d
			}
		}
		if found == nil {
			return fmt.Errorf("schema node %s not found in compiled module under %v", n.Name, parent)
		}
		n.Meta = found
		if n.Kind == Choice {
			ch := found.(*meta.Choice)
			for _, c := range n.Children {
				kase := ch.Cases()[c.Name]
				if kase == nil {
					return fmt.Errorf("case %s not found", c.Name)
				}
				c.Meta = kase
				for _, cc := range c.Children {
					if err := rec(cc, kase); err != nil {
						return err
					}
				}
			}
			return nil
		}
		if hd, ok := found.(meta.HasDataDefinitions); ok {
			for _, c := range n.Children {
				if err := rec(c, hd); err != nil {
					return err
				}
			}
		}
		return nil
	}
	for _, t := range s.Top {
		if err := rec(t, s.Mod); err != nil {
			return err
		}
	}
	return nil
}

// ---------------------------------------------------------------------------------------------
// schema generator

type GenOpts struct {
	MaxDepth         int
	MaxChildren      int
	Choices          bool
	NestedChoice     bool
	Lists            bool
	CompoundKeys     bool
	LeafLists        bool
	Defaults         bool
	NonConfig        bool
	Types            []string // allowed leaf base types
	KeyTypes         []string
	Aug              bool   // contribute some nodes from an augmenting module
	Sub              bool   // write some top-level nodes in a submodule (not together with Aug)
	AugSub           bool   // with Aug: the augments are written in a submodule of the augmenting module
	Prefix           string // prefix of the main module ("" = its name, m)
	ModName          string // name of the main module ("" = m)
	ListsOfAll       bool   // leaf-lists of bits and binary too (a leaf-list of empty is not legal)
	UnionWrapStrings bool   // half of the string leaves are written as the first member of a (possibly nested) union
	HostileEnumNames bool   // some enumerations have names holding / , + % = and a space
	NumericEnumNames bool   // some enumerations name their values "10", "100" ...
	Presence         bool
	Wraps            bool // write some leaf types through a typedef, as a union member or as a leafref to a sibling
	NoUnionWrap      bool // ... but not as a union member (stores whose leaves have one Go type)
}

var AllTypes = []string{"int8", "int16", "int32", "int64", "uint8", "uint16", "uint32", "uint64", "decimal64", "string", "boolean", "enumeration", "bits", "identityref", "binary", "empty"}
var PlainKeyTypes = []string{"string", "int32", "int64", "uint8", "uint32", "enumeration", "boolean", "int8", "uint16", "uint64", "int16"}

func DefaultGen() GenOpts {
	return GenOpts{MaxDepth: 3, MaxChildren: 5, Choices: false, Lists: true, CompoundKeys: true, LeafLists: true, Defaults: true,
		Types: AllTypes, KeyTypes: PlainKeyTypes, Wraps: true}
}

type gen struct {
	r    *rand.Rand
	o    GenOpts
	used map[string]bool
	seq  int
}

var identPool = []string{"a", "b", "c", "name", "id", "key", "leafy", "list1", "type-x", "value", "config-x", "x", "y", "z", "node", "item", "data", "when-x", "k", "v", "port", "mode", "state", "u", "w"}

func (g *gen) name(scope map[string]bool) string {
	for tries := 0; tries < 50; tries++ {
		n := identPool[g.r.Intn(len(identPool))]
		if g.r.Intn(3) == 0 {
			n = fmt.Sprintf("%s%d", n, g.r.Intn(9))
		}
		if !scope[n] {
			scope[n] = true
			return n
		}
	}
	g.seq++
	n := fmt.Sprintf("n%d", g.seq)
	scope[n] = true
	return n
}

func (g *gen) leafListTypes() []string {
	if g.o.ListsOfAll {
		return without(g.o.Types, "empty")
	}
	return without(g.o.Types, "empty", "binary", "bits")
}

func (g *gen) typ(allowed []string) *SType {
	base := allowed[g.r.Intn(len(allowed))]
	t := &SType{Base: base}
	switch base {
	case "decimal64":
		t.FD = 1 + g.r.Intn(6)
		if g.r.Intn(4) == 0 {
			t.FD = 7 + g.r.Intn(6) // more fraction digits than a %f rendering keeps
		}
	case "enumeration":
		t.Enums = []string{"zero", "one", "two", "three"}[:2+g.r.Intn(3)]
		if g.r.Intn(3) == 0 {
			t.EnumID = []int{5, 10, 20, 40}[:len(t.Enums)]
		}
		if g.o.NumericEnumNames && g.r.Intn(3) == 0 {
			// names that read like numbers, and like the values of other names
			t.Enums = []string{"10", "100", "fast", "2"}[:2+g.r.Intn(3)]
			t.EnumID = []int{1, 2, 10, 100}[:len(t.Enums)]
		}
		if g.o.HostileEnumNames && g.r.Intn(2) == 0 {
			// an enum name is any YANG string: names holding the characters a path gives a meaning to
			t.Enums = []string{"10/100", "1000,full", "auto+fallback", "100%", "a=b c"}[:2+g.r.Intn(4)]
			t.EnumID = nil
		}
	case "bits":
		t.Bits = []string{"b0", "b1", "b2", "b3"}[:2+g.r.Intn(3)]
	case "identityref":
		t.Idents = []string{"id-a", "id-b", "id-c"}
	}
	return t
}

func (g *gen) leaf(scope map[string]bool, allowed []string) *SNode {
	n := &SNode{Kind: Leaf, Name: g.name(scope), Type: g.typ(allowed)}
	if g.o.Defaults && g.r.Intn(4) == 0 && n.Type.Base != "empty" && n.Type.Base != "binary" {
		d := RandScalar(g.r, n.Type, false)
		if !strings.ContainsAny(d, "\"\\\n\t") {
			n.Default = &d
			// the same value spelled differently: trailing zeros of a decimal, the module prefix of an identity
			if g.r.Intn(2) == 0 {
				switch n.Type.Base {
				case "decimal64":
					t := d + "0"
					if !strings.Contains(d, ".") {
						t = d + ".0"
					}
					if len(t)-strings.Index(t, ".")-1 <= n.Type.FD {
						n.DefaultText = &t
					}
				case "identityref":
					pfx := g.o.Prefix
					if pfx == "" {
						pfx = "m"
					}
					t := pfx + ":" + d
					n.DefaultText = &t
				}
			}
		}
	}
	return n
}

func (g *gen) children(depth int, scope map[string]bool, inList bool) []*SNode {
	n := 1 + g.r.Intn(g.o.MaxChildren)
	var out []*SNode
	for i := 0; i < n; i++ {
		k := g.r.Intn(10)
		switch {
		case k < 4 || depth >= g.o.MaxDepth:
			if g.o.LeafLists && g.r.Intn(5) == 0 {
				ll := &SNode{Kind: LeafList, Name: g.name(scope), Type: g.typ(g.leafListTypes())}
				out = append(out, ll)
			} else {
				out = append(out, g.leaf(scope, g.o.Types))
			}
		case k < 6:
			c := &SNode{Kind: Container, Name: g.name(scope)}
			c.Children = g.children(depth+1, map[string]bool{}, false)
			if g.o.Presence && g.r.Intn(4) == 0 {
				c.Presence = true
			}
			out = append(out, c)
		case k < 8 && g.o.Lists:
			out = append(out, g.list(depth, scope))
		case g.o.Choices:
			out = append(out, g.choice(depth, scope, 0))
		default:
			out = append(out, g.leaf(scope, g.o.Types))
		}
	}
	if g.o.Wraps {
		g.wrap(out)
	}
	if g.o.NonConfig {
		for _, c := range out {
			if g.r.Intn(4) == 0 && !(c.Kind == Leaf && false) {
				f := false
				c.CfgStmt = &f
			}
		}
	}
	return out
}

// wrap rewrites how the types of some direct leaf children are spelled (the value space stays the same)
func (g *gen) wrap(kids []*SNode) {
	var leaves []*SNode
	for _, c := range kids {
		if (c.Kind == Leaf || c.Kind == LeafList) && c.Type != nil {
			leaves = append(leaves, c)
		}
	}
	isTarget := map[*SNode]bool{} // a leaf other leafrefs point at keeps its own type
	for _, c := range leaves {
		if c.Type.Wrap != "" || c.Type.Base == "empty" {
			continue
		}
		k := g.r.Intn(8)
		if g.o.UnionWrapStrings && c.Type.Base == "string" && g.r.Intn(2) == 0 {
			k = 1
		}
		if k == 2 && isTarget[c] {
			continue
		}
		switch k {
		case 0:
			g.seq++
			c.Type.Wrap, c.Type.WrapID = "typedef", g.seq
		case 1:
			if c.Type.Base != "bits" && c.Type.Base != "binary" && !g.o.NoUnionWrap {
				g.seq++
				c.Type.Wrap, c.Type.WrapID = "union", g.seq
			}
		case 2:
			// leafref to a sibling leaf that is written plainly: this leaf takes over the sibling's type
			for _, tgt := range leaves {
				if tgt != c && tgt.Kind == Leaf && tgt.Type.Wrap == "" && tgt.Type.Base != "empty" && (c.Kind == Leaf || (tgt.Type.Base != "binary" && tgt.Type.Base != "bits")) {
					t := *tgt.Type
					t.Wrap, t.WrapTarget = "leafref", tgt.Name
					c.Type = &t
					isTarget[tgt] = true
					if c.Default != nil {
						d := RandScalar(g.r, c.Type, false)
						c.Default, c.DefaultText = nil, nil
						if !strings.ContainsAny(d, "\"\\\n\t") && c.Type.Base != "binary" {
							c.Default = &d
						}
					}
					break
				}
			}
		}
	}
}

func without(l []string, drop ...string) []string {
	var out []string
outer:
	for _, x := range l {
		for _, d := range drop {
			if x == d {
				continue outer
			}
		}
		out = append(out, x)
	}
	if len(out) == 0 {
		return []string{"string"}
	}
	return out
}

func (g *gen) list(depth int, scope map[string]bool) *SNode {
	l := &SNode{Kind: List, Name: g.name(scope)}
	inner := map[string]bool{}
	nk := 1
	if g.o.CompoundKeys && g.r.Intn(3) == 0 {
		nk = 2 + g.r.Intn(2)
	}
	for i := 0; i < nk; i++ {
		k := &SNode{Kind: Leaf, Name: g.name(inner), Type: g.typ(g.o.KeyTypes)}
		l.Keys = append(l.Keys, k.Name)
		l.Children = append(l.Children, k)
	}
	rest := g.childrenIn(depth+1, inner)
	// keys need not come first in the schema
	if g.r.Intn(4) == 0 && len(rest) > 0 {
		l.Children = append(rest[:1:1], append(l.Children, rest[1:]...)...)
	} else {
		l.Children = append(l.Children, rest...)
	}
	if g.r.Intn(5) == 0 {
		l.Ordered = true
	}
	return l
}

func (g *gen) childrenIn(depth int, scope map[string]bool) []*SNode {
	return g.children(depth, scope, true)
}

func (g *gen) choice(depth int, scope map[string]bool, nest int) *SNode {
	ch := &SNode{Kind: Choice, Name: g.name(scope)}
	nc := 2 + g.r.Intn(2)
	for i := 0; i < nc; i++ {
		cs := &SNode{Kind: Case, Name: g.name(scope)}
		nn := 1 + g.r.Intn(3)
		for j := 0; j < nn; j++ {
			k := g.r.Intn(8)
			switch {
			case k < 4:
				cs.Children = append(cs.Children, g.leaf(scope, without(g.o.Types, "empty")))
			case k < 5 && g.o.LeafLists:
				cs.Children = append(cs.Children, &SNode{Kind: LeafList, Name: g.name(scope), Type: g.typ(g.leafListTypes())})
			case k < 6 && depth < g.o.MaxDepth:
				c := &SNode{Kind: Container, Name: g.name(scope)}
				c.Children = g.children(depth+1, map[string]bool{}, false)
				cs.Children = append(cs.Children, c)
			case k < 7 && depth < g.o.MaxDepth && g.o.Lists:
				cs.Children = append(cs.Children, g.list(depth, scope))
			case g.o.NestedChoice && nest < 2:
				cs.Children = append(cs.Children, g.choice(depth, scope, nest+1))
			default:
				cs.Children = append(cs.Children, g.leaf(scope, without(g.o.Types, "empty")))
			}
		}
		if g.o.NonConfig {
			// state data inside a case of a configuration choice
			for _, k := range cs.Children {
				if k.Kind != Choice && g.r.Intn(3) == 0 {
					f := false
					k.CfgStmt = &f
				}
			}
		}
		if len(cs.Children) == 1 && cs.Children[0].Kind != Choice && g.r.Intn(3) == 0 {
			cs.Short = true
			delete(scope, cs.Name)
			cs.Name = cs.Children[0].Name
		}
		ch.Children = append(ch.Children, cs)
	}
	return ch
}

// GenSchema draws a random schema. The result is linked but not compiled.
func GenSchema(r *rand.Rand, o GenOpts) *Schema {
	g := &gen{r: r, o: o}
	s := &Schema{Name: "m", Prefix: "m", NS: "urn:m"}
	if o.Prefix != "" {
		s.Prefix = o.Prefix
	}
	if o.ModName != "" {
		s.Name = o.ModName
	}
	scope := map[string]bool{}
	s.Top = g.children(1, scope, false)
	if o.Aug {
		s.AugName = "aug"
		s.AugSub = o.AugSub
		// mark a few nodes (that are not keys and not inside marked nodes) as contributed by the augmenting module
		var cands []*SNode
		s.link()
		s.Walk(func(n *SNode) {
			if n.Parent != nil && n.Parent.Kind != Choice && n.Parent.Kind != Case && !n.IsKey() && n.Kind != Case {
				cands = append(cands, n)
			}
			// a whole case added to a choice of the main module, or members added to one of its cases (never the first: the
			// choice / case has to exist in the main module)
			if n.Parent != nil && (n.Kind == Case && n.Parent.Kind == Choice || n.Parent.Kind == Case && !n.Parent.Short) && n.Parent.Children[0] != n {
				cands = append(cands, n)
			}
		})
		for i := 0; i < 3 && len(cands) > 0; i++ {
			n := cands[r.Intn(len(cands))]
			// augment appends: only a suffix of the parent's children may move (keeps schema order)
			p := n.Parent
			idx := -1
			for j, c := range p.Children {
				if c == n {
					idx = j
				}
			}
			ok := true
			for _, c := range p.Children[idx:] {
				if c.IsKey() {
					ok = false
				}
			}
			if !ok {
				continue
			}
			for _, c := range p.Children[idx:] {
				markModule(c, "aug")
			}
		}
		any := false
		s.Walk(func(n *SNode) {
			if n.Module != "" {
				any = true
			}
		})
		if !any {
			s.AugName = ""
		}
	}
	if o.Sub && len(s.Top) > 1 {
		// nodes that name nothing of the main module (typedefs, identities, sibling leaves) may be written in the submodule
		var stay, move []*SNode
		for _, t := range s.Top {
			free := t.Kind != Leaf && t.Kind != LeafList || t.Type.Wrap != "leafref"
			var rec func(n *SNode)
			rec = func(n *SNode) {
				if n.Type != nil && (n.Type.Wrap == "typedef" || n.Type.Base == "identityref") {
					free = false
				}
				for _, c := range n.Children {
					rec(c)
				}
			}
			rec(t)
			// a sibling some leafref points at stays with the leafref
			for _, o := range s.Top {
				if o.Type != nil && o.Type.Wrap == "leafref" && o.Type.WrapTarget == t.Name {
					free = false
				}
			}
			if t.Module != "" {
				// contributed by the augmenting module: not the main module's to write
				free = false
			}
			if free && r.Intn(2) == 0 {
				move = append(move, t)
			} else {
				stay = append(stay, t)
			}
		}
		if len(move) > 0 && len(stay) > 0 {
			s.SubName, s.SubNodes = "ms", map[string]bool{}
			for _, t := range move {
				s.SubNodes[t.Name] = true
			}
		}
	}
	s.link()
	return s
}

func markModule(n *SNode, m string) {
	n.Module = m
	for _, c := range n.Children {
		markModule(c, m)
	}
}

// yqEnum quotes an enum name that a bare spelling would turn into a number
func yqEnum(name string) string {
	if name != "" && name[0] >= '0' && name[0] <= '9' || strings.ContainsAny(name, "/,+%= ") {
		return "\"" + name + "\""
	}
	return name
}
