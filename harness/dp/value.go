package dp

import (
	"encoding/base64"
	"fmt"
	"math"
	"math/big"
	"math/rand"
	"sort"
	"strconv"
	"strings"

	"github.com/freeconf/yang/val"
)

// Scalars are carried in the model as canonical strings per YANG type:
//   intN/uintN : decimal digits         decimal64 : shortest decimal ("1.5", "-0.25", "3")
//   boolean    : true|false             string    : the text itself
//   enumeration: label                  bits      : labels in position order, space separated
//   identityref: identity name          binary    : base64 text
//   empty      : ""

var hostileStrings = []string{"", " ", "a b", "/", ",", "=", "%", "+", "a/b", "x,y", "k=v", "100%", "1+1", "\"q\"", "<t>", "&amp;", "]]>", "é", "世界", "\t", "a\nb", " lead", "trail ", "'", "\\", " ", "\U0001F600", "null", "true", "0", "-1", "{}", "[]", "a:b", "../x", "?", "#", ";"}
var plainStrings = []string{"a", "b", "c", "alpha", "beta", "x1", "y2", "hello", "w", "zz", "k9", "A", "Zed", "m-n", "o_p", "q.r"}

func intBounds(base string) (lo, hi *big.Int) {
	switch base {
	case "int8":
		return big.NewInt(math.MinInt8), big.NewInt(math.MaxInt8)
	case "int16":
		return big.NewInt(math.MinInt16), big.NewInt(math.MaxInt16)
	case "int32":
		return big.NewInt(math.MinInt32), big.NewInt(math.MaxInt32)
	case "int64":
		return big.NewInt(math.MinInt64), big.NewInt(math.MaxInt64)
	case "uint8":
		return big.NewInt(0), big.NewInt(math.MaxUint8)
	case "uint16":
		return big.NewInt(0), big.NewInt(math.MaxUint16)
	case "uint32":
		return big.NewInt(0), big.NewInt(math.MaxUint32)
	case "uint64":
		return big.NewInt(0), new(big.Int).SetUint64(math.MaxUint64)
	}
	return nil, nil
}

// IntBounds exposes the bounds of the integer types.
func IntBounds(base string) (lo, hi *big.Int) { return intBounds(base) }

func IsIntType(base string) bool { lo, _ := intBounds(base); return lo != nil }

// HostileStrings is the unfriendly string alphabet (reserved characters of paths, JSON and XML).
func HostileStrings() []string { return append([]string{}, hostileStrings...) }

// RandScalar draws a value of type t in canonical form. hostile selects the unfriendly alphabet.
func RandScalar(r *rand.Rand, t *SType, hostile bool) string {
	switch t.Base {
	case "string":
		if hostile {
			return hostileStrings[r.Intn(len(hostileStrings))]
		}
		if r.Intn(6) == 0 {
			return plainStrings[r.Intn(len(plainStrings))] + strconv.Itoa(r.Intn(100))
		}
		return plainStrings[r.Intn(len(plainStrings))]
	case "boolean":
		if r.Intn(2) == 0 {
			return "true"
		}
		return "false"
	case "enumeration":
		return t.Enums[r.Intn(len(t.Enums))]
	case "bits":
		var on []string
		for _, b := range t.Bits {
			if r.Intn(2) == 0 {
				on = append(on, b)
			}
		}
		if len(on) == 0 {
			on = []string{t.Bits[0]}
		}
		return strings.Join(on, " ")
	case "identityref":
		return t.Idents[r.Intn(len(t.Idents))]
	case "binary":
		n := r.Intn(5)
		b := make([]byte, n)
		r.Read(b)
		return base64.StdEncoding.EncodeToString(b)
	case "empty":
		return ""
	case "decimal64":
		// at most FD fraction digits, magnitude kept inside float64's exact integer range
		scale := int64(math.Pow10(t.FD))
		var unscaled int64
		switch r.Intn(6) {
		case 0:
			unscaled = 0
		case 1:
			unscaled = r.Int63n(1000) - 500
		case 2:
			unscaled = (r.Int63n(2000000) - 1000000)
		default:
			unscaled = r.Int63n(2000) - 1000
		}
		return fmtDecimal(unscaled, scale)
	}
	lo, hi := intBounds(t.Base)
	if lo == nil {
		panic("unknown type " + t.Base)
	}
	switch r.Intn(8) {
	case 0:
		return lo.String()
	case 1:
		return hi.String()
	case 2:
		return "0"
	case 3:
		return "1"
	case 4:
		// mid-range, possibly beyond 2^53 for 64-bit types
		span := new(big.Int).Sub(hi, lo)
		v := new(big.Int).Rand(r, span)
		return v.Add(v, lo).String()
	case 5:
		// 64-bit types: the first integers a float64 cannot hold, with 16 and 17 digits
		if t.Base == "int64" || t.Base == "uint64" {
			return []string{"9007199254740993", "9007199254740995", "9999999999999999", "10000000000000001", "72057594037927937"}[r.Intn(5)]
		}
		fallthrough
	default:
		v := int64(r.Intn(200))
		if lo.Sign() < 0 && r.Intn(2) == 0 {
			v = -v
		}
		bv := big.NewInt(v)
		if bv.Cmp(lo) < 0 || bv.Cmp(hi) > 0 {
			return "1"
		}
		return bv.String()
	}
}

func fmtDecimal(unscaled, scale int64) string {
	f := new(big.Rat).SetFrac(big.NewInt(unscaled), big.NewInt(scale))
	fl, _ := f.Float64()
	return CanonDecimal(fl)
}

// CanonDecimal is the canonical model form of a decimal64 held as float64.
func CanonDecimal(f float64) string {
	if f == 0 {
		return "0"
	}
	return strconv.FormatFloat(f, 'f', -1, 64)
}

// LVal is the value of a leaf (one element) or a leaf-list.
type LVal struct {
	List bool
	V    []string
}

func (l *LVal) Clone() *LVal {
	return &LVal{List: l.List, V: append([]string(nil), l.V...)}
}

func (l *LVal) Equal(o *LVal) bool {
	if l == nil || o == nil {
		return l == o
	}
	if l.List != o.List || len(l.V) != len(o.V) {
		return false
	}
	for i := range l.V {
		if l.V[i] != o.V[i] {
			return false
		}
	}
	return true
}

func (l *LVal) String() string {
	if l == nil {
		return "<unset>"
	}
	if l.List {
		return fmt.Sprintf("%q", l.V)
	}
	return fmt.Sprintf("%q", l.V[0])
}

func enumID(t *SType, label string) int {
	for i, e := range t.Enums {
		if e == label {
			if t.EnumID != nil {
				return t.EnumID[i]
			}
			return i
		}
	}
	return -1
}

// ToVal builds the library value for a model value without going through the library's converters.
func ToVal(t *SType, l *LVal) val.Value {
	if l == nil {
		return nil
	}
	one := func(s string) val.Value {
		switch t.Base {
		case "string":
			return val.String(s)
		case "boolean":
			return val.Bool(s == "true")
		case "enumeration":
			return val.Enum{Id: enumID(t, s), Label: s}
		case "bits":
			b := val.Bits{}
			if s != "" {
				for _, lab := range strings.Split(s, " ") {
					for i, name := range t.Bits {
						if name == lab {
							b.Positions |= 1 << uint(i)
							b.Labels = append(b.Labels, lab)
						}
					}
				}
			}
			return b
		case "identityref":
			return val.IdentRef{Label: s}
		case "binary":
			return val.Binary([]byte(s))
		case "empty":
			return val.NotEmpty
		case "decimal64":
			f, _ := strconv.ParseFloat(s, 64)
			return val.Decimal64(f)
		case "int8":
			n, _ := strconv.ParseInt(s, 10, 8)
			return val.Int8(n)
		case "int16":
			n, _ := strconv.ParseInt(s, 10, 16)
			return val.Int16(n)
		case "int32":
			n, _ := strconv.ParseInt(s, 10, 32)
			return val.Int32(n)
		case "int64":
			n, _ := strconv.ParseInt(s, 10, 64)
			return val.Int64(n)
		case "uint8":
			n, _ := strconv.ParseUint(s, 10, 8)
			return val.UInt8(n)
		case "uint16":
			n, _ := strconv.ParseUint(s, 10, 16)
			return val.UInt16(n)
		case "uint32":
			n, _ := strconv.ParseUint(s, 10, 32)
			return val.UInt32(n)
		case "uint64":
			n, _ := strconv.ParseUint(s, 10, 64)
			return val.UInt64(n)
		}
		panic("ToVal: unknown type " + t.Base)
	}
	if !l.List {
		return one(l.V[0])
	}
	switch t.Base {
	case "string":
		return val.StringList(append([]string{}, l.V...))
	case "boolean":
		out := make([]bool, len(l.V))
		for i, s := range l.V {
			out[i] = s == "true"
		}
		return val.BoolList(out)
	case "enumeration":
		out := make([]val.Enum, len(l.V))
		for i, s := range l.V {
			out[i] = one(s).(val.Enum)
		}
		return val.EnumList(out)
	case "identityref":
		out := make([]val.IdentRef, len(l.V))
		for i, s := range l.V {
			out[i] = val.IdentRef{Label: s}
		}
		return val.IdentRefList(out)
	case "bits":
		out := make([]val.Bits, len(l.V))
		for i, s := range l.V {
			out[i] = one(s).(val.Bits)
		}
		return val.BitsList(out)
	case "decimal64":
		out := make([]float64, len(l.V))
		for i, s := range l.V {
			out[i], _ = strconv.ParseFloat(s, 64)
		}
		return val.Decimal64List(out)
	case "int8":
		out := make([]int8, len(l.V))
		for i, s := range l.V {
			n, _ := strconv.ParseInt(s, 10, 8)
			out[i] = int8(n)
		}
		return val.Int8List(out)
	case "int16":
		out := make([]int16, len(l.V))
		for i, s := range l.V {
			n, _ := strconv.ParseInt(s, 10, 16)
			out[i] = int16(n)
		}
		return val.Int16List(out)
	case "int32":
		out := make([]int32, len(l.V))
		for i, s := range l.V {
			n, _ := strconv.ParseInt(s, 10, 32)
			out[i] = int32(n)
		}
		return val.Int32List(out)
	case "int64":
		out := make([]int64, len(l.V))
		for i, s := range l.V {
			out[i], _ = strconv.ParseInt(s, 10, 64)
		}
		return val.Int64List(out)
	case "uint8":
		out := make([]uint8, len(l.V))
		for i, s := range l.V {
			n, _ := strconv.ParseUint(s, 10, 8)
			out[i] = uint8(n)
		}
		return val.UInt8List(out)
	case "uint16":
		out := make([]uint16, len(l.V))
		for i, s := range l.V {
			n, _ := strconv.ParseUint(s, 10, 16)
			out[i] = uint16(n)
		}
		return val.UInt16List(out)
	case "uint32":
		out := make([]uint32, len(l.V))
		for i, s := range l.V {
			n, _ := strconv.ParseUint(s, 10, 32)
			out[i] = uint32(n)
		}
		return val.UInt32List(out)
	case "uint64":
		out := make([]uint64, len(l.V))
		for i, s := range l.V {
			out[i], _ = strconv.ParseUint(s, 10, 64)
		}
		return val.UInt64List(out)
	case "binary":
		// the library keeps a list of binaries as the base64 text of every item
		return val.StringList(append([]string{}, l.V...))
	}
	panic("ToVal: unknown list type " + t.Base)
}

// FromVal turns a library value back into model form, looking only at the concrete Go value.
// It returns an error text when the value does not have the shape the type requires.
func FromVal(t *SType, wantList bool, v val.Value) (*LVal, string) {
	if v == nil {
		return nil, ""
	}
	one := func(x interface{}) (string, bool) {
		switch y := x.(type) {
		case string:
			return y, true
		case bool:
			return strconv.FormatBool(y), true
		case int8:
			return strconv.FormatInt(int64(y), 10), true
		case int16:
			return strconv.FormatInt(int64(y), 10), true
		case int32:
			return strconv.FormatInt(int64(y), 10), true
		case int:
			return strconv.FormatInt(int64(y), 10), true
		case int64:
			return strconv.FormatInt(y, 10), true
		case uint8:
			return strconv.FormatUint(uint64(y), 10), true
		case uint16:
			return strconv.FormatUint(uint64(y), 10), true
		case uint32:
			return strconv.FormatUint(uint64(y), 10), true
		case uint:
			return strconv.FormatUint(uint64(y), 10), true
		case uint64:
			return strconv.FormatUint(y, 10), true
		case float64:
			return CanonDecimal(y), true
		case val.Enum:
			return y.Label, true
		case val.IdentRef:
			return y.Label, true
		case val.Bits:
			return bitsCanon(t, y), true
		}
		return "", false
	}
	switch x := v.(type) {
	case val.Binary:
		return &LVal{V: []string{string([]byte(x))}}, ""
	case val.NotEmptyType:
		return &LVal{V: []string{""}}, ""
	case val.Bits:
		return &LVal{V: []string{bitsCanon(t, x)}}, ""
	case val.BitsList:
		out := &LVal{List: true}
		for _, b := range x {
			out.V = append(out.V, bitsCanon(t, b))
		}
		return out, ""
	}
	if l, ok := v.(val.Listable); ok {
		out := &LVal{List: true, V: []string{}}
		for i := 0; i < l.Len(); i++ {
			s, ok := one(l.Item(i).Value())
			if !ok {
				return nil, fmt.Sprintf("unreadable list element %T", l.Item(i).Value())
			}
			out.V = append(out.V, s)
		}
		return out, ""
	}
	s, ok := one(v.Value())
	if !ok {
		return nil, fmt.Sprintf("unreadable value %T", v.Value())
	}
	return &LVal{V: []string{s}}, ""
}

func bitsCanon(t *SType, b val.Bits) string {
	// by position, independent of label order in the value
	var on []string
	for i, name := range t.Bits {
		if b.Positions&(1<<uint(i)) != 0 {
			on = append(on, name)
		}
	}
	if t == nil || len(t.Bits) == 0 {
		on = append(on, b.Labels...)
		sort.Strings(on)
	}
	return strings.Join(on, " ")
}

// FormatOf names the library format the model type must map to.
func FormatOf(t *SType, list bool) val.Format {
	f, ok := val.TypeAsFormat(t.Base)
	if !ok {
		panic("no format for " + t.Base)
	}
	if list {
		return f.List()
	}
	return f
}

// AbsentKeyComponent proposes a key value of type t that generated trees are unlikely to hold ("" if none).
func AbsentKeyComponent(r *rand.Rand, t *SType) string {
	switch t.Base {
	case "string":
		return "zz-absent"
	case "boolean", "enumeration", "identityref", "bits", "empty", "binary":
		return ""
	case "decimal64":
		return "77.5"
	case "int8", "uint8":
		return "77"
	}
	return "7777"
}
