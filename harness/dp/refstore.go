package dp

import (
	"context"
	"fmt"

	"github.com/freeconf/yang/meta"
	"github.com/freeconf/yang/node"
	"github.com/freeconf/yang/val"
)

// Store is the harness-owned reference store: a node.Node over a model tree with no cleverness.
// It is used as reference target/source and as capturing node for exports.
type Store struct {
	S    *Schema
	Root *DNode
	// Problems collects protocol violations seen by the store itself (values of the wrong shape,
	// requests for nodes the schema does not define here, ...).
	Problems []string
	byMeta   map[meta.Definition]*SNode
	// Eager makes the store hand out a node for every non-presence container, also one that holds nothing yet (the way
	// a Go struct with value-typed container fields does); the container joins the data with the first thing written into it.
	Eager bool
	// Prefill makes every container and list entry the store creates come into being holding data already (the way an
	// application constructor does): see PrefillOf
	Prefill bool
	// write log (captures only): names written per node, in order; creations per parent
	logWrites bool
	writeLog  map[*DNode][]string
}

func NewStore(s *Schema, root *DNode) *Store {
	if root == nil {
		root = NewDNode(nil)
	}
	st := &Store{S: s, Root: root, byMeta: map[meta.Definition]*SNode{}}
	s.Walk(func(n *SNode) {
		if n.Meta != nil {
			st.byMeta[n.Meta] = n
		}
	})
	return st
}

func (st *Store) logWrite(d *DNode, name string) {
	if !st.logWrites {
		return
	}
	if st.writeLog == nil {
		st.writeLog = map[*DNode][]string{}
	}
	st.writeLog[d] = append(st.writeLog[d], name)
}

func (st *Store) problem(format string, a ...interface{}) {
	if len(st.Problems) < 20 {
		st.Problems = append(st.Problems, fmt.Sprintf(format, a...))
	}
}

// Node returns the root node (bound to the module).
func (st *Store) Node() node.Node { return &refNode{st: st, d: st.Root} }

// NodeAt returns the node for an existing container / list entry of the tree.
func (st *Store) NodeAt(d *DNode) node.Node { return &refNode{st: st, d: d} }

// ListAt returns the node for a list held by parent.
func (st *Store) ListAt(parent *DNode, name string) node.Node {
	return &refList{st: st, parent: parent, name: name}
}

func (st *Store) Browser() *node.Browser { return node.NewBrowser(st.S.Mod, st.Node()) }

type refNode struct {
	st *Store
	d  *DNode
	// a node handed out for a container that is not in the data (yet)
	ghostOf   *refNode
	ghostName string
}

// materialize links a node handed out for an absent container into the data (on its first write).
func (n *refNode) materialize() {
	if n.ghostOf == nil {
		return
	}
	n.ghostOf.materialize()
	if n.ghostOf.d.Kids[n.ghostName] == nil {
		n.ghostOf.d.Kids[n.ghostName] = n.d
	} else {
		n.d = n.ghostOf.d.Kids[n.ghostName]
	}
	n.ghostOf = nil
}

func (n *refNode) schemaChild(m meta.Definition) *SNode {
	sn := n.st.byMeta[m]
	if sn == nil {
		// fall back on the name: the same definition object is expected, but a clone must not crash the store
		for _, c := range n.d.schemaKids(n.st.S) {
			if c.Name == m.Ident() {
				n.st.problem("meta object for %s is not the one bound at compile time", m.Ident())
				return c
			}
		}
		return nil
	}
	// must be a child of this node
	for _, c := range n.d.schemaKids(n.st.S) {
		if c == sn {
			return sn
		}
	}
	n.st.problem("request for %s on a node whose schema does not contain it", m.Ident())
	return nil
}

func (n *refNode) Child(r node.ChildRequest) (node.Node, error) {
	sn := n.schemaChild(r.Meta)
	if sn == nil {
		return nil, fmt.Errorf("refstore: no such child %s", r.Meta.Ident())
	}
	name := sn.Name
	if r.Delete {
		if sn.Kind == List {
			delete(n.d.Lists, name)
		} else {
			delete(n.d.Kids, name)
		}
		return nil, nil
	}
	if r.New {
		n.materialize()
	}
	if sn.Kind == List {
		if r.New {
			if n.d.Lists[name] == nil {
				n.d.Lists[name] = &DList{S: sn}
			}
			n.st.logWrite(n.d, name)
		}
		if n.d.Lists[name] == nil {
			return nil, nil
		}
		return &refList{st: n.st, parent: n.d, name: name}, nil
	}
	if r.New {
		if n.d.Kids[name] != nil {
			n.st.problem("container %s created although it exists", name)
		}
		n.d.Kids[name] = NewDNode(sn)
		if n.st.Prefill {
			for ln, lv := range PrefillOf(sn) {
				n.d.Kids[name].Leaves[ln] = lv
			}
		}
		n.st.logWrite(n.d, name)
	}
	k := n.d.Kids[name]
	if k == nil {
		if n.st.Eager && !sn.Presence {
			return &refNode{st: n.st, d: NewDNode(sn), ghostOf: n, ghostName: name}, nil
		}
		return nil, nil
	}
	return &refNode{st: n.st, d: k}, nil
}

func (n *refNode) Next(r node.ListRequest) (node.Node, []val.Value, error) {
	return nil, nil, fmt.Errorf("refstore: Next on a container node %v", r.Meta.Ident())
}

func (n *refNode) Field(r node.FieldRequest, hnd *node.ValueHandle) error {
	sn := n.schemaChild(r.Meta)
	if sn == nil {
		return fmt.Errorf("refstore: no such field %s", r.Meta.Ident())
	}
	if r.Write {
		if r.Clear || hnd.Val == nil {
			if sn.IsKey() {
				return fmt.Errorf("refstore: the key leaf %s of a list entry cannot be unset", sn.Name)
			}
			delete(n.d.Leaves, sn.Name)
			return nil
		}
		n.materialize()
		lv, bad := FromVal(sn.Type, sn.Kind == LeafList, hnd.Val)
		if bad != "" {
			n.st.problem("write %s: %s", sn.Name, bad)
			return fmt.Errorf("refstore: %s", bad)
		}
		if lv.List != (sn.Kind == LeafList) {
			n.st.problem("write %s: list-ness %v does not match schema", sn.Name, lv.List)
		}
		// (the library keeps a list of binaries as the base64 text of every item: a string list)
		if want := FormatOf(sn.Type, sn.Kind == LeafList); hnd.Val.Format() != want && !(want == val.FmtBinaryList && hnd.Val.Format() == val.FmtStringList) {
			n.st.problem("write %s: value format %s, schema wants %s", sn.Name, hnd.Val.Format(), want)
		}
		if old := n.d.Leaves[sn.Name]; sn.IsKey() && old != nil && !lv.List && old.V[0] != lv.V[0] {
			// the entry was created or found under one key and is now told its key leaf holds another value
			n.st.problem("write %s: key leaf set to %q in the entry addressed by key %q", sn.Name, lv.V[0], old.V[0])
		}
		n.d.Leaves[sn.Name] = lv
		n.st.logWrite(n.d, sn.Name)
		return nil
	}
	if lv := n.d.Leaves[sn.Name]; lv != nil {
		hnd.Val = ToVal(sn.Type, lv)
	}
	return nil
}

func HasData(d *DNode, sn *SNode) bool { return hasData(d, sn) }

func hasData(d *DNode, sn *SNode) bool {
	switch sn.Kind {
	case Leaf, LeafList:
		return d.Leaves[sn.Name] != nil
	case Container:
		return d.Kids[sn.Name] != nil
	case List:
		return d.Lists[sn.Name] != nil
	case Choice, Case:
		for _, c := range sn.Children {
			if hasData(d, c) {
				return true
			}
		}
	}
	return false
}

func (n *refNode) Choose(sel *node.Selection, choice *meta.Choice) (*meta.ChoiceCase, error) {
	sn := n.st.byMeta[choice]
	if sn == nil {
		return nil, fmt.Errorf("refstore: unknown choice %s", choice.Ident())
	}
	for _, kase := range sn.Children {
		if hasData(n.d, kase) {
			return kase.Meta.(*meta.ChoiceCase), nil
		}
	}
	return nil, nil
}

func (n *refNode) BeginEdit(r node.NodeRequest) error { return nil }
func (n *refNode) EndEdit(r node.NodeRequest) error   { return nil }
func (n *refNode) Action(r node.ActionRequest) (node.Node, error) {
	return nil, fmt.Errorf("refstore: no actions")
}
func (n *refNode) Notify(r node.NotifyRequest) (node.NotifyCloser, error) {
	return nil, fmt.Errorf("refstore: no notifications")
}
func (n *refNode) Peek(sel *node.Selection, consumer interface{}) interface{} { return n.d }
func (n *refNode) Context(sel *node.Selection) context.Context                { return sel.Context }
func (n *refNode) Release(sel *node.Selection)                                {}

type refList struct {
	st     *Store
	parent *DNode
	name   string
}

func (l *refList) list() *DList { return l.parent.Lists[l.name] }

func (l *refList) keyStrings(sn *SNode, key []val.Value) ([]string, error) {
	if len(key) != len(sn.Keys) {
		return nil, fmt.Errorf("refstore: key arity %d, list %s has %d keys", len(key), sn.Name, len(sn.Keys))
	}
	out := make([]string, len(key))
	for i, kv := range key {
		ks := sn.Child(sn.Keys[i])
		if kv == nil {
			return nil, fmt.Errorf("refstore: nil key component %d for list %s", i, sn.Name)
		}
		lv, bad := FromVal(ks.Type, false, kv)
		if bad != "" || lv == nil || lv.List {
			return nil, fmt.Errorf("refstore: bad key component %d for list %s: %s", i, sn.Name, bad)
		}
		if want := FormatOf(ks.Type, false); kv.Format() != want {
			l.st.problem("list %s key %s: value format %s, schema wants %s", sn.Name, ks.Name, kv.Format(), want)
		}
		out[i] = lv.V[0]
	}
	return out, nil
}

func (l *refList) keyVals(e *DNode) []val.Value {
	sn := e.S
	out := make([]val.Value, len(sn.Keys))
	for i, kn := range sn.Keys {
		out[i] = ToVal(sn.Child(kn).Type, e.Leaves[kn])
	}
	return out
}

func (l *refList) Next(r node.ListRequest) (node.Node, []val.Value, error) {
	dl := l.list()
	if dl == nil {
		return nil, nil, nil
	}
	sn := dl.S
	if r.New {
		e := NewDNode(sn)
		if l.st.Prefill {
			for ln, lv := range PrefillOf(sn) {
				e.Leaves[ln] = lv
			}
		}
		if len(r.Key) > 0 {
			ks, err := l.keyStrings(sn, r.Key)
			if err != nil {
				return nil, nil, err
			}
			for i, kn := range sn.Keys {
				e.Leaves[kn] = &LVal{V: []string{ks[i]}}
			}
		}
		dl.Entries = append(dl.Entries, e)
		return &refNode{st: l.st, d: e}, r.Key, nil
	}
	if len(r.Key) > 0 {
		ks, err := l.keyStrings(sn, r.Key)
		if err != nil {
			return nil, nil, err
		}
		e, i := dl.Find(ks)
		if r.Delete {
			if e != nil {
				dl.Entries = append(dl.Entries[:i:i], dl.Entries[i+1:]...)
			}
			return nil, nil, nil
		}
		if e == nil {
			return nil, nil, nil
		}
		return &refNode{st: l.st, d: e}, r.Key, nil
	}
	if r.Delete {
		return nil, nil, fmt.Errorf("refstore: delete without key")
	}
	if r.Row < 0 || r.Row >= len(dl.Entries) {
		return nil, nil, nil
	}
	e := dl.Entries[r.Row]
	var key []val.Value
	if len(sn.Keys) > 0 {
		key = l.keyVals(e)
	}
	return &refNode{st: l.st, d: e}, key, nil
}

func (l *refList) Child(r node.ChildRequest) (node.Node, error) {
	return nil, fmt.Errorf("refstore: Child on a list node")
}
func (l *refList) Field(r node.FieldRequest, hnd *node.ValueHandle) error {
	return fmt.Errorf("refstore: Field on a list node")
}
func (l *refList) Choose(sel *node.Selection, choice *meta.Choice) (*meta.ChoiceCase, error) {
	return nil, fmt.Errorf("refstore: Choose on a list node")
}
func (l *refList) BeginEdit(r node.NodeRequest) error { return nil }
func (l *refList) EndEdit(r node.NodeRequest) error   { return nil }
func (l *refList) Action(r node.ActionRequest) (node.Node, error) {
	return nil, fmt.Errorf("refstore: no actions")
}
func (l *refList) Notify(r node.NotifyRequest) (node.NotifyCloser, error) {
	return nil, fmt.Errorf("refstore: no notifications")
}
func (l *refList) Peek(sel *node.Selection, consumer interface{}) interface{} { return l.list() }
func (l *refList) Context(sel *node.Selection) context.Context                { return sel.Context }
func (l *refList) Release(sel *node.Selection)                                {}

// PrefillOf is what a container or list entry of sn holds the moment a prefilling store creates it: a value for the first plain
// leaf of the first case of its first choice that has at least two cases. A node created by an edit that writes another case of
// that choice has to end up with that other case only.
func PrefillOf(sn *SNode) map[string]*LVal {
	for _, ch := range sn.Children {
		if ch.Kind != Choice || len(ch.Children) < 2 || ch.Module != "" {
			continue
		}
		for _, m := range ch.Children[0].Children {
			if m.Kind != Leaf || m.Type == nil || m.Type.Wrap != "" || m.Module != "" {
				continue
			}
			switch m.Type.Base {
			case "string":
				return map[string]*LVal{m.Name: {V: []string{"prefilled"}}}
			case "int8", "int16", "int32", "int64", "uint8", "uint16", "uint32", "uint64":
				return map[string]*LVal{m.Name: {V: []string{"1"}}}
			case "boolean":
				return map[string]*LVal{m.Name: {V: []string{"true"}}}
			}
		}
		return nil
	}
	return nil
}
