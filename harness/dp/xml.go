package dp

import (
	"bytes"
	"encoding/xml"
	"fmt"
	"io"
	"math/big"
	"strings"
)

// ---- reference XML encoder (model tree -> document), used to feed the XML reader ------------------

func (s *Schema) nsOf(n *SNode) string {
	if n != nil && n.Module != "" {
		return "urn:" + n.Module
	}
	return s.NS
}

func xmlEsc(s string) string {
	var b bytes.Buffer
	xml.EscapeText(&b, []byte(s))
	return b.String()
}

// EncodeXML renders the tree as <root xmlns=...>...</root>. order optionally permutes the sibling
// elements of every node (keeping the relative order of elements with the same name) when interleave
// is set: XML lets list entries be interleaved with their siblings.
func EncodeXML(s *Schema, rootName string, d *DNode, interleave func(n int) []int) string {
	var b bytes.Buffer
	rootNS := s.NS
	if s.AugName != "" {
		rootNS = "urn:" + s.AugName
	}
	fmt.Fprintf(&b, "<%s xmlns=\"%s\">", rootName, xmlEsc(rootNS))
	encXMLBody(&b, s, d, rootNS, interleave)
	fmt.Fprintf(&b, "</%s>", rootName)
	return b.String()
}

func encXMLBody(b *bytes.Buffer, s *Schema, d *DNode, curNS string, interleave func(n int) []int) {
	var elems []string
	open := func(c *SNode) (string, string) {
		ns := s.nsOf(c)
		if ns != curNS {
			return fmt.Sprintf("<%s xmlns=\"%s\">", c.Name, xmlEsc(ns)), ns
		}
		return "<" + c.Name + ">", ns
	}
	for _, c := range d.schemaKids(s) {
		switch c.Kind {
		case Leaf, LeafList:
			if l := d.Leaves[c.Name]; l != nil {
				for _, v := range l.V {
					o, _ := open(c)
					if c.Type.Base == "empty" {
						v = ""
					}
					elems = append(elems, o+xmlEsc(v)+"</"+c.Name+">")
				}
			}
		case Container:
			if k := d.Kids[c.Name]; k != nil {
				var kb bytes.Buffer
				o, ns := open(c)
				kb.WriteString(o)
				encXMLBody(&kb, s, k, ns, interleave)
				kb.WriteString("</" + c.Name + ">")
				elems = append(elems, kb.String())
			}
		case List:
			if l := d.Lists[c.Name]; l != nil {
				for _, e := range l.Entries {
					var kb bytes.Buffer
					o, ns := open(c)
					kb.WriteString(o)
					encXMLBody(&kb, s, e, ns, interleave)
					kb.WriteString("</" + c.Name + ">")
					elems = append(elems, kb.String())
				}
			}
		}
	}
	if interleave != nil && len(elems) > 1 {
		perm := interleave(len(elems))
		// keep relative order among elements with the same tag
		tag := func(e string) string { return e[1:strings.IndexAny(e, " >")] }
		out := make([]string, 0, len(elems))
		byTag := map[string][]string{}
		for _, e := range elems {
			byTag[tag(e)] = append(byTag[tag(e)], e)
		}
		for _, i := range perm {
			t := tag(elems[i])
			out = append(out, byTag[t][0])
			byTag[t] = byTag[t][1:]
		}
		elems = out
	}
	for _, e := range elems {
		b.WriteString(e)
	}
}

// ---- checking decoder (XML document -> model tree) with the standard library ---------------------

type XDecoded struct {
	Tree     *DNode
	Problems []string
	RootName string
	RootNS   string
}

func (xd *XDecoded) problem(class, format string, a ...interface{}) {
	if len(xd.Problems) < 30 {
		xd.Problems = append(xd.Problems, class+": "+fmt.Sprintf(format, a...))
	}
}

type xelem struct {
	name  xml.Name
	text  string
	kids  []*xelem
	attrs []xml.Attr
}

func parseXML(text string) (*xelem, error) {
	d := xml.NewDecoder(strings.NewReader(text))
	d.Strict = true
	var root *xelem
	var stack []*xelem
	roots := 0
	for {
		tok, err := d.Token()
		if err == io.EOF {
			break
		}
		if err != nil {
			return nil, err
		}
		switch t := tok.(type) {
		case xml.StartElement:
			e := &xelem{name: t.Name, attrs: t.Attr}
			if len(stack) == 0 {
				roots++
				root = e
			} else {
				p := stack[len(stack)-1]
				p.kids = append(p.kids, e)
			}
			stack = append(stack, e)
		case xml.EndElement:
			stack = stack[:len(stack)-1]
		case xml.CharData:
			if len(stack) > 0 {
				stack[len(stack)-1].text += string(t)
			} else if strings.TrimSpace(string(t)) != "" {
				return nil, fmt.Errorf("text outside the root element")
			}
		}
	}
	if roots != 1 {
		return nil, fmt.Errorf("%d root elements", roots)
	}
	if len(stack) != 0 {
		return nil, fmt.Errorf("unclosed elements")
	}
	return root, nil
}

// DecodeXML parses a document whose root element holds the content of a node with schema parentS
// (nil = module root) and rebuilds the model tree, recording deviations.
func DecodeXML(s *Schema, parentS *SNode, text string) *XDecoded {
	xd := &XDecoded{Tree: NewDNode(parentS)}
	root, err := parseXML(text)
	if err != nil {
		xd.problem("malformed", "%v", err)
		return xd
	}
	xd.RootName, xd.RootNS = root.name.Local, root.name.Space
	xd.fill(s, xd.Tree, root)
	return xd
}

func (xd *XDecoded) fill(s *Schema, into *DNode, e *xelem) {
	kids := into.schemaKids(s)
	hasElems := len(e.kids) > 0
	if hasElems && strings.TrimSpace(e.text) != "" {
		xd.problem("shape/mixed-content", "element %s has both text and child elements", e.name.Local)
	}
	for _, k := range e.kids {
		var sn *SNode
		for _, c := range kids {
			if c.Name == k.name.Local {
				sn = c
			}
		}
		if sn == nil {
			xd.problem("name/unknown-element", "element %s is not a schema child of %s", k.name.Local, nodeName(into.S))
			continue
		}
		want := s.nsOf(sn)
		// nodes that come from the main module's grouping used by the second module: the library binds them
		// to the defining module, RFC 7950 to the using module; both are accepted (DESIGN C15/C19 D)
		ambiguous := s.AugName != "" && sn.Module == "" && k.name.Space == "urn:"+s.AugName
		if k.name.Space != want && !ambiguous {
			// aug-mode root namespace: nodes of the main module's grouping carry the main namespace
			xd.problem("name/namespace", "element %s has namespace %q, expected %q", k.name.Local, k.name.Space, want)
		}
		switch sn.Kind {
		case Leaf:
			if len(k.kids) > 0 {
				xd.problem("shape/leaf-with-children", "leaf %s has child elements", sn.Name)
				continue
			}
			if into.Leaves[sn.Name] != nil {
				xd.problem("shape/duplicate-leaf", "leaf %s appears twice", sn.Name)
			}
			v, ok := xmlScalar(sn.Type, k.text)
			if !ok {
				xd.problem("type/"+sn.Type.Base, "leaf %s: text %q", sn.Name, k.text)
				continue
			}
			into.Leaves[sn.Name] = &LVal{V: []string{v}}
		case LeafList:
			v, ok := xmlScalar(sn.Type, k.text)
			if !ok {
				xd.problem("type/"+sn.Type.Base, "leaf-list %s: text %q", sn.Name, k.text)
				continue
			}
			l := into.Leaves[sn.Name]
			if l == nil {
				l = &LVal{List: true}
				into.Leaves[sn.Name] = l
			}
			l.V = append(l.V, v)
		case Container:
			if into.Kids[sn.Name] != nil {
				xd.problem("shape/duplicate-container", "container %s appears twice", sn.Name)
			}
			c := NewDNode(sn)
			into.Kids[sn.Name] = c
			xd.fill(s, c, k)
		case List:
			l := into.Lists[sn.Name]
			if l == nil {
				l = &DList{S: sn}
				into.Lists[sn.Name] = l
			}
			en := NewDNode(sn)
			xd.fill(s, en, k)
			l.Entries = append(l.Entries, en)
		}
	}
}

func xmlScalar(t *SType, text string) (string, bool) {
	switch t.Base {
	case "string", "binary":
		return text, true
	case "empty":
		return "", true
	case "boolean":
		tt := strings.TrimSpace(text)
		return tt, tt == "true" || tt == "false"
	case "enumeration":
		tt := strings.TrimSpace(text)
		for _, e := range t.Enums {
			if e == tt {
				return tt, true
			}
		}
		return tt, false
	case "identityref":
		tt := strings.TrimSpace(text)
		if i := strings.Index(tt, ":"); i >= 0 {
			tt = tt[i+1:]
		}
		return tt, true
	case "bits":
		set := map[string]bool{}
		for _, w := range strings.Fields(text) {
			set[w] = true
		}
		var on []string
		for _, b := range t.Bits {
			if set[b] {
				on = append(on, b)
				delete(set, b)
			}
		}
		return strings.Join(on, " "), len(set) == 0
	case "decimal64":
		var f float64
		if _, err := fmt.Sscanf(strings.TrimSpace(text), "%g", &f); err != nil {
			return "", false
		}
		return CanonDecimal(f), true
	}
	tt := strings.TrimSpace(text)
	lo, hi := intBounds(t.Base)
	if lo == nil {
		return tt, false
	}
	v := new(big.Int)
	if _, ok := v.SetString(tt, 10); !ok {
		return tt, false
	}
	if v.Cmp(lo) < 0 || v.Cmp(hi) > 0 {
		return tt, false
	}
	return v.String(), true
}
