package dp

import (
	"context"
	"errors"
	"fmt"
	"strings"

	"github.com/freeconf/yang/meta"
	"github.com/freeconf/yang/node"
	"github.com/freeconf/yang/val"
)

// Rec records every node callback made during one API call and can make the k-th callback fail.
type Rec struct {
	Active bool
	Events []Event
	FailAt int // 1-based index among counted callbacks; 0 = never
	Calls  int // counted callbacks so far
	// FailedSeq is the index in Events of the call that was failed (-1 if none yet)
	FailedSeq int
	Sentinel  error
	// EndAlsoFails: once a callback was made to fail, every EndEdit that follows fails too, each with an error of its own
	EndAlsoFails bool
	EndErrors    []error
}

type Event struct {
	Seq      int
	Side     string // "src" | "tgt"
	Node     string // identity of the node receiving the callback: path from the wrapped root
	CB       string // Child Next Field Choose BeginEdit EndEdit
	Ident    string // meta ident of the child / field / choice
	New      bool
	Delete   bool
	Write    bool
	Clear    bool
	EditRoot bool
	Key      string
	Row      int
	Injected bool   // this callback was made to fail
	Result   string // "nil" "node" "err:<text>"
}

func (e Event) String() string {
	flags := ""
	for _, f := range []struct {
		on bool
		n  string
	}{{e.New, "new"}, {e.Delete, "delete"}, {e.Write, "write"}, {e.Clear, "clear"}, {e.EditRoot, "root"}, {e.Injected, "INJECTED"}} {
		if f.on {
			flags += " " + f.n
		}
	}
	k := ""
	if e.Key != "" {
		k = " key=" + e.Key
	}
	return fmt.Sprintf("%3d %s %-28s %-9s %s%s%s -> %s", e.Seq, e.Side, e.Node, e.CB, e.Ident, k, flags, e.Result)
}

func NewRec() *Rec {
	return &Rec{FailedSeq: -1, Sentinel: errors.New("verif: injected callback failure")}
}

// IsWrite tells whether the event is a modifying request.
func (e Event) IsWrite() bool {
	switch e.CB {
	case "Field":
		return e.Write
	case "Child", "Next":
		return e.New || e.Delete
	}
	return false
}

func (r *Rec) Trace() string {
	var b strings.Builder
	for _, e := range r.Events {
		b.WriteString(e.String())
		b.WriteString("\n")
	}
	return b.String()
}

// Wrap wraps n; id is the identity of the node ("" for the root).
func (r *Rec) Wrap(side, id string, n node.Node) node.Node {
	if n == nil {
		return nil
	}
	return &recNode{r: r, side: side, id: id, inner: n}
}

type recNode struct {
	r     *Rec
	side  string
	id    string
	inner node.Node
}

// begin registers a callback; it returns the event index and whether the callback must fail.
func (n *recNode) begin(e Event) (int, bool) {
	if !n.r.Active {
		return -1, false
	}
	n.r.Calls++
	e.Seq = len(n.r.Events)
	e.Side = n.side
	e.Node = n.id
	if e.Node == "" {
		e.Node = "/"
	}
	fail := n.r.FailAt > 0 && n.r.Calls == n.r.FailAt
	if fail {
		e.Injected = true
		e.Result = "err:injected"
		n.r.FailedSeq = e.Seq
	}
	n.r.Events = append(n.r.Events, e)
	return e.Seq, fail
}

func (n *recNode) end(i int, res string) {
	if i >= 0 {
		n.r.Events[i].Result = res
	}
}

func resOf(x interface{}, err error) string {
	if err != nil {
		return "err:" + err.Error()
	}
	if x == nil {
		return "nil"
	}
	return "node"
}

func keyStr(k []val.Value) string {
	if len(k) == 0 {
		return ""
	}
	parts := make([]string, len(k))
	for i, v := range k {
		if v == nil {
			parts[i] = "<nil>"
		} else {
			parts[i] = v.String()
		}
	}
	return strings.Join(parts, ",")
}

func (n *recNode) Child(r node.ChildRequest) (node.Node, error) {
	i, fail := n.begin(Event{CB: "Child", Ident: r.Meta.Ident(), New: r.New, Delete: r.Delete})
	if fail {
		return nil, n.r.Sentinel
	}
	c, err := n.inner.Child(r)
	if c == nil || err != nil {
		n.end(i, resOf(nil, err))
		return c, err
	}
	n.end(i, "node")
	return n.r.Wrap(n.side, n.id+"/"+r.Meta.Ident(), c), nil
}

func (n *recNode) Next(r node.ListRequest) (node.Node, []val.Value, error) {
	i, fail := n.begin(Event{CB: "Next", Ident: r.Meta.Ident(), New: r.New, Delete: r.Delete, Key: keyStr(r.Key), Row: r.Row})
	if fail {
		return nil, nil, n.r.Sentinel
	}
	c, key, err := n.inner.Next(r)
	if c == nil || err != nil {
		n.end(i, resOf(nil, err))
		return c, key, err
	}
	n.end(i, "node")
	k := key
	if len(k) == 0 {
		k = r.Key
	}
	return n.r.Wrap(n.side, n.id+"["+keyStr(k)+"]", c), key, nil
}

func (n *recNode) Field(r node.FieldRequest, hnd *node.ValueHandle) error {
	i, fail := n.begin(Event{CB: "Field", Ident: r.Meta.Ident(), Write: r.Write, Clear: r.Clear})
	if fail {
		return n.r.Sentinel
	}
	err := n.inner.Field(r, hnd)
	n.end(i, resOf(hnd.Val, err))
	return err
}

func (n *recNode) Choose(sel *node.Selection, choice *meta.Choice) (*meta.ChoiceCase, error) {
	i, fail := n.begin(Event{CB: "Choose", Ident: choice.Ident()})
	if fail {
		return nil, n.r.Sentinel
	}
	c, err := n.inner.Choose(sel, choice)
	if c == nil {
		n.end(i, resOf(nil, err))
	} else {
		n.end(i, "case:"+c.Ident())
	}
	return c, err
}

func (n *recNode) BeginEdit(r node.NodeRequest) error {
	i, fail := n.begin(Event{CB: "BeginEdit", New: r.New, Delete: r.Delete, EditRoot: r.EditRoot})
	if fail {
		return n.r.Sentinel
	}
	err := n.inner.BeginEdit(r)
	n.end(i, resOf(nil, err))
	return err
}

func (n *recNode) EndEdit(r node.NodeRequest) error {
	i, fail := n.begin(Event{CB: "EndEdit", New: r.New, Delete: r.Delete, EditRoot: r.EditRoot})
	if fail {
		return n.r.Sentinel
	}
	err := n.inner.EndEdit(r)
	if err == nil && n.r.EndAlsoFails && n.r.FailedSeq >= 0 && n.r.Active {
		err = fmt.Errorf("verif: EndEdit %d of %s %s fails as well", len(n.r.EndErrors), n.side, n.id)
		n.r.EndErrors = append(n.r.EndErrors, err)
		n.r.Events[i].Injected = true
	}
	n.end(i, resOf(nil, err))
	return err
}

func (n *recNode) Action(r node.ActionRequest) (node.Node, error) { return n.inner.Action(r) }
func (n *recNode) Notify(r node.NotifyRequest) (node.NotifyCloser, error) {
	return n.inner.Notify(r)
}
func (n *recNode) Peek(sel *node.Selection, consumer interface{}) interface{} {
	return n.inner.Peek(sel, consumer)
}
func (n *recNode) Context(sel *node.Selection) context.Context { return n.inner.Context(sel) }
func (n *recNode) Release(sel *node.Selection)                 { n.inner.Release(sel) }
