package dp

import (
	"strings"
)

type Strategy int

const (
	Upsert Strategy = iota
	Insert
	Update
)

func (s Strategy) String() string { return [...]string{"upsert", "insert", "update"}[s] }

type OpErr int

const (
	OK OpErr = iota
	ErrConflict
	ErrNotFound
)

func (e OpErr) String() string { return [...]string{"ok", "conflict", "not-found"}[e] }

// Apply is the specification of the three edit strategies on container-like nodes (root, container,
// list entry): it merges S into T following the property statement of C03. created tells whether T was
// just created by the operation (then unset leaves take their schema default, except under Update).
// T is modified in place; on error T may be partially modified (the statement defines no rollback).
// ModelPrefill: the target the model stands for creates nodes that hold data already (Store.Prefill)
var ModelPrefill bool

func Apply(sc *Schema, st Strategy, S, T *DNode, created bool) OpErr {
	for _, c := range S.schemaKids(sc) {
		switch c.Kind {
		case Leaf, LeafList:
			v := S.Leaves[c.Name]
			if v == nil && created && st != Update && c.Default != nil && c.Kind == Leaf && caseSelected(S, c) {
				v = &LVal{V: []string{*c.Default}}
			}
			if v != nil {
				clearOtherCases(T, c)
				T.Leaves[c.Name] = v.Clone()
			}
		case Container:
			sk := S.Kids[c.Name]
			if sk == nil {
				continue
			}
			tk := T.Kids[c.Name]
			isNew := false
			switch st {
			case Insert:
				if tk != nil {
					return ErrConflict
				}
			case Update:
				if tk == nil {
					return ErrNotFound
				}
			}
			if tk == nil {
				clearOtherCases(T, c)
				tk = NewDNode(c)
				if ModelPrefill {
					for ln, lv := range PrefillOf(c) {
						tk.Leaves[ln] = lv.Clone()
					}
				}
				T.Kids[c.Name] = tk
				isNew = true
			} else if st == Upsert {
				clearOtherCases(T, c)
			}
			if e := Apply(sc, st, sk, tk, isNew); e != OK {
				return e
			}
		case List:
			sl := S.Lists[c.Name]
			if sl == nil {
				continue
			}
			tl := T.Lists[c.Name]
			switch st {
			case Insert:
				if tl != nil {
					return ErrConflict
				}
			case Update:
				if tl == nil {
					return ErrNotFound
				}
			}
			if tl == nil {
				clearOtherCases(T, c)
				tl = &DList{S: c}
				T.Lists[c.Name] = tl
			} else if st == Upsert {
				clearOtherCases(T, c)
			}
			if e := ApplyList(sc, st, sl, tl); e != OK {
				return e
			}
		}
	}
	return OK
}

// caseSelected: a default below a case only applies when S selects that case (RFC 7950 7.9.3).
func caseSelected(S *DNode, c *SNode) bool {
	for _, cc := range c.CaseChain() {
		if !hasData(S, cc[1]) {
			return false
		}
	}
	return true
}

// ApplyList merges the entries of list SL into list TL: matched by key, otherwise appended.
func ApplyList(sc *Schema, st Strategy, SL, TL *DList) OpErr {
	for _, se := range SL.Entries {
		te, _ := TL.Find(se.Key())
		isNew := false
		switch st {
		case Insert:
			if te != nil {
				return ErrConflict
			}
		case Update:
			if te == nil {
				return ErrNotFound
			}
		}
		if te == nil {
			te = NewDNode(TL.S)
			if ModelPrefill {
				for ln, lv := range PrefillOf(TL.S) {
					te.Leaves[ln] = lv.Clone()
				}
			}
			TL.Entries = append(TL.Entries, te)
			isNew = true
		}
		if e := Apply(sc, st, se, te, isNew); e != OK {
			return e
		}
	}
	return OK
}

// clearOtherCases implements the choice rule (C09): writing node c of one case removes all data of
// every other case of each choice on c's case chain.
func clearOtherCases(T *DNode, c *SNode) {
	for _, cc := range c.CaseChain() {
		choice, kase := cc[0], cc[1]
		for _, other := range choice.Children {
			if other != kase {
				clearData(T, other)
			}
		}
	}
}

func clearData(T *DNode, sn *SNode) {
	switch sn.Kind {
	case Leaf, LeafList:
		delete(T.Leaves, sn.Name)
	case Container:
		delete(T.Kids, sn.Name)
	case List:
		delete(T.Lists, sn.Name)
	default:
		for _, c := range sn.Children {
			clearData(T, c)
		}
	}
}

// ---------------------------------------------------------------------------------------------
// addressing

// Step is one step of a data path: a container name, a list name (Key == nil: the list itself) or a
// list entry (Key set).
type Step struct {
	Name string
	Key  []string
}

type DPath []Step

func (p DPath) String() string {
	var parts []string
	for _, s := range p {
		if s.Key != nil {
			parts = append(parts, s.Name+"="+strings.Join(s.Key, ","))
		} else {
			parts = append(parts, s.Name)
		}
	}
	return strings.Join(parts, "/")
}

// Resolve walks the path. It returns the addressed container/entry (node), or the addressed list
// (list) when the last step names a list without key; parent is the DNode holding the last step.
func (d *DNode) Resolve(p DPath) (node *DNode, list *DList, parent *DNode) {
	cur := d
	for i, s := range p {
		last := i == len(p)-1
		parent = cur
		if k := cur.Kids[s.Name]; k != nil && s.Key == nil {
			cur = k
			continue
		}
		l := cur.Lists[s.Name]
		if l == nil {
			return nil, nil, parent
		}
		if s.Key == nil {
			if last {
				return nil, l, parent
			}
			return nil, nil, parent
		}
		e, _ := l.Find(s.Key)
		if e == nil {
			return nil, nil, parent
		}
		cur = e
	}
	return cur, nil, parent
}

// AllPaths enumerates every addressable container, list and list entry of the tree.
func (d *DNode) AllPaths() []DPath {
	var out []DPath
	var rec func(n *DNode, p DPath)
	rec = func(n *DNode, p DPath) {
		for name, k := range n.Kids {
			np := append(append(DPath{}, p...), Step{Name: name})
			out = append(out, np)
			rec(k, np)
		}
		for name, l := range n.Lists {
			lp := append(append(DPath{}, p...), Step{Name: name})
			out = append(out, lp)
			for _, e := range l.Entries {
				ep := append(append(DPath{}, p...), Step{Name: name, Key: e.Key()})
				out = append(out, ep)
				rec(e, ep)
			}
		}
	}
	rec(d, nil)
	sortPaths(out)
	return out
}

func sortPaths(ps []DPath) {
	for i := 1; i < len(ps); i++ {
		for j := i; j > 0 && ps[j].String() < ps[j-1].String(); j-- {
			ps[j], ps[j-1] = ps[j-1], ps[j]
		}
	}
}

// DeleteAt removes the addressed container, list entry or list. It reports whether something was removed.
func (d *DNode) DeleteAt(p DPath) bool {
	if len(p) == 0 {
		return false
	}
	n, l, parent := d.Resolve(p)
	last := p[len(p)-1]
	switch {
	case l != nil:
		delete(parent.Lists, last.Name)
		return true
	case n != nil && last.Key != nil:
		pl := parent.Lists[last.Name]
		_, i := pl.Find(last.Key)
		pl.Entries = append(pl.Entries[:i:i], pl.Entries[i+1:]...)
		return true
	case n != nil:
		delete(parent.Kids, last.Name)
		return true
	}
	return false
}
