package dp

import (
	"fmt"
	"math/rand"
	"reflect"
	"sort"
	"strconv"
	"strings"
	"sync"
	"unicode"

	"github.com/freeconf/yang/meta"
	"github.com/freeconf/yang/node"
	"github.com/freeconf/yang/nodeutil"
	"github.com/freeconf/yang/val"
)

// GoStore keeps a data tree in plain Go values (maps, slices, structs built with reflect.StructOf) and hands the library one of its
// reflection nodes over it: nodeutil.Reflect (API "reflect") or nodeutil.Node (API "node"). The harness reads the Go values back directly,
// with package reflect only, never through the library.
type GoMode struct {
	API   string // reflect | node
	Shape string // map | struct
}

func (m GoMode) String() string { return m.API + "-" + m.Shape }

var GoModes = []GoMode{{"reflect", "map"}, {"node", "map"}, {"reflect", "struct"}, {"node", "struct"}}

// list representations
const (
	ReprSlicePtr = "slice-of-pointers" // []*T            (struct shape)
	ReprSliceVal = "slice-of-values"   // []T             (struct shape, API reflect only)
	ReprSliceMap = "slice-of-maps"     // []map[string]interface{} (map shape)
	ReprMap      = "keyed-map"         // map[K]*T / map[K]interface{}, single key only
)

type GoStore struct {
	S    *Schema
	Mode GoMode
	Root reflect.Value // map[string]interface{} or pointer to struct
	Repr map[*SNode]string
	typ  map[*SNode]reflect.Type // struct type of a container / list entry
	// Hooks (API node only): the nodeutil.Node is given callbacks that do nothing but call the documented default (ref.DoXxx), for all of the
	// On* fields ("all") or for a single one. Such a node must behave like the node without callbacks; HookCalls counts what was called.
	Hooks     string
	hookMu    sync.Mutex
	HookCalls map[string]int
}

// HookSets: callback sets a node-API store can carry ("" = none)
var HookSets = []string{"", "all", "OnGetByKey", "OnDeleteByKey", "OnGetByRow", "OnNewListItem", "OnChild", "OnField", "OnGetChild+OnDeleteChild", "OnSetField+OnClearField"}

func (g *GoStore) hooked(name string) bool {
	if g.Hooks == "all" {
		return true
	}
	for _, h := range strings.Split(g.Hooks, "+") {
		if h == name {
			return true
		}
	}
	return false
}

func (g *GoStore) called(name string) {
	g.hookMu.Lock()
	if g.HookCalls == nil {
		g.HookCalls = map[string]int{}
	}
	g.HookCalls[name]++
	g.hookMu.Unlock()
}

// HookSeen lists the callbacks that were called at least once, sorted.
func (g *GoStore) HookSeen() []string {
	g.hookMu.Lock()
	defer g.hookMu.Unlock()
	var l []string
	for k := range g.HookCalls {
		l = append(l, k)
	}
	sort.Strings(l)
	return l
}

func (g *GoStore) applyHooks(n *nodeutil.Node) {
	if g.hooked("OnChild") {
		n.OnChild = func(n *nodeutil.Node, r node.ChildRequest) (node.Node, error) {
			g.called("OnChild")
			return n.DoChild(r)
		}
	}
	if g.hooked("OnGetChild") {
		n.OnGetChild = func(n *nodeutil.Node, r node.ChildRequest) (node.Node, error) {
			g.called("OnGetChild")
			return n.DoGetChild(r)
		}
	}
	if g.hooked("OnNewChild") {
		n.OnNewChild = func(n *nodeutil.Node, r node.ChildRequest) (node.Node, error) {
			g.called("OnNewChild")
			return n.DoNewChild(r)
		}
	}
	if g.hooked("OnDeleteChild") {
		n.OnDeleteChild = func(n *nodeutil.Node, r node.ChildRequest) error {
			g.called("OnDeleteChild")
			return n.DoDeleteChild(r)
		}
	}
	if g.hooked("OnField") {
		n.OnField = func(n *nodeutil.Node, r node.FieldRequest, hnd *node.ValueHandle) error {
			g.called("OnField")
			return n.DoField(r, hnd)
		}
	}
	if g.hooked("OnGetField") {
		n.OnGetField = func(n *nodeutil.Node, r node.FieldRequest) (val.Value, error) {
			g.called("OnGetField")
			return n.DoGetField(r)
		}
	}
	if g.hooked("OnSetField") {
		n.OnSetField = func(n *nodeutil.Node, r node.FieldRequest, v val.Value) error {
			g.called("OnSetField")
			return n.DoSetField(r, v)
		}
	}
	if g.hooked("OnClearField") {
		n.OnClearField = func(n *nodeutil.Node, r node.FieldRequest) error { g.called("OnClearField"); return n.DoClearField(r) }
	}
	if g.hooked("OnGetByKey") {
		n.OnGetByKey = func(n *nodeutil.Node, r node.ListRequest) (node.Node, error) {
			g.called("OnGetByKey")
			return n.DoGetByKey(r)
		}
	}
	if g.hooked("OnGetByRow") {
		n.OnGetByRow = func(n *nodeutil.Node, r node.ListRequest) (node.Node, []val.Value, error) {
			g.called("OnGetByRow")
			return n.DoGetByRow(r)
		}
	}
	if g.hooked("OnDeleteByKey") {
		n.OnDeleteByKey = func(n *nodeutil.Node, r node.ListRequest) error { g.called("OnDeleteByKey"); return n.DoDeleteByKey(r) }
	}
	if g.hooked("OnNewListItem") {
		n.OnNewListItem = func(n *nodeutil.Node, r node.ListRequest) (node.Node, error) {
			g.called("OnNewListItem")
			return n.DoNewListItem(r)
		}
	}
	if g.hooked("OnChoose") {
		n.OnChoose = func(n *nodeutil.Node, sel *node.Selection, choice *meta.Choice) (*meta.ChoiceCase, error) {
			g.called("OnChoose")
			return n.DoChoose(sel, choice)
		}
	}
	if g.hooked("OnRead") {
		n.OnRead = func(n *nodeutil.Node, m meta.Definition, t reflect.Type, v reflect.Value) (reflect.Value, error) {
			g.called("OnRead")
			return v, nil
		}
	}
	if g.hooked("OnWrite") {
		n.OnWrite = func(n *nodeutil.Node, m meta.Definition, t reflect.Type, v reflect.Value) (reflect.Value, error) {
			g.called("OnWrite")
			return v, nil
		}
	}
	if g.hooked("OnBeginEdit") {
		n.OnBeginEdit = func(n *nodeutil.Node, r node.NodeRequest) error { g.called("OnBeginEdit"); return nil }
	}
	if g.hooked("OnEndEdit") {
		n.OnEndEdit = func(n *nodeutil.Node, r node.NodeRequest) error { g.called("OnEndEdit"); return nil }
	}
	if g.hooked("OnNewNode") {
		n.OnNewNode = func(n *nodeutil.Node, m meta.Meta, obj any) (node.Node, error) {
			g.called("OnNewNode")
			c, err := n.DoNewNode(m, obj)
			if err != nil {
				return nil, err
			}
			return c, nil
		}
	}
}

// GoTypes lists the leaf types a mode can hold without losing the set/unset distinction more than "zero value = unset".
func GoTypes(m GoMode) []string {
	if m.Shape == "struct" {
		return []string{"int8", "int16", "int32", "int64", "uint8", "uint16", "uint32", "uint64", "decimal64", "string", "boolean"}
	}
	return []string{"int8", "int16", "int32", "int64", "uint8", "uint16", "uint32", "uint64", "decimal64", "string", "boolean", "enumeration", "identityref"}
}

// GoKeyTypes: key types a keyed Go map can carry with the library's own defaults (see nodeutil create / DoNewObject).
func GoKeyTypes(m GoMode) []string {
	if m.Shape == "struct" {
		return []string{"string", "int32", "int64", "uint8", "uint32", "int8", "uint16", "uint64", "int16", "boolean"}
	}
	return []string{"string", "int32", "int64"}
}

// GoGen narrows generator options to what a mode can hold: leaf and key types (composite keys everywhere: a list the library creates for them is a slice),
// no union-typed leaves where a leaf is a struct field of one Go type.
func GoGen(o *GenOpts, m GoMode) {
	o.Types, o.KeyTypes = GoTypes(m), GoKeyTypes(m)
	o.CompoundKeys = true
	o.NoUnionWrap = m.Shape == "struct"
}

func FieldName(in string) string {
	out := []rune{}
	up := true
	for _, r := range in {
		if r == '-' || r == '_' {
			up = true
			continue
		}
		if up {
			r = unicode.ToUpper(r)
		}
		up = false
		out = append(out, r)
	}
	return string(out)
}

// goLeafType is the Go type the library itself uses for a leaf of this type: the dynamic type of Value() of its val.Value
// (int32 <-> int, uint32 <-> uint, the others by name); nodeutil.Node assigns without converting.
func goLeafType(t *SType) reflect.Type {
	sample := "1"
	switch t.Base {
	case "string":
		sample = "a"
	case "boolean":
		sample = "true"
	case "enumeration", "identityref", "bits", "binary", "empty":
		return nil
	}
	return reflect.TypeOf(ToVal(t, &LVal{V: []string{sample}}).Value())
}

func goLeafListType(t *SType) reflect.Type {
	sample := "1"
	switch t.Base {
	case "string":
		sample = "a"
	case "boolean":
		sample = "true"
	}
	return reflect.TypeOf(ToVal(t, &LVal{List: true, V: []string{sample}}).Value())
}

// Supports says whether the schema is inside what the mode can represent (see DESIGN, C03/C18 domain).
func GoSupports(s *Schema, m GoMode) string {
	why := ""
	var visit func(kids []*SNode, path string)
	visit = func(kids []*SNode, path string) {
		names := map[string]string{}
		for _, c := range flatten(kids) {
			fn := FieldName(c.Name)
			if o, dup := names[fn]; dup {
				why = fmt.Sprintf("%s/%s and %s map to the same field name", path, c.Name, o)
			}
			names[fn] = c.Name
			switch c.Kind {
			case Leaf, LeafList:
				ok := false
				for _, t := range GoTypes(m) {
					if t == c.Type.Base {
						ok = true
					}
				}
				if !ok {
					why = fmt.Sprintf("%s/%s: type %s", path, c.Name, c.Type.Base)
				}
			case Container, List:
				visit(c.Children, path+"/"+c.Name)
			}
		}
	}
	visit(s.Top, "")
	return why
}

func NewGoStore(r *rand.Rand, s *Schema, m GoMode, t *DNode) *GoStore {
	g := &GoStore{S: s, Mode: m, Repr: map[*SNode]string{}, typ: map[*SNode]reflect.Type{}}
	// representation of every list
	s.Walk(func(n *SNode) {
		if n.Kind != List {
			return
		}
		single := len(n.Keys) == 1
		if m.Shape == "map" {
			g.Repr[n] = ReprSliceMap
			// keyed maps for the key types the library itself builds typed maps for (nodeutil create / DoNewObject)
			if single && r.Intn(2) == 0 {
				switch n.Child(n.Keys[0]).Type.Base {
				case "string", "int32", "int64":
					g.Repr[n] = ReprMap
				}
			}
			return
		}
		opts := []string{ReprSlicePtr}
		if m.API == "reflect" {
			opts = append(opts, ReprSliceVal)
		}
		if single {
			kt := n.Child(n.Keys[0]).Type.Base
			if kt == "string" || kt == "int32" && m.API == "reflect" || (m.API == "node" && (kt == "int32" || kt == "int64")) {
				opts = append(opts, ReprMap)
			}
		}
		g.Repr[n] = opts[r.Intn(len(opts))]
		if m.API == "reflect" && r.Intn(3) == 0 {
			g.Repr[n] = ReprSliceVal
		}
	})
	if m.Shape == "struct" {
		rt := g.structType(nil, s.Top)
		g.Root = reflect.New(rt)
	} else {
		g.Root = reflect.ValueOf(map[string]interface{}{})
	}
	if t != nil {
		g.fill(g.Root, s.Top, t)
	}
	if m.API == "node" && r.Intn(3) == 0 {
		g.Hooks = HookSets[1+r.Intn(len(HookSets)-1)]
	}
	return g
}

func (g *GoStore) structType(owner *SNode, kids []*SNode) reflect.Type {
	if owner != nil {
		if t, ok := g.typ[owner]; ok {
			return t
		}
	}
	var fields []reflect.StructField
	for _, c := range flatten(kids) {
		f := reflect.StructField{Name: FieldName(c.Name)}
		switch c.Kind {
		case Leaf:
			f.Type = goLeafType(c.Type)
		case LeafList:
			f.Type = goLeafListType(c.Type)
		case Container:
			f.Type = reflect.PointerTo(g.structType(c, c.Children))
		case List:
			et := g.structType(c, c.Children)
			switch g.Repr[c] {
			case ReprSlicePtr:
				f.Type = reflect.SliceOf(reflect.PointerTo(et))
			case ReprSliceVal:
				f.Type = reflect.SliceOf(et)
			case ReprMap:
				f.Type = reflect.MapOf(g.mapKeyType(c), reflect.PointerTo(et))
			}
		}
		fields = append(fields, f)
	}
	t := reflect.StructOf(fields)
	if owner != nil {
		g.typ[owner] = t
	}
	return t
}

// the Go type the library uses as map key for this list: the dynamic type of Value() of the key's val.Value
func (g *GoStore) mapKeyType(l *SNode) reflect.Type {
	kt := l.Child(l.Keys[0]).Type
	sample := map[string]string{"string": "a", "int32": "1", "int64": "1"}[kt.Base]
	return reflect.TypeOf(ToVal(kt, &LVal{V: []string{sample}}).Value())
}

func (g *GoStore) goValue(c *SNode, l *LVal) reflect.Value {
	return reflect.ValueOf(ToVal(c.Type, l).Value())
}

// fill writes the model node d into the Go container cont (a map or a pointer to struct)
func (g *GoStore) fill(cont reflect.Value, kids []*SNode, d *DNode) {
	set := func(c *SNode, v reflect.Value) {
		if cont.Kind() == reflect.Map {
			cont.SetMapIndex(reflect.ValueOf(c.Name), v)
		} else {
			cont.Elem().FieldByName(FieldName(c.Name)).Set(v)
		}
	}
	for _, c := range flatten(kids) {
		switch c.Kind {
		case Leaf, LeafList:
			if l := d.Leaves[c.Name]; l != nil {
				set(c, g.goValue(c, l))
			}
		case Container:
			k := d.Kids[c.Name]
			if k == nil {
				continue
			}
			child := g.newContainer(c)
			g.fill(child, c.Children, k)
			set(c, child)
		case List:
			l := d.Lists[c.Name]
			if l == nil {
				continue
			}
			set(c, g.buildList(c, l))
		}
	}
}

func (g *GoStore) newContainer(c *SNode) reflect.Value {
	if g.Mode.Shape == "map" {
		return reflect.ValueOf(map[string]interface{}{})
	}
	return reflect.New(g.structType(c, c.Children))
}

func (g *GoStore) buildList(c *SNode, l *DList) reflect.Value {
	switch g.Repr[c] {
	case ReprSliceMap:
		out := make([]map[string]interface{}, 0, len(l.Entries))
		for _, e := range l.Entries {
			m := map[string]interface{}{}
			g.fill(reflect.ValueOf(m), c.Children, e)
			out = append(out, m)
		}
		return reflect.ValueOf(out)
	case ReprSlicePtr, ReprSliceVal:
		et := g.structType(c, c.Children)
		st := reflect.SliceOf(reflect.PointerTo(et))
		if g.Repr[c] == ReprSliceVal {
			st = reflect.SliceOf(et)
		}
		// full capacity, like a slice literal
		out := reflect.MakeSlice(st, 0, len(l.Entries))
		for _, e := range l.Entries {
			p := reflect.New(et)
			g.fill(p, c.Children, e)
			if g.Repr[c] == ReprSliceVal {
				out = reflect.Append(out, p.Elem())
			} else {
				out = reflect.Append(out, p)
			}
		}
		return out
	case ReprMap:
		kc := c.Child(c.Keys[0])
		if g.Mode.Shape == "map" {
			out := reflect.MakeMap(reflect.MapOf(g.mapKeyType(c), reflect.TypeOf((*interface{})(nil)).Elem()))
			for _, e := range l.Entries {
				m := map[string]interface{}{}
				g.fill(reflect.ValueOf(m), c.Children, e)
				out.SetMapIndex(reflect.ValueOf(ToVal(kc.Type, e.Leaves[kc.Name]).Value()), reflect.ValueOf(m))
			}
			return out
		}
		et := g.structType(c, c.Children)
		out := reflect.MakeMap(reflect.MapOf(g.mapKeyType(c), reflect.PointerTo(et)))
		for _, e := range l.Entries {
			p := reflect.New(et)
			g.fill(p, c.Children, e)
			out.SetMapIndex(reflect.ValueOf(ToVal(kc.Type, e.Leaves[kc.Name]).Value()), p)
		}
		return out
	}
	panic("gostore: no representation for list " + c.Name)
}

func (g *GoStore) Node() node.Node {
	if g.Mode.API == "reflect" {
		return nodeutil.ReflectChild(g.Root.Interface())
	}
	n := &nodeutil.Node{Object: g.Root.Interface()}
	if g.Hooks != "" {
		g.applyHooks(n)
	}
	return n
}

func (g *GoStore) Browser() *node.Browser { return node.NewBrowser(g.S.Mod, g.Node()) }

// ---------------------------------------------------------------------------------------------
// direct read

func deref(v reflect.Value) reflect.Value {
	for v.IsValid() && (v.Kind() == reflect.Interface || v.Kind() == reflect.Pointer) {
		if v.IsNil() {
			return reflect.Value{}
		}
		v = v.Elem()
	}
	return v
}

func goScalar(t *SType, v reflect.Value) (string, error) {
	v = deref(v)
	if !v.IsValid() {
		return "", fmt.Errorf("nil value")
	}
	if v.CanInterface() {
		switch x := v.Interface().(type) {
		case val.Enum:
			return x.Label, nil
		case val.IdentRef:
			return x.Label, nil
		}
	}
	switch v.Kind() {
	case reflect.Int, reflect.Int8, reflect.Int16, reflect.Int32, reflect.Int64:
		return strconv.FormatInt(v.Int(), 10), nil
	case reflect.Uint, reflect.Uint8, reflect.Uint16, reflect.Uint32, reflect.Uint64:
		return strconv.FormatUint(v.Uint(), 10), nil
	case reflect.Float64, reflect.Float32:
		return CanonDecimal(v.Float()), nil
	case reflect.String:
		return v.String(), nil
	case reflect.Bool:
		return strconv.FormatBool(v.Bool()), nil
	}
	return "", fmt.Errorf("Go value of kind %s (%s) for a leaf of type %s", v.Kind(), v.Type(), t.Base)
}

// Snapshot reads the Go values into a model tree. In struct shape a zero value is an unset leaf.
func (g *GoStore) Snapshot() (*DNode, error) {
	return g.read(g.Root, nil, g.S.Top, "")
}

func (g *GoStore) read(cont reflect.Value, owner *SNode, kids []*SNode, path string) (*DNode, error) {
	d := NewDNode(owner)
	cont = deref(cont)
	if !cont.IsValid() {
		return d, nil
	}
	get := func(c *SNode) reflect.Value {
		if cont.Kind() == reflect.Map {
			return cont.MapIndex(reflect.ValueOf(c.Name))
		}
		return cont.FieldByName(FieldName(c.Name))
	}
	if cont.Kind() == reflect.Map {
		// names the schema does not know
		known := map[string]bool{}
		for _, c := range flatten(kids) {
			known[c.Name] = true
		}
		for _, k := range cont.MapKeys() {
			if k = deref(k); k.Kind() != reflect.String || !known[k.String()] {
				return nil, fmt.Errorf("%s: Go map holds key %v the schema does not define here", path, k)
			}
		}
	} else if cont.Kind() != reflect.Struct {
		return nil, fmt.Errorf("%s: Go value of kind %s where a container is expected", path, cont.Kind())
	}
	for _, c := range flatten(kids) {
		raw := get(c)
		p := path + "/" + c.Name
		switch c.Kind {
		case Leaf:
			if !raw.IsValid() {
				continue
			}
			if cont.Kind() == reflect.Struct && raw.IsZero() && !(owner != nil && owner.Kind == List && c.IsKey()) {
				continue
			}
			s, err := goScalar(c.Type, raw)
			if err != nil {
				return nil, fmt.Errorf("%s: %v", p, err)
			}
			d.Leaves[c.Name] = &LVal{V: []string{s}}
		case LeafList:
			raw = deref(raw)
			if !raw.IsValid() {
				continue
			}
			if raw.CanInterface() {
				switch x := raw.Interface().(type) {
				case val.EnumList:
					raw = reflect.ValueOf([]val.Enum(x))
				case val.IdentRefList:
					raw = reflect.ValueOf([]val.IdentRef(x))
				}
			}
			if raw.Kind() != reflect.Slice {
				return nil, fmt.Errorf("%s: Go value of kind %s where a leaf-list is expected", p, raw.Kind())
			}
			if raw.Len() == 0 && cont.Kind() == reflect.Struct {
				continue
			}
			l := &LVal{List: true, V: []string{}}
			for i := 0; i < raw.Len(); i++ {
				s, err := goScalar(c.Type, raw.Index(i))
				if err != nil {
					return nil, fmt.Errorf("%s[%d]: %v", p, i, err)
				}
				l.V = append(l.V, s)
			}
			d.Leaves[c.Name] = l
		case Container:
			raw = deref(raw)
			if !raw.IsValid() {
				continue
			}
			k, err := g.read(raw, c, c.Children, p)
			if err != nil {
				return nil, err
			}
			d.Kids[c.Name] = k
		case List:
			raw = deref(raw)
			if !raw.IsValid() {
				continue
			}
			l := &DList{S: c}
			switch raw.Kind() {
			case reflect.Slice:
				if raw.IsNil() {
					continue
				}
				for i := 0; i < raw.Len(); i++ {
					ev := deref(raw.Index(i))
					if !ev.IsValid() {
						return nil, fmt.Errorf("%s[%d]: nil entry", p, i)
					}
					e, err := g.read(ev, c, c.Children, fmt.Sprintf("%s[%d]", p, i))
					if err != nil {
						return nil, err
					}
					l.Entries = append(l.Entries, e)
				}
			case reflect.Map:
				if raw.IsNil() {
					continue
				}
				keys := raw.MapKeys()
				type ke struct {
					k string
					e *DNode
				}
				var es []ke
				for _, k := range keys {
					ev := deref(raw.MapIndex(k))
					ks := fmt.Sprint(deref(k).Interface())
					if !ev.IsValid() {
						return nil, fmt.Errorf("%s[%s]: nil entry", p, ks)
					}
					e, err := g.read(ev, c, c.Children, fmt.Sprintf("%s[%s]", p, ks))
					if err != nil {
						return nil, err
					}
					// the map index must be the key leaf
					if kl := e.Leaves[c.Keys[0]]; kl == nil || kl.V[0] != ks {
						if !(kl == nil && g.Mode.Shape == "struct" && (ks == "0" || ks == "")) {
							return nil, fmt.Errorf("%s: entry stored under map index %q holds key leaf %s", p, ks, kl)
						}
					}
					es = append(es, ke{ks, e})
				}
				sort.Slice(es, func(i, j int) bool { return es[i].k < es[j].k })
				for _, x := range es {
					l.Entries = append(l.Entries, x.e)
				}
			default:
				return nil, fmt.Errorf("%s: Go value of kind %s where a list is expected", p, raw.Kind())
			}
			d.Lists[c.Name] = l
		}
	}
	return d, nil
}

// ZeroNormalize drops, in a copy of d, every leaf whose value is the Go zero value of its type and every empty leaf-list:
// what a struct field cannot tell from "unset". Key leaves are kept.
func ZeroNormalize(d *DNode) *DNode {
	c := NewDNode(d.S)
	isKey := map[string]bool{}
	if d.S != nil {
		for _, k := range d.S.Keys {
			isKey[k] = true
		}
	}
	for k, l := range d.Leaves {
		if !isKey[k] {
			if l.List && len(l.V) == 0 {
				continue
			}
			if !l.List && (l.V[0] == "" || l.V[0] == "0" || l.V[0] == "false" || strings.Trim(l.V[0], "0.") == "") {
				continue
			}
		}
		c.Leaves[k] = l.Clone()
	}
	for k, v := range d.Kids {
		c.Kids[k] = ZeroNormalize(v)
	}
	for k, l := range d.Lists {
		nl := &DList{S: l.S}
		for _, e := range l.Entries {
			nl.Entries = append(nl.Entries, ZeroNormalize(e))
		}
		c.Lists[k] = nl
	}
	return c
}

// DropEmptyLists removes, in place, every list without entries: a Go slice or map of length 0 and no list at all are the same thing
// to the reflection nodes (IgnoreEmpty) and to the comparison (EmptyListIsAbsent), so the model does not address them.
func DropEmptyLists(d *DNode) *DNode {
	for k, l := range d.Lists {
		if len(l.Entries) == 0 {
			delete(d.Lists, k)
			continue
		}
		for _, e := range l.Entries {
			DropEmptyLists(e)
		}
	}
	for _, k := range d.Kids {
		DropEmptyLists(k)
	}
	return d
}
