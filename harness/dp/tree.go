package dp

import (
	"fmt"
	"math/rand"
	"sort"
	"strings"
)

// DNode is a container instance, a list entry or the root of a data tree.
type DNode struct {
	S      *SNode // nil for the root
	Leaves map[string]*LVal
	Kids   map[string]*DNode
	Lists  map[string]*DList
}

type DList struct {
	S       *SNode
	Entries []*DNode
}

func NewDNode(s *SNode) *DNode {
	return &DNode{S: s, Leaves: map[string]*LVal{}, Kids: map[string]*DNode{}, Lists: map[string]*DList{}}
}

func (d *DNode) Clone() *DNode {
	c := NewDNode(d.S)
	for k, v := range d.Leaves {
		c.Leaves[k] = v.Clone()
	}
	for k, v := range d.Kids {
		c.Kids[k] = v.Clone()
	}
	for k, l := range d.Lists {
		nl := &DList{S: l.S}
		for _, e := range l.Entries {
			nl.Entries = append(nl.Entries, e.Clone())
		}
		c.Lists[k] = nl
	}
	return c
}

// Key returns the key tuple of a list entry as canonical strings ("\x00unset" for a missing key leaf).
func (d *DNode) Key() []string {
	var k []string
	for _, name := range d.S.Keys {
		if l := d.Leaves[name]; l != nil {
			k = append(k, l.V[0])
		} else {
			k = append(k, "\x00unset")
		}
	}
	return k
}

func keyEq(a, b []string) bool {
	if len(a) != len(b) {
		return false
	}
	for i := range a {
		if a[i] != b[i] {
			return false
		}
	}
	return true
}

func (l *DList) Find(key []string) (*DNode, int) {
	for i, e := range l.Entries {
		if keyEq(e.Key(), key) {
			return e, i
		}
	}
	return nil, -1
}

// children schema of this node (root uses the schema's top level)
func (d *DNode) schemaKids(s *Schema) []*SNode {
	if d.S == nil {
		return s.TopData()
	}
	return d.S.DataChildren()
}

// Empty reports whether the node holds no data at all.
func (d *DNode) Empty() bool { return len(d.Leaves) == 0 && len(d.Kids) == 0 && len(d.Lists) == 0 }

// Dump renders the tree canonically (schema order, list entries in order) for comparison and witnesses.
func (d *DNode) Dump(s *Schema) string {
	var b strings.Builder
	d.dump(s, &b, "")
	return b.String()
}

func (d *DNode) dump(s *Schema, b *strings.Builder, ind string) {
	for _, c := range d.schemaKids(s) {
		switch c.Kind {
		case Leaf, LeafList:
			if l := d.Leaves[c.Name]; l != nil {
				fmt.Fprintf(b, "%s%s = %s\n", ind, c.Name, l)
			}
		case Container:
			if k := d.Kids[c.Name]; k != nil {
				fmt.Fprintf(b, "%s%s {\n", ind, c.Name)
				k.dump(s, b, ind+"  ")
				fmt.Fprintf(b, "%s}\n", ind)
			}
		case List:
			if l := d.Lists[c.Name]; l != nil {
				fmt.Fprintf(b, "%s%s [\n", ind, c.Name)
				for _, e := range l.Entries {
					fmt.Fprintf(b, "%s  (%s) {\n", ind, strings.Join(quoteAll(e.Key()), ","))
					e.dump(s, b, ind+"    ")
					fmt.Fprintf(b, "%s  }\n", ind)
				}
				fmt.Fprintf(b, "%s]\n", ind)
			}
		}
	}
	// anything not in the schema is a model corruption: show it
	known := map[string]bool{}
	for _, c := range d.schemaKids(s) {
		known[c.Name] = true
	}
	var extra []string
	for k := range d.Leaves {
		if !known[k] {
			extra = append(extra, "leaf "+k)
		}
	}
	for k := range d.Kids {
		if !known[k] {
			extra = append(extra, "container "+k)
		}
	}
	for k := range d.Lists {
		if !known[k] {
			extra = append(extra, "list "+k)
		}
	}
	sort.Strings(extra)
	for _, e := range extra {
		fmt.Fprintf(b, "%s!!not-in-schema %s\n", ind, e)
	}
}

func quoteAll(s []string) []string {
	out := make([]string, len(s))
	for i, x := range s {
		out[i] = fmt.Sprintf("%q", x)
	}
	return out
}

// CmpOpts tune tree comparison for documented store limits.
type CmpOpts struct {
	// IgnoreListOrder compares list entries as sets (stores that keep lists in maps order by key).
	IgnoreListOrder bool
	// EmptyListIsAbsent treats a list without entries like an absent list.
	EmptyListIsAbsent bool
	// EmptyContainerIsAbsent treats a non-presence container without content like an absent one.
	EmptyContainerIsAbsent bool
	// DefaultsMayAppear lets the actual tree carry a leaf equal to its schema default where expected has none.
	DefaultsMayAppear bool
}

// Diff returns human-readable differences between expected and actual ("" = equal).
func Diff(s *Schema, exp, act *DNode, o CmpOpts) string {
	var out []string
	diff(s, exp, act, o, "", &out)
	if len(out) > 12 {
		out = append(out[:12], fmt.Sprintf("... %d more", len(out)-12))
	}
	return strings.Join(out, "\n")
}

func (d *DNode) effectivelyEmpty(s *Schema, o CmpOpts) bool {
	if len(d.Leaves) > 0 {
		if !o.DefaultsMayAppear {
			return false
		}
		for k, l := range d.Leaves {
			var sn *SNode
			for _, c := range d.schemaKids(s) {
				if c.Name == k {
					sn = c
				}
			}
			if sn == nil || sn.Default == nil || l.List || l.V[0] != *sn.Default {
				return false
			}
		}
	}
	for _, k := range d.Kids {
		if !o.EmptyContainerIsAbsent || (k.S != nil && k.S.Presence) || !k.effectivelyEmpty(s, o) {
			return false
		}
	}
	for _, l := range d.Lists {
		if !o.EmptyListIsAbsent || len(l.Entries) > 0 {
			return false
		}
	}
	return true
}

func diff(s *Schema, exp, act *DNode, o CmpOpts, path string, out *[]string) {
	for _, c := range exp.schemaKids(s) {
		p := path + "/" + c.Name
		switch c.Kind {
		case Leaf, LeafList:
			e, a := exp.Leaves[c.Name], act.Leaves[c.Name]
			if e.Equal(a) {
				continue
			}
			if e == nil && a != nil && o.DefaultsMayAppear && c.Default != nil && !a.List && a.V[0] == *c.Default {
				continue
			}
			*out = append(*out, fmt.Sprintf("%s: expected %s, actual %s", p, e, a))
		case Container:
			e, a := exp.Kids[c.Name], act.Kids[c.Name]
			switch {
			case e == nil && a == nil:
			case e == nil:
				if o.EmptyContainerIsAbsent && !c.Presence && a.effectivelyEmpty(s, o) {
					continue
				}
				*out = append(*out, fmt.Sprintf("%s: container not expected, actual has it {%s}", p, oneLine(a.Dump(s))))
			case a == nil:
				if o.EmptyContainerIsAbsent && !c.Presence && e.effectivelyEmpty(s, CmpOpts{EmptyContainerIsAbsent: true, EmptyListIsAbsent: o.EmptyListIsAbsent}) {
					continue
				}
				*out = append(*out, fmt.Sprintf("%s: container expected {%s}, actual lacks it", p, oneLine(e.Dump(s))))
			default:
				diff(s, e, a, o, p, out)
			}
		case List:
			e, a := exp.Lists[c.Name], act.Lists[c.Name]
			ne, na := 0, 0
			if e != nil {
				ne = len(e.Entries)
			}
			if a != nil {
				na = len(a.Entries)
			}
			if (e == nil) != (a == nil) && !(o.EmptyListIsAbsent && ne == 0 && na == 0) {
				*out = append(*out, fmt.Sprintf("%s: list presence differs: expected %v (%d entries), actual %v (%d entries)", p, e != nil, ne, a != nil, na))
				continue
			}
			if e == nil || a == nil {
				continue
			}
			if o.IgnoreListOrder {
				used := map[int]bool{}
				for _, ee := range e.Entries {
					ae, i := a.Find(ee.Key())
					if ae == nil {
						*out = append(*out, fmt.Sprintf("%s=%s: entry expected, actual lacks it", p, strings.Join(ee.Key(), ",")))
						continue
					}
					if used[i] {
						*out = append(*out, fmt.Sprintf("%s=%s: duplicate match", p, strings.Join(ee.Key(), ",")))
					}
					used[i] = true
					diff(s, ee, ae, o, p+"="+strings.Join(ee.Key(), ","), out)
				}
				for i, ae := range a.Entries {
					if !used[i] {
						*out = append(*out, fmt.Sprintf("%s=%s: entry not expected, actual has it", p, strings.Join(ae.Key(), ",")))
					}
				}
				continue
			}
			if ne != na {
				*out = append(*out, fmt.Sprintf("%s: expected %d entries %v, actual %d entries %v", p, ne, keysOf(e), na, keysOf(a)))
				continue
			}
			for i := range e.Entries {
				if !keyEq(e.Entries[i].Key(), a.Entries[i].Key()) {
					*out = append(*out, fmt.Sprintf("%s[%d]: expected key %q, actual key %q (order %v vs %v)", p, i, e.Entries[i].Key(), a.Entries[i].Key(), keysOf(e), keysOf(a)))
					continue
				}
				diff(s, e.Entries[i], a.Entries[i], o, p+"="+strings.Join(e.Entries[i].Key(), ","), out)
			}
		}
	}
	// extras in actual that the schema does not know at this level
	known := map[string]bool{}
	for _, c := range exp.schemaKids(s) {
		known[c.Name] = true
	}
	for k := range act.Leaves {
		if !known[k] {
			*out = append(*out, fmt.Sprintf("%s/%s: actual holds a leaf the schema does not define here", path, k))
		}
	}
	for k := range act.Kids {
		if !known[k] {
			*out = append(*out, fmt.Sprintf("%s/%s: actual holds a container the schema does not define here", path, k))
		}
	}
	for k := range act.Lists {
		if !known[k] {
			*out = append(*out, fmt.Sprintf("%s/%s: actual holds a list the schema does not define here", path, k))
		}
	}
}

func oneLine(s string) string {
	s = strings.ReplaceAll(strings.TrimSpace(s), "\n", "; ")
	if len(s) > 200 {
		s = s[:200] + "..."
	}
	return s
}

func keysOf(l *DList) []string {
	var out []string
	for _, e := range l.Entries {
		out = append(out, strings.Join(e.Key(), ","))
	}
	return out
}

// ---------------------------------------------------------------------------------------------
// data generator

type DataOpts struct {
	Hostile     bool    // hostile strings (also as keys)
	PSet        float64 // probability that an optional leaf is set
	PKid        float64 // probability that a container exists
	MaxEntries  int
	EmptyLists  bool // allow existing-but-empty lists
	OnlyConfig  bool
	NoDefaultEq bool // never set a leaf to exactly its default
	Skip        func(n *SNode) bool
	Strings     []string // overrides the hostile string catalog
}

func DefaultData() DataOpts { return DataOpts{PSet: 0.6, PKid: 0.7, MaxEntries: 3} }

// GenTree draws a data tree conforming to the schema.
func GenTree(r *rand.Rand, s *Schema, o DataOpts) *DNode {
	root := NewDNode(nil)
	fill(r, s, root, s.Top, o)
	return root
}

// chooseCases picks, for the given schema children, which data nodes are eligible (one case per choice).
func chooseCases(r *rand.Rand, cs []*SNode) []*SNode {
	var out []*SNode
	for _, c := range cs {
		switch c.Kind {
		case Choice:
			if len(c.Children) == 0 || r.Intn(5) == 0 {
				continue // no case selected
			}
			kase := c.Children[r.Intn(len(c.Children))]
			out = append(out, chooseCases(r, kase.Children)...)
		case Case:
			out = append(out, chooseCases(r, c.Children)...)
		default:
			out = append(out, c)
		}
	}
	return out
}

func randScalar(r *rand.Rand, t *SType, hostile bool, o DataOpts) string {
	if hostile && t.Base == "string" && o.Strings != nil {
		return o.Strings[r.Intn(len(o.Strings))]
	}
	return RandScalar(r, t, hostile)
}

func fill(r *rand.Rand, s *Schema, d *DNode, schemaKids []*SNode, o DataOpts) {
	for _, c := range chooseCases(r, schemaKids) {
		if o.OnlyConfig && !c.Config {
			continue
		}
		if o.Skip != nil && o.Skip(c) {
			continue
		}
		switch c.Kind {
		case Leaf:
			if c.IsKey() {
				continue // set by the list generator
			}
			if r.Float64() < o.PSet {
				v := randScalar(r, c.Type, o.Hostile && r.Intn(2) == 0, o)
				if o.NoDefaultEq && c.Default != nil && v == *c.Default {
					continue
				}
				d.Leaves[c.Name] = &LVal{V: []string{v}}
			}
		case LeafList:
			if r.Float64() < o.PSet {
				n := 1 + r.Intn(3)
				l := &LVal{List: true, V: []string{}}
				seen := map[string]bool{}
				for i := 0; i < n; i++ {
					v := randScalar(r, c.Type, o.Hostile && r.Intn(2) == 0, o)
					if seen[v] {
						continue
					}
					seen[v] = true
					l.V = append(l.V, v)
				}
				if !c.Config && len(l.V) > 0 && r.Intn(2) == 0 {
					// state data: a leaf-list may repeat values (RFC 7950 7.7: unique only in configuration)
					l.V = append(l.V, l.V[r.Intn(len(l.V))])
				}
				d.Leaves[c.Name] = l
			}
		case Container:
			if r.Float64() < o.PKid {
				k := NewDNode(c)
				fill(r, s, k, c.Children, o)
				d.Kids[c.Name] = k
			}
		case List:
			if r.Float64() < o.PKid {
				l := &DList{S: c}
				n := r.Intn(o.MaxEntries + 1)
				if n == 0 && !o.EmptyLists {
					n = 1
				}
				for i := 0; i < n; i++ {
					e := NewDNode(c)
					for _, kn := range c.Keys {
						ks := c.Child(kn)
						hostile := o.Hostile && ks.Type.Base == "string" && r.Intn(2) == 0
						v := randScalar(r, ks.Type, hostile, o)
						if ks.Type.Base == "string" && v == "" {
							v = "k"
						}
						if len(c.Keys) > 1 && len(l.Entries) > 0 && r.Intn(2) == 0 {
							// entries of a compound key often share a part: only the whole tuple tells them apart
							v = l.Entries[r.Intn(len(l.Entries))].Leaves[kn].V[0]
						}
						e.Leaves[kn] = &LVal{V: []string{v}}
					}
					if dup, _ := l.Find(e.Key()); dup != nil {
						continue
					}
					fill(r, s, e, c.Children, o)
					l.Entries = append(l.Entries, e)
				}
				if len(l.Entries) > 0 || o.EmptyLists {
					d.Lists[c.Name] = l
				}
			}
		}
	}
}

// Count returns the number of leaves, containers and list entries in the tree.
func (d *DNode) Count() (leaves, conts, entries int) {
	leaves = len(d.Leaves)
	for _, k := range d.Kids {
		a, b, c := k.Count()
		leaves, conts, entries = leaves+a, conts+b+1, entries+c
	}
	for _, l := range d.Lists {
		for _, e := range l.Entries {
			a, b, c := e.Count()
			leaves, conts, entries = leaves+a, conts+b, entries+c+1
		}
	}
	return
}

// Shape is a coarse fingerprint of a tree: which schema paths hold data and how many entries.
func (d *DNode) Shape() string {
	var parts []string
	var rec func(n *DNode, p string)
	rec = func(n *DNode, p string) {
		for k, l := range n.Leaves {
			if l.List {
				parts = append(parts, fmt.Sprintf("%s/%s[%d]", p, k, len(l.V)))
			} else {
				parts = append(parts, p+"/"+k)
			}
		}
		for k, c := range n.Kids {
			parts = append(parts, p+"/"+k+"{}")
			rec(c, p+"/"+k)
		}
		for k, l := range n.Lists {
			parts = append(parts, fmt.Sprintf("%s/%s#%d", p, k, len(l.Entries)))
			for _, e := range l.Entries {
				rec(e, p+"/"+k)
			}
		}
	}
	rec(d, "")
	sort.Strings(parts)
	// de-duplicate repeated entry shapes
	var out []string
	for i, x := range parts {
		if i == 0 || parts[i-1] != x {
			out = append(out, x)
		}
	}
	return strings.Join(out, " ")
}

// Derive builds a source tree related to t (for merge workloads): a clone of t in which subtrees are
// randomly dropped, leaves changed or unset, and new containers / entries added, so that every overlap
// class (disjoint, subset, superset, same keys different leaves, nested) occurs.
func Derive(r *rand.Rand, s *Schema, t *DNode, kids []*SNode, o DataOpts) *DNode {
	d := derive(r, s, t, kids, o)
	normalizeChoices(r, d, kids)
	if t.S != nil && t.S.Kind == List {
		// an entry keeps its identity
		for _, kn := range t.S.Keys {
			if l := t.Leaves[kn]; l != nil {
				d.Leaves[kn] = l.Clone()
			}
		}
	}
	return d
}

func derive(r *rand.Rand, s *Schema, t *DNode, kids []*SNode, o DataOpts) *DNode {
	fresh := NewDNode(t.S)
	fill(r, s, fresh, kids, o)
	out := NewDNode(t.S)
	mode := r.Intn(6)
	switch mode {
	case 0:
		return fresh // unrelated
	case 1:
		return out // empty source
	}
	for _, c := range flatten(kids) {
		keep := r.Intn(3) != 0
		switch c.Kind {
		case Leaf, LeafList:
			if c.IsKey() {
				if l := t.Leaves[c.Name]; l != nil {
					out.Leaves[c.Name] = l.Clone()
				}
				continue
			}
			switch {
			case keep && t.Leaves[c.Name] != nil && r.Intn(2) == 0:
				out.Leaves[c.Name] = t.Leaves[c.Name].Clone()
			case fresh.Leaves[c.Name] != nil && r.Intn(2) == 0:
				out.Leaves[c.Name] = fresh.Leaves[c.Name]
			}
		case Container:
			tk := t.Kids[c.Name]
			switch {
			case tk != nil && keep:
				out.Kids[c.Name] = Derive(r, s, tk, c.Children, o)
			case fresh.Kids[c.Name] != nil && r.Intn(2) == 0:
				out.Kids[c.Name] = fresh.Kids[c.Name]
			}
		case List:
			tl := t.Lists[c.Name]
			fl := fresh.Lists[c.Name]
			if (tl == nil || !keep) && (fl == nil || r.Intn(2) == 0) {
				continue
			}
			nl := &DList{S: c}
			if tl != nil && keep {
				for _, e := range tl.Entries {
					if r.Intn(3) != 0 {
						nl.Entries = append(nl.Entries, Derive(r, s, e, c.Children, o))
					}
				}
			}
			if fl != nil {
				for _, e := range fl.Entries {
					if dup, _ := nl.Find(e.Key()); dup == nil && r.Intn(2) == 0 {
						// new entries go anywhere between the existing ones sometimes: source order is not target order
						if r.Intn(3) == 0 {
							pos := r.Intn(len(nl.Entries) + 1)
							nl.Entries = append(nl.Entries[:pos], append([]*DNode{e}, nl.Entries[pos:]...)...)
						} else {
							nl.Entries = append(nl.Entries, e)
						}
					}
				}
			}
			if len(nl.Entries) > 0 || o.EmptyLists {
				out.Lists[c.Name] = nl
			}
		}
	}
	return out
}

// normalizeChoices makes a tree conform to "one case per choice": where several cases of a choice hold
// data, one is kept (chosen by r) and the data of the others is dropped.
func normalizeChoices(r *rand.Rand, d *DNode, kids []*SNode) {
	var scan func(cs []*SNode)
	scan = func(cs []*SNode) {
		for _, c := range cs {
			switch c.Kind {
			case Choice:
				var with []*SNode
				for _, k := range c.Children {
					if hasData(d, k) {
						with = append(with, k)
					}
				}
				if len(with) > 1 {
					keep := with[r.Intn(len(with))]
					for _, k := range with {
						if k != keep {
							clearData(d, k)
						}
					}
				}
				for _, k := range c.Children {
					scan(k.Children)
				}
			case Case:
				scan(c.Children)
			}
		}
	}
	scan(kids)
	for _, k := range d.Kids {
		normalizeChoices(r, k, k.S.Children)
	}
	for _, l := range d.Lists {
		for _, e := range l.Entries {
			normalizeChoices(r, e, e.S.Children)
		}
	}
}

// FillList generates list c (with at least one entry) into d.
func FillList(r *rand.Rand, s *Schema, d *DNode, c *SNode, o DataOpts) {
	o.PKid = 1
	for tries := 0; tries < 5 && d.Lists[c.Name] == nil; tries++ {
		fill(r, s, d, []*SNode{c}, o)
	}
}
