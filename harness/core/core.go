// Package core defines the contract between property checks, the worker that runs them
// against the real library, and the supervisor that aggregates what the monitors observed.
package core

import (
	"fmt"
	"hash/fnv"
	"math/rand"
	"os"
	"regexp"
	"runtime/debug"
	"sort"
	"strings"
)

// Violation is one refuting observation made by an oracle.
type Violation struct {
	// Sig identifies the defect class (see DESIGN 1.4): stable across seeds, narrow in semantics.
	Sig string `json:"sig"`
	// Detail is the human readable witness: inputs, observed vs expected.
	Detail string `json:"detail"`
}

// Result is what a worker reports for one case.
type Result struct {
	Case int `json:"case"`
	// Evals is the number of oracle evaluations made in the case (a case may batch many inputs).
	Evals int `json:"evals"`
	// Shapes are fingerprints of the distinct non-trivial inputs/executions observed in this case.
	Shapes []string `json:"shapes,omitempty"`
	// Counters are coverage dimensions measured by the monitors (events by kind, ...).
	Counters map[string]int `json:"counters,omitempty"`
	// Violations found by the oracle.
	Violations []Violation `json:"violations,omitempty"`
	// Sample is a readable description of (part of) the case for the evidence file.
	Sample interface{} `json:"sample,omitempty"`
	// Inconclusive, when non-empty, says why the case could not be decided.
	Inconclusive string `json:"inconclusive,omitempty"`
	// CPUms is the cpu time used by the case as measured by the worker.
	CPUms int64 `json:"cpu_ms,omitempty"`
}

// Ctx is handed to a property for every case.
type Ctx struct {
	Prop string
	Tier string
	Seed int64
	Case int
	Rand *rand.Rand
	R    *Result
	// shape de-duplication inside one case
	shapes map[string]bool
	// cap on violations per signature per case
	perSig map[string]int
}

func NewCtx(prop, tier string, seed int64, idx int) *Ctx {
	h := fnv.New64a()
	fmt.Fprintf(h, "%s/%d/%d", prop, seed, idx)
	c := &Ctx{Prop: prop, Tier: tier, Seed: seed, Case: idx,
		Rand:   rand.New(rand.NewSource(int64(h.Sum64()))),
		R:      &Result{Case: idx, Counters: map[string]int{}},
		shapes: map[string]bool{}, perSig: map[string]int{}}
	return c
}

func (c *Ctx) Thorough() bool { return c.Tier == "thorough" }

// Eval counts one oracle evaluation.
func (c *Ctx) Eval() { c.R.Evals++ }

// ProgressHook is set by the worker: a case that runs many inputs calls Progress() before each input
// so that the cpu-time watchdog measures one input, not the whole batch.
var ProgressHook func()

func (c *Ctx) Progress() {
	if ProgressHook != nil {
		ProgressHook()
	}
}

// Count increments a coverage counter.
func (c *Ctx) Count(key string) { c.R.Counters[key]++ }
func (c *Ctx) CountN(key string, n int) {
	if n != 0 {
		c.R.Counters[key] += n
	}
}

// Shape records a distinct non-trivial observation fingerprint.
func (c *Ctx) Shape(format string, a ...interface{}) {
	s := fmt.Sprintf(format, a...)
	if len(s) > 120 {
		h := fnv.New64a()
		h.Write([]byte(s))
		s = fmt.Sprintf("%s#%x", s[:80], h.Sum64())
	}
	if !c.shapes[s] {
		c.shapes[s] = true
		c.R.Shapes = append(c.R.Shapes, s)
	}
}

// Violate records a violation. At most 3 witnesses per signature per case are kept.
func (c *Ctx) Violate(sig string, format string, a ...interface{}) {
	sig = c.Prop + "/" + sig
	c.perSig[sig]++
	c.Count("violations_raw")
	if c.perSig[sig] > 3 {
		return
	}
	d := fmt.Sprintf(format, a...)
	if len(d) > 4000 && os.Getenv("VERIF_FULL") == "" {
		d = d[:4000] + "...(truncated)"
	}
	c.R.Violations = append(c.R.Violations, Violation{Sig: sig, Detail: d})
}

func (c *Ctx) SetSample(s interface{}) {
	if c.R.Sample == nil {
		c.R.Sample = s
	}
}

// Property is one check.
type Property interface {
	ID() string
	// Level is the MANIFEST level category.
	Level() string
	// Rule describes generation and the non-triviality/distinctness rule (goes into evidence).
	Rule() string
	// NumCases is a pure function of tier and seed.
	NumCases(tier string, seed int64) int
	// Run executes case idx under the monitors. It may panic: the worker turns that into a crash
	// observation attributed to the case.
	Run(c *Ctx, idx int)
}

// Optional interfaces.

// Exhaustive properties enumerate a finite sub-space completely; reported in evidence.
type Exhaustive interface{ Exhaustive(tier string) bool }

// MinEvals is the floor of evaluations under which a run is "saw nothing" (exit 3).
type MinEvals interface{ MinEvals(tier string) int }

// Assumptions listed in the evidence file.
type Assumer interface{ Assumptions() []string }

// CPUBudget overrides the per-case cpu budget in milliseconds.
type CPUBudget interface{ CPUBudgetMs(tier string) int64 }

// Batch is the number of cases per worker process start (crash-heavy properties use small ones).
type Batcher interface{ Batch(tier string) int }

var registry = map[string]Property{}

func Register(p Property)       { registry[p.ID()] = p }
func Lookup(id string) Property { return registry[id] }
func IDs() []string {
	var ids []string
	for k := range registry {
		ids = append(ids, k)
	}
	sort.Strings(ids)
	return ids
}

// ---- crash signatures ----

var digits = regexp.MustCompile(`[0-9]+`)
var hexaddr = regexp.MustCompile(`0x[0-9a-fA-F]+`)
var quoted = regexp.MustCompile(`'[^']*'|"[^"]*"`)

// PanicClass reduces a panic value to a class string without volatile parts.
func PanicClass(v interface{}) string {
	s := fmt.Sprint(v)
	switch {
	case strings.Contains(s, "index out of range"):
		return "index-out-of-range"
	case strings.Contains(s, "slice bounds out of range"):
		return "slice-bounds"
	case strings.Contains(s, "nil pointer dereference"):
		return "nil-deref"
	case strings.Contains(s, "interface conversion"):
		if strings.Contains(s, "interface is nil") || strings.Contains(s, "is nil, not") {
			return "interface-conversion-nil"
		}
		return "interface-conversion"
	case strings.Contains(s, "nil map"):
		return "nil-map-write"
	case strings.Contains(s, "divide by zero"):
		return "divide-by-zero"
	case strings.Contains(s, "reflect:") || strings.Contains(s, "reflect."):
		s = hexaddr.ReplaceAllString(s, "X")
		s = digits.ReplaceAllString(s, "N")
		if len(s) > 60 {
			s = s[:60]
		}
		return "reflect:" + strings.ReplaceAll(s, " ", "_")
	}
	s = hexaddr.ReplaceAllString(s, "X")
	s = quoted.ReplaceAllString(s, "Q")
	s = digits.ReplaceAllString(s, "N")
	if len(s) > 50 {
		s = s[:50]
	}
	return "explicit:" + strings.ReplaceAll(strings.TrimSpace(s), " ", "_")
}

var frameRe = regexp.MustCompile(`(?m)^(github\.com/freeconf/yang/[^\s(]+(?:\([^)]*\))?[^\s(]*)\(`)

// TopRepoFrame returns the innermost stack frame that belongs to the library (function name only).
func TopRepoFrame(stack string) string {
	for _, line := range strings.Split(stack, "\n") {
		if strings.HasPrefix(line, "github.com/freeconf/yang/") {
			fn := line
			if i := strings.LastIndex(fn, "("); i > 0 {
				fn = fn[:i]
			}
			fn = strings.TrimPrefix(fn, "github.com/freeconf/yang/")
			// strip generic instantiation noise
			fn = strings.ReplaceAll(fn, "[...]", "")
			return fn
		}
	}
	return "outside-repo"
}

// CrashSig builds the signature of a recovered panic.
func CrashSig(v interface{}, stack string) string {
	return "panic/" + TopRepoFrame(stack) + "/" + PanicClass(v)
}

// Guard runs f and converts a panic into a violation with the crash signature. It returns true if
// f panicked.
func (c *Ctx) Guard(what string, f func()) (panicked bool) {
	defer func() {
		if r := recover(); r != nil {
			panicked = true
			st := string(debug.Stack())
			c.Count("panics")
			c.Violate(CrashSig(r, st), "%s: panic: %v\n%s", what, r, trimStack(st))
		}
	}()
	f()
	return false
}

// Try runs f and returns the recovered panic (value, stack) instead of recording it.
func Try(f func()) (pv interface{}, stack string) {
	defer func() {
		if r := recover(); r != nil {
			pv = r
			stack = string(debug.Stack())
		}
	}()
	f()
	return nil, ""
}

func trimStack(st string) string {
	lines := strings.Split(st, "\n")
	var out []string
	for _, l := range lines {
		if strings.Contains(l, "runtime/debug.Stack") || strings.Contains(l, "runtime/debug/stack.go") {
			continue
		}
		out = append(out, l)
		if len(out) > 30 {
			break
		}
	}
	return strings.Join(out, "\n")
}

func TrimStack(st string) string { return trimStack(st) }
