// Package walk visits a compiled *meta.Module through its public accessors only and produces a
// canonical, JSON-able dump (maps by sorted key, slices in order). Every accessor family runs under
// recover so that "walking the module does not crash" is observed on every successful load.
package walk

import (
	"encoding/json"
	"fmt"
	"github.com/freeconf/yang/node"
	"reflect"
	"sort"

	"github.com/freeconf/yang/meta"
)

type W struct {
	// Panics collects panics raised by accessors: "<where>: <value>"
	Panics []string
	// Problems: by-name lookups (Definition(ident)) that disagree with the listed children
	Problems []string
	Nodes    int
	seen     map[meta.Meta]bool
	depth    int
}

type M = map[string]interface{}

func (w *W) try(where string, f func()) {
	defer func() {
		if r := recover(); r != nil {
			if len(w.Panics) < 10 {
				w.Panics = append(w.Panics, fmt.Sprintf("%s: %v", where, r))
			}
		}
	}()
	f()
}

// Dump renders the module.
func Dump(m *meta.Module) (M, *W) {
	w := &W{seen: map[meta.Meta]bool{}}
	out := M{}
	w.try("module", func() {
		out["ident"] = m.Ident()
		out["namespace"] = m.Namespace()
		out["prefix"] = m.Prefix()
		out["organization"] = m.Organization()
		out["contact"] = m.Contact()
		out["version"] = m.Version()
		out["description"] = m.Description()
		out["reference"] = m.Reference()
	})
	w.try("module.revisions", func() {
		var revs []interface{}
		for _, r := range m.Revisions() {
			revs = append(revs, M{"ident": r.Ident(), "description": r.Description(), "reference": r.Reference(), "ext": w.exts(r)})
		}
		out["revisions"] = revs
	})
	w.try("module.features", func() {
		fs := M{}
		for k, f := range m.Features() {
			fs[k] = M{"ident": f.Ident(), "description": f.Description(), "reference": f.Reference(), "status": fmt.Sprint(f.Status()), "if": w.ifs(f), "ext": w.exts(f)}
		}
		out["features"] = fs
	})
	w.try("module.identities", func() {
		ids := M{}
		for k, id := range m.Identities() {
			ids[k] = w.identity(id)
		}
		out["identities"] = ids
	})
	w.try("module.extensionDefs", func() {
		eds := M{}
		for k, ed := range m.ExtensionDefs() {
			e := M{"ident": ed.Ident(), "description": ed.Description(), "reference": ed.Reference(), "status": fmt.Sprint(ed.Status())}
			if a := ed.Argument(); a != nil {
				e["arg"] = M{"ident": a.Ident(), "yin": a.YinElement()}
			}
			eds[k] = e
		}
		out["extension-defs"] = eds
	})
	w.try("module.imports", func() {
		im := M{}
		for k, i := range m.Imports() {
			name := ""
			if i.Module() != nil {
				name = i.Module().Ident()
			}
			im[k] = M{"prefix": i.Prefix(), "module": name, "revision-date": i.RevisionDate()}
		}
		out["imports"] = im
	})
	w.try("module.includes", func() {
		var inc []interface{}
		for _, i := range m.Includes() {
			inc = append(inc, M{"revision-date": i.RevisionDate()})
		}
		out["includes"] = inc
	})
	w.try("module.typedefs", func() { out["typedefs"] = w.typedefs(m.Typedefs()) })
	w.try("module.ext", func() { out["ext"] = w.exts(m) })
	w.body(out, m)
	return out, w
}

// JSON is the canonical text of a dump.
func JSON(d M) string {
	b, _ := json.Marshal(d)
	return string(b)
}

func (w *W) exts(x meta.HasExtensions) []interface{} {
	var out []interface{}
	w.try("extensions", func() {
		for _, e := range x.Extensions() {
			out = append(out, M{"prefix": e.Prefix(), "ident": e.Ident(), "keyword": e.Keyword(), "arg": e.Argument()})
		}
	})
	return out
}

func (w *W) ifs(x meta.HasIfFeatures) []interface{} {
	var out []interface{}
	for _, f := range x.IfFeatures() {
		out = append(out, f.Expression())
	}
	return out
}

func (w *W) identity(id *meta.Identity) M {
	out := M{"ident": id.Ident(), "description": id.Description(), "reference": id.Reference(), "base-ids": id.BaseIds()}
	var bases, derived []string
	for _, b := range id.Base() {
		bases = append(bases, b.Ident())
	}
	for _, d := range id.DerivedDirect() {
		derived = append(derived, d.Ident())
	}
	sort.Strings(derived)
	out["base"] = bases
	out["derived"] = derived
	return out
}

func (w *W) typedefs(tds map[string]*meta.Typedef) M {
	out := M{}
	for k, td := range tds {
		t := M{"ident": td.Ident(), "description": td.Description(), "reference": td.Reference(), "units": td.Units(), "has-default": td.HasDefault()}
		if td.HasDefault() {
			t["default"] = fmt.Sprint(td.DefaultValue())
		}
		w.try("typedef.type", func() { t["type"] = w.typ(td.Type(), 0) })
		out[k] = t
	}
	return out
}

// Type renders a type.
func (w *W) typ(t *meta.Type, depth int) interface{} {
	if t == nil {
		return nil
	}
	if depth > 8 {
		return "<deep>"
	}
	out := M{"ident": t.Ident(), "format": t.Format().String(), "path": t.Path(), "fraction-digits": t.FractionDigits(), "require-instance": t.RequireInstance(),
		"description": t.Description(), "reference": t.Reference()}

	var ranges, lengths []interface{}
	for _, rs := range [][]*meta.Range{t.Range(), t.Length()} {
		for _, r := range rs {
			for _, e := range r.Entries {
				for _, n := range []meta.RangeNumber{e.Min, e.Max, e.Exact} {
					// the keywords min and max, and only they, are the open bounds
					if n.IsMin() != (n.String() == "min") || n.IsMax() != (n.String() == "max") {
						w.Problems = append(w.Problems, fmt.Sprintf("range-bound-flags: bound %q of %q says IsMin=%v IsMax=%v", n.String(), r.String(), n.IsMin(), n.IsMax()))
					}
				}
			}
		}
	}
	for _, r := range t.Range() {
		ranges = append(ranges, M{"s": r.String(), "error-message": r.ErrorMessage(), "error-app-tag": r.ErrorAppTag(), "description": r.Description()})
	}
	for _, r := range t.Length() {
		lengths = append(lengths, M{"s": r.String(), "error-message": r.ErrorMessage(), "error-app-tag": r.ErrorAppTag()})
	}
	out["range"], out["length"] = ranges, lengths
	var pats []interface{}
	for _, p := range t.Patterns() {
		pats = append(pats, M{"pattern": p.Pattern, "inverted": p.Inverted(), "error-message": p.ErrorMessage(), "error-app-tag": p.ErrorAppTag()})
	}
	out["patterns"] = pats
	var enums []interface{}
	for _, e := range t.Enum() {
		enums = append(enums, M{"label": e.Label, "id": e.Id})
	}
	out["enum"] = enums
	var enumDefs []interface{}
	for _, e := range t.Enums() {
		enumDefs = append(enumDefs, M{"ident": e.Ident(), "value": e.Value(), "description": e.Description()})
	}
	out["enums"] = enumDefs
	var bits []interface{}
	for _, b := range t.Bits() {
		bits = append(bits, M{"ident": b.Ident(), "position": b.Position, "description": b.Description()})
	}
	out["bits"] = bits
	var bases []interface{}
	for _, b := range t.Base() {
		// the library's own lookup of a name nothing has (what converting an unknown identityref value does)
		unknown := meta.FindIdentity([]*meta.Identity{b}, "verif-no-such-identity") != nil
		bases = append(bases, M{"ident": b.Ident(), "closure": identityClosure(b), "finds-unknown": unknown})
	}
	out["base"] = bases
	var union []interface{}
	for _, u := range t.Union() {
		union = append(union, w.typ(u, depth+1))
	}
	out["union"] = union
	out["union-formats"] = fmt.Sprint(t.UnionFormats())
	w.try("type.resolve", func() {
		if r := t.Resolve(); r != nil && r != t {
			out["resolved"] = w.typ(r, depth+1)
		} else if r == nil {
			out["resolved"] = nil
		}
	})
	out["ext"] = w.exts(t)
	return out
}

func identityClosure(b *meta.Identity) []string {
	seen := map[string]bool{}
	var rec func(i *meta.Identity)
	rec = func(i *meta.Identity) {
		if seen[i.Ident()] {
			return
		}
		seen[i.Ident()] = true
		for _, d := range i.DerivedDirect() {
			rec(d)
		}
	}
	rec(b)
	var out []string
	for k := range seen {
		out = append(out, k)
	}
	sort.Strings(out)
	return out
}

func (w *W) body(out M, x interface{}) {
	if hd, ok := x.(meta.HasDataDefinitions); ok {
		w.try("dataDefinitions", func() {
			var kids []interface{}
			for _, d := range hd.DataDefinitions() {
				kids = append(kids, w.node(d, x.(meta.Meta)))
			}
			out["children"] = kids
		})
		w.try("definition-by-name", func() { w.byName(hd) })
	}
	if ha, ok := x.(meta.HasActions); ok {
		w.try("actions", func() {
			acts := M{}
			for k, a := range ha.Actions() {
				acts[k] = w.node(a, x.(meta.Meta))
			}
			out["actions"] = acts
		})
	}
	if hn, ok := x.(meta.HasNotifications); ok {
		w.try("notifications", func() {
			ns := M{}
			for k, n := range hn.Notifications() {
				ns[k] = w.node(n, x.(meta.Meta))
			}
			out["notifications"] = ns
		})
	}
}

func (w *W) node(d meta.Definition, parent meta.Meta) M {
	w.Nodes++
	out := M{"kind": fmt.Sprintf("%T", d)}
	if w.depth > 40 {
		out["truncated"] = "depth"
		return out
	}
	w.try("ident", func() { out["ident"] = d.Ident() })
	// a recursive grouping makes the compiled tree cyclic: expand each object once per path depth 2
	w.try("parent", func() {
		p := d.Parent()
		out["parent-ok"] = p == parent
		if id, ok := p.(meta.Identifiable); ok {
			out["parent"] = id.Ident()
		}
	})
	if w.seen[d] {
		out["revisit"] = true
		if w.depth > 12 {
			return out
		}
	}
	w.seen[d] = true
	w.depth++
	defer func() { w.depth-- }()
	w.try("describable", func() {
		if x, ok := d.(meta.Describable); ok {
			out["description"] = x.Description()
			out["reference"] = x.Reference()
		}
	})
	w.try("config", func() {
		if x, ok := d.(meta.HasConfig); ok {
			out["config"] = x.Config()
			out["config-set"] = x.IsConfigSet()
		}
	})
	w.try("mandatory", func() {
		if x, ok := d.(meta.HasMandatory); ok {
			out["mandatory"] = x.Mandatory()
		}
	})
	w.try("presence", func() {
		if x, ok := d.(meta.HasPresence); ok {
			out["presence"] = x.Presence()
		}
	})
	w.try("status", func() {
		if x, ok := d.(meta.HasStatus); ok {
			out["status"] = fmt.Sprint(x.Status())
		}
	})
	w.try("list-details", func() {
		if x, ok := d.(meta.HasListDetails); ok {
			out["min"] = x.MinElements()
			out["max"] = x.MaxElements()
			out["max-set"] = x.IsMaxElementsSet()
			out["min-set"] = x.IsMinElementsSet()
			out["unbounded"] = x.Unbounded()
			out["ordered-by"] = fmt.Sprint(x.OrderedBy())
		}
	})
	w.try("unique", func() {
		if x, ok := d.(meta.HasUnique); ok {
			out["unique"] = x.Unique()
		}
	})
	w.try("when", func() {
		if x, ok := d.(meta.HasWhen); ok && x.When() != nil {
			out["when"] = x.When().Expression()
		}
	})
	w.try("musts", func() {
		if x, ok := d.(meta.HasMusts); ok {
			var ms []interface{}
			for _, m := range x.Musts() {
				ms = append(ms, M{"expr": m.Expression(), "error-message": m.ErrorMessage(), "error-app-tag": m.ErrorAppTag(), "description": m.Description()})
			}
			out["musts"] = ms
		}
	})
	w.try("if-features", func() {
		if x, ok := d.(meta.HasIfFeatures); ok {
			out["if"] = w.ifs(x)
		}
	})
	w.try("leafable", func() {
		if x, ok := d.(meta.Leafable); ok {
			out["units"] = x.Units()
			out["has-default"] = x.HasDefault()
			if x.HasDefault() {
				out["default"] = fmt.Sprint(x.DefaultValue())
			}
			out["type"] = w.typ(x.Type(), 0)
			// what a request does with the type of a leaf first: convert a value (the outcome is of no interest here, that it ends is)
			w.try("type.convert", func() { node.NewValue(x.Type(), "1") })
		}
	})
	w.try("typedefs", func() {
		if x, ok := d.(meta.HasTypedefs); ok {
			out["typedefs"] = w.typedefs(x.Typedefs())
		}
	})
	w.try("ext", func() { out["ext"] = w.exts(d) })
	switch x := d.(type) {
	case *meta.List:
		w.try("list.key", func() {
			var keys []string
			for _, k := range x.KeyMeta() {
				keys = append(keys, k.Ident())
			}
			out["key"] = keys
		})
	case *meta.Choice:
		w.try("choice.cases", func() {
			cases := M{}
			for _, id := range x.CaseIdents() {
				k := x.Cases()[id]
				cases[id] = w.node(k, x)
			}
			out["cases"] = cases
			out["case-idents"] = x.CaseIdents()
			out["has-default"] = x.HasDefault()
			if x.HasDefault() {
				out["default"] = x.Default()
			}
		})
	case *meta.Rpc:
		w.try("rpc.io", func() {
			if in := x.Input(); in != nil {
				out["input"] = w.node(in, x)
			}
			if o := x.Output(); o != nil {
				out["output"] = w.node(o, x)
			}
		})
	}
	w.body(out, d)
	return out
}

// byName: what Definition(ident) finds below x must be what x lists: its children, and the members of the cases of its choices
// (they are children by name of the data node around the choice). A name the index still knows although the node is gone
// (removed by if-feature or a deviation) is reported, and so is a listed node the index does not find.
func (w *W) byName(x meta.HasDataDefinitions) {
	type finder interface {
		Definition(ident string) meta.Definition
	}
	f, ok := x.(finder)
	if !ok {
		return
	}
	reach := map[string]meta.Definition{}
	allowed := map[string]bool{}
	var rec func(defs []meta.Definition)
	rec = func(defs []meta.Definition) {
		for _, d := range defs {
			allowed[d.Ident()] = true
			if _, dup := reach[d.Ident()]; !dup {
				reach[d.Ident()] = d
			}
			if ch, isChoice := d.(*meta.Choice); isChoice {
				for _, id := range ch.CaseIdents() {
					allowed[id] = true
					if k := ch.Cases()[id]; k != nil {
						rec(k.DataDefinitions())
					}
				}
			}
		}
	}
	rec(x.DataDefinitions())
	where := ""
	if id, ok := x.(meta.Identifiable); ok {
		where = id.Ident()
	}
	report := func(format string, a ...interface{}) {
		if len(w.Problems) < 10 {
			w.Problems = append(w.Problems, fmt.Sprintf(format, a...))
		}
	}
	for name, d := range reach {
		if got := f.Definition(name); got == nil {
			report("index-miss: %s lists %s but Definition(%q) finds nothing", where, name, name)
		} else if got != d {
			if _, isCaseMember := d.Parent().(*meta.ChoiceCase); !isCaseMember {
				report("index-other: Definition(%q) of %s is not the child %s lists", name, where, where)
			}
		}
	}
	// the names the index knows (read by reflection: there is no accessor that lists them)
	v := reflect.ValueOf(x)
	for v.Kind() == reflect.Ptr || v.Kind() == reflect.Interface {
		v = v.Elem()
	}
	if v.Kind() == reflect.Struct {
		if idx := v.FieldByName("dataDefsIndex"); idx.IsValid() && idx.Kind() == reflect.Map {
			for _, k := range idx.MapKeys() {
				if name := k.String(); !allowed[name] {
					report("index-stale: Definition(%q) of %s still finds a node that %s does not have (any more)", name, where, where)
				}
			}
		}
	}
}
