package walk

import (
	"fmt"
	"hash/fnv"
	"reflect"
	"sort"
)

// Fingerprint hashes the whole object graph reachable from v, including unexported fields (read through
// reflection without Interface()). Pointer identity is normalised to visit order, maps are visited by
// sorted key. It is the immutability monitor for C20: equal before and after any use of a compiled module.
func Fingerprint(v interface{}) uint64 {
	h := fnv.New64a()
	ids := map[uintptr]int{}
	var rec func(rv reflect.Value, depth int)
	w := func(format string, a ...interface{}) { fmt.Fprintf(h, format, a...) }
	rec = func(rv reflect.Value, depth int) {
		if !rv.IsValid() {
			w("<invalid>")
			return
		}
		switch rv.Kind() {
		case reflect.Ptr:
			if rv.IsNil() {
				w("nil;")
				return
			}
			p := rv.Pointer()
			if id, seen := ids[p]; seen {
				w("ref%d;", id)
				return
			}
			ids[p] = len(ids)
			w("ptr%d{", ids[p])
			rec(rv.Elem(), depth+1)
			w("}")
		case reflect.Interface:
			if rv.IsNil() {
				w("nil;")
				return
			}
			w("if:%s{", rv.Elem().Type().String())
			rec(rv.Elem(), depth+1)
			w("}")
		case reflect.Struct:
			w("st:%s{", rv.Type().Name())
			for i := 0; i < rv.NumField(); i++ {
				w("%s=", rv.Type().Field(i).Name)
				rec(rv.Field(i), depth+1)
			}
			w("}")
		case reflect.Slice:
			if rv.IsNil() {
				w("nilslice;")
				return
			}
			w("sl%d[", rv.Len())
			for i := 0; i < rv.Len(); i++ {
				rec(rv.Index(i), depth+1)
			}
			w("]")
		case reflect.Array:
			w("ar[")
			for i := 0; i < rv.Len(); i++ {
				rec(rv.Index(i), depth+1)
			}
			w("]")
		case reflect.Map:
			if rv.IsNil() {
				w("nilmap;")
				return
			}
			keys := rv.MapKeys()
			// only string / int keyed maps occur in meta; order by printed key
			sort.Slice(keys, func(i, j int) bool { return keyText(keys[i]) < keyText(keys[j]) })
			w("map%d{", len(keys))
			for _, k := range keys {
				w("%s:", keyText(k))
				if k.Kind() == reflect.Ptr || k.Kind() == reflect.Interface {
					rec(k, depth+1)
				}
				rec(rv.MapIndex(k), depth+1)
			}
			w("}")
		case reflect.String:
			w("%q;", rv.String())
		case reflect.Bool:
			w("%v;", rv.Bool())
		case reflect.Int, reflect.Int8, reflect.Int16, reflect.Int32, reflect.Int64:
			w("%d;", rv.Int())
		case reflect.Uint, reflect.Uint8, reflect.Uint16, reflect.Uint32, reflect.Uint64, reflect.Uintptr:
			w("%d;", rv.Uint())
		case reflect.Float32, reflect.Float64:
			w("%v;", rv.Float())
		case reflect.Func:
			if rv.IsNil() {
				w("nilfunc;")
			} else {
				w("func;")
			}
		default:
			w("<%s>", rv.Kind())
		}
	}
	rec(reflect.ValueOf(v), 0)
	return h.Sum64()
}

func keyText(k reflect.Value) string {
	switch k.Kind() {
	case reflect.String:
		return k.String()
	case reflect.Int, reflect.Int8, reflect.Int16, reflect.Int32, reflect.Int64:
		return fmt.Sprintf("%020d", k.Int())
	case reflect.Ptr, reflect.Interface:
		// identity keyed maps (e.g. sets of definitions): no stable order, use the type name only
		return k.Type().String()
	}
	return fmt.Sprint(k.Kind())
}
