// vcheck: runtime-monitoring checks for freeconf/yang properties C01..C20.
package main

import (
	"fmt"
	"os"

	"verif/core"
	_ "verif/props"
	"verif/sup"
)

func main() {
	if len(os.Args) < 2 {
		fmt.Fprintln(os.Stderr, "usage: vcheck run|worker|replay|list ...")
		os.Exit(2)
	}
	switch os.Args[1] {
	case "run":
		os.Exit(sup.RunMain(os.Args[2:]))
	case "worker":
		os.Exit(sup.WorkerMain(os.Args[2:]))
	case "replay":
		os.Exit(sup.ReplayMain(os.Args[2:]))
	case "case":
		// vcheck case <prop> <tier> <seed> <idx>: run one case in-process, print the result (debugging aid)
		os.Exit(sup.CaseMain(os.Args[2:]))
	case "list":
		for _, id := range core.IDs() {
			fmt.Println(id)
		}
	default:
		fmt.Fprintln(os.Stderr, "unknown command", os.Args[1])
		os.Exit(2)
	}
}
