package sup

import (
	"bufio"
	"encoding/json"
	"fmt"
	"os"
	"runtime/debug"
	"strconv"
	"strings"
	"sync/atomic"
	"syscall"
	"time"

	"verif/core"
)

// Message is one line of the worker -> supervisor protocol (written to fd 3, never to stdout:
// the library logs to stdout/stderr on its own).
type Message struct {
	Begin  *int         `json:"begin,omitempty"`
	Result *core.Result `json:"result,omitempty"`
	Hang   *HangMsg     `json:"hang,omitempty"`
	Done   bool         `json:"done,omitempty"`
}

type HangMsg struct {
	Case  int    `json:"case"`
	Kind  string `json:"kind"` // cpu | memory
	CPUms int64  `json:"cpu_ms"`
	RSSMB int64  `json:"rss_mb"`
	Stack string `json:"stack,omitempty"`
}

func cpuMs() int64 {
	var ru syscall.Rusage
	syscall.Getrusage(syscall.RUSAGE_SELF, &ru)
	return (ru.Utime.Sec+ru.Stime.Sec)*1000 + int64(ru.Utime.Usec+ru.Stime.Usec)/1000
}

func rssMB() int64 {
	b, err := os.ReadFile("/proc/self/statm")
	if err != nil {
		return 0
	}
	f := strings.Fields(string(b))
	if len(f) < 2 {
		return 0
	}
	pages, _ := strconv.ParseInt(f[1], 10, 64)
	return pages * int64(os.Getpagesize()) / (1 << 20)
}

const (
	DefaultCPUBudgetMs = 20000
	RSSLimitMB         = 3072
)

// WorkerMain runs cases [from,to) or the explicit list and reports on fd 3.
func WorkerMain(args []string) int {
	if len(args) < 4 {
		fmt.Fprintln(os.Stderr, "usage: vcheck worker <prop> <tier> <seed> <case,case,...|from-to>")
		return 2
	}
	p := core.Lookup(args[0])
	if p == nil {
		fmt.Fprintln(os.Stderr, "unknown property", args[0])
		return 2
	}
	tier := args[1]
	seed, _ := strconv.ParseInt(args[2], 10, 64)
	var cases []int
	if strings.Contains(args[3], "-") {
		ft := strings.SplitN(args[3], "-", 2)
		a, _ := strconv.Atoi(ft[0])
		b, _ := strconv.Atoi(ft[1])
		for i := a; i < b; i++ {
			cases = append(cases, i)
		}
	} else {
		for _, s := range strings.Split(args[3], ",") {
			n, err := strconv.Atoi(s)
			if err == nil {
				cases = append(cases, n)
			}
		}
	}
	out := os.NewFile(3, "proto")
	if out == nil {
		out = os.Stdout
	}
	w := bufio.NewWriter(out)
	enc := json.NewEncoder(w)
	send := func(m Message) {
		enc.Encode(m)
		w.Flush()
	}

	debug.SetMaxStack(192 << 20)
	debug.SetMemoryLimit(2 << 30)

	budget := int64(DefaultCPUBudgetMs)
	if b, ok := p.(core.CPUBudget); ok {
		budget = b.CPUBudgetMs(tier)
	}

	// watchdog: decides on cpu time of this process since the case began, never on wall time.
	var curCase int64 = -1
	var caseStartCPU int64
	go func() {
		for {
			time.Sleep(50 * time.Millisecond)
			c := atomic.LoadInt64(&curCase)
			if c < 0 {
				continue
			}
			used := cpuMs() - atomic.LoadInt64(&caseStartCPU)
			rss := rssMB()
			if used > budget || rss > RSSLimitMB {
				kind := "cpu"
				if rss > RSSLimitMB {
					kind = "memory"
				}
				// protocol writer is owned by the main goroutine, which is stuck: write raw.
				b, _ := json.Marshal(Message{Hang: &HangMsg{Case: int(c), Kind: kind, CPUms: used, RSSMB: rss}})
				out.Write(append([]byte("\n"), append(b, '\n')...))
				os.Exit(7)
			}
		}
	}()

	core.ProgressHook = func() { atomic.StoreInt64(&caseStartCPU, cpuMs()) }
	for _, idx := range cases {
		i := idx
		send(Message{Begin: &i})
		ctx := core.NewCtx(p.ID(), tier, seed, idx)
		start := cpuMs()
		atomic.StoreInt64(&caseStartCPU, start)
		atomic.StoreInt64(&curCase, int64(idx))
		ctx.Guard("case", func() { p.Run(ctx, idx) })
		atomic.StoreInt64(&curCase, -1)
		ctx.R.CPUms = cpuMs() - start
		send(Message{Result: ctx.R})
	}
	send(Message{Done: true})
	return 0
}

// CaseMain runs one case in this process and prints its result as indented JSON.
func CaseMain(args []string) int {
	if len(args) < 4 {
		fmt.Fprintln(os.Stderr, "usage: vcheck case <prop> <tier> <seed> <idx>")
		return 2
	}
	p := core.Lookup(args[0])
	if p == nil {
		return 2
	}
	seed, _ := strconv.ParseInt(args[2], 10, 64)
	idx, _ := strconv.Atoi(args[3])
	ctx := core.NewCtx(p.ID(), args[1], seed, idx)
	ctx.Guard("case", func() { p.Run(ctx, idx) })
	b, _ := json.MarshalIndent(ctx.R, "", " ")
	os.Stdout.Write(b)
	fmt.Println()
	return 0
}
