package sup

import (
	"fmt"
	"os"
	"path/filepath"
	"regexp"
	"sort"
	"strings"
)

var lineNo = regexp.MustCompile(`:\d+ \+0x[0-9a-f]+`)

// collectRaces reads the race detector logs of all workers, splits them into reports and records one
// violation per distinct pair of innermost library frames of the two conflicting accesses.
func collectRaces(r *runner) {
	files, _ := filepath.Glob(filepath.Join(r.workdir, "race.w*"))
	raw := 0
	stackPairs := map[string]bool{}
	for _, f := range files {
		b, err := os.ReadFile(f)
		if err != nil {
			continue
		}
		os.Remove(f)
		for _, rep := range strings.Split(string(b), "==================") {
			if !strings.Contains(rep, "WARNING: DATA RACE") {
				continue
			}
			raw++
			// sections: first two stacks are the conflicting accesses
			secs := strings.Split(rep, "\n\n")
			var acc []string
			for _, s := range secs {
				t := strings.TrimSpace(s)
				if strings.HasPrefix(t, "WARNING: DATA RACE") {
					t = strings.TrimSpace(strings.TrimPrefix(t, "WARNING: DATA RACE"))
				}
				if strings.HasPrefix(t, "Read at") || strings.HasPrefix(t, "Write at") || strings.HasPrefix(t, "Previous read at") || strings.HasPrefix(t, "Previous write at") {
					acc = append(acc, t)
				}
			}
			var frames []string
			inRepo := false
			for _, s := range acc {
				fr := innermostRepoFrame(s)
				if fr != "" {
					inRepo = true
				} else {
					fr = "outside-repo"
				}
				kind := "read"
				if strings.Contains(strings.SplitN(s, "\n", 2)[0], "rite") {
					kind = "write"
				}
				frames = append(frames, kind+":"+fr)
			}
			if !inRepo {
				// a race entirely outside the library is a harness problem, not a finding
				r.a.addInconclusive("race report without library frames: " + head(rep, 400))
				continue
			}
			sort.Strings(frames)
			sig := "race/" + strings.Join(frames, "|")
			stackPairs[lineNo.ReplaceAllString(strings.Join(acc, "\n"), "")] = true
			r.a.addViolation(r.p.ID()+"/"+sig, head(strings.TrimSpace(rep), 3500), -1)
		}
	}
	r.a.mu.Lock()
	r.a.counters["race_reports_raw"] += raw
	r.a.counters["race_reports_distinct_stack_pairs"] += len(stackPairs)
	r.a.mu.Unlock()
	_ = fmt.Sprint
}

func innermostRepoFrame(stack string) string {
	for _, line := range strings.Split(stack, "\n") {
		t := strings.TrimSpace(line)
		if strings.HasPrefix(t, "github.com/freeconf/yang/") {
			if i := strings.LastIndex(t, "("); i > 0 {
				t = t[:i]
			}
			return strings.TrimPrefix(t, "github.com/freeconf/yang/")
		}
	}
	return ""
}
