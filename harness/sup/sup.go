// Package sup is the supervisor: it owns the case list, starts worker processes that run the real
// library under the monitors, attributes crashes and hangs to the in-flight case, applies the
// known-findings list and writes evidence and replay files.
package sup

import (
	"bufio"
	"encoding/json"
	"fmt"
	"hash/fnv"
	"os"
	"os/exec"
	"path/filepath"
	"regexp"
	"runtime"
	"sort"
	"strconv"
	"strings"
	"sync"
	"time"

	"verif/core"
)

type Known struct {
	Property  string `json:"property"`
	Signature string `json:"signature"`
	What      string `json:"what"`
	Witness   string `json:"witness,omitempty"`
}

type KnownFile struct {
	Findings []Known  `json:"findings"`
	Fixed    []string `json:"fixed"`
}

func root() string {
	if r := os.Getenv("VERIF_ROOT"); r != "" {
		return r
	}
	exe, _ := os.Executable()
	// .work/<pid>/vcheck -> root
	return filepath.Dir(filepath.Dir(filepath.Dir(exe)))
}

func loadKnown() (map[string]Known, error) {
	m := map[string]Known{}
	b, err := os.ReadFile(filepath.Join(root(), "known_findings.json"))
	if err != nil {
		if os.IsNotExist(err) {
			return m, nil
		}
		return nil, err
	}
	var kf KnownFile
	if err := json.Unmarshal(b, &kf); err != nil {
		return nil, err
	}
	for _, k := range kf.Findings {
		m[k.Signature] = k
	}
	return m, nil
}

type batch struct {
	cases []int
	alone bool // re-run of a suspected hang
}

type sigAgg struct {
	Count   int
	Details []string
	Cases   []int
}

type agg struct {
	mu          sync.Mutex
	evals       int
	cases       int
	shapes      map[uint64]struct{}
	counters    map[string]int
	sigs        map[string]*sigAgg
	samples     []interface{}
	inconcl     []string
	maxCPUms    int64
	workerStart int
	workerLost  int
}

func (a *agg) addResult(r *core.Result) {
	a.mu.Lock()
	defer a.mu.Unlock()
	a.cases++
	a.evals += r.Evals
	for _, s := range r.Shapes {
		h := fnv.New64a()
		h.Write([]byte(s))
		a.shapes[h.Sum64()] = struct{}{}
	}
	for k, v := range r.Counters {
		a.counters[k] += v
	}
	for _, v := range r.Violations {
		a.addViolationLocked(v.Sig, v.Detail, r.Case)
	}
	if r.Sample != nil && len(a.samples) < 5 {
		a.samples = append(a.samples, map[string]interface{}{"case": r.Case, "sample": r.Sample})
	}
	if r.Inconclusive != "" {
		a.inconcl = append(a.inconcl, fmt.Sprintf("case %d: %s", r.Case, r.Inconclusive))
	}
	if r.CPUms > a.maxCPUms {
		a.maxCPUms = r.CPUms
	}
}

func (a *agg) addViolationLocked(sig, detail string, c int) {
	s := a.sigs[sig]
	if s == nil {
		s = &sigAgg{}
		a.sigs[sig] = s
	}
	s.Count++
	if len(s.Details) < 3 {
		s.Details = append(s.Details, detail)
		s.Cases = append(s.Cases, c)
	}
}

func (a *agg) addViolation(sig, detail string, c int) {
	a.mu.Lock()
	defer a.mu.Unlock()
	a.addViolationLocked(sig, detail, c)
}

func (a *agg) addInconclusive(s string) {
	a.mu.Lock()
	defer a.mu.Unlock()
	a.inconcl = append(a.inconcl, s)
}

type runner struct {
	p       core.Property
	tier    string
	seed    int64
	workdir string
	exe     string
	a       *agg
	race    bool
	replay  bool
	wseq    int
	wmu     sync.Mutex
}

var fatalRe = regexp.MustCompile(`(?m)^(fatal error: .*|runtime: goroutine stack exceeds.*|panic: .*)$`)

// fatalSig classifies the stderr of a dead worker.
func fatalSig(stderr string) (string, bool) {
	m := fatalRe.FindString(stderr)
	if m == "" {
		return "", false
	}
	class := "fatal"
	switch {
	case strings.Contains(stderr, "stack overflow") || strings.Contains(stderr, "goroutine stack exceeds"):
		class = "fatal/stack-overflow"
	case strings.Contains(stderr, "concurrent map"):
		class = "fatal/concurrent-map-access"
	case strings.Contains(stderr, "all goroutines are asleep"):
		class = "fatal/deadlock"
	case strings.Contains(stderr, "out of memory") || strings.Contains(stderr, "cannot allocate"):
		class = "fatal/out-of-memory"
	case strings.HasPrefix(m, "panic:"):
		class = "fatal/unrecovered-panic"
	default:
		class = "fatal/" + strings.ReplaceAll(strings.TrimPrefix(m, "fatal error: "), " ", "-")
	}
	// innermost repo frame in the dump
	frame := core.TopRepoFrame(stderr)
	return class + "/" + frame, true
}

func (r *runner) runBatch(b batch, requeue func(batch)) {
	r.wmu.Lock()
	r.wseq++
	id := r.wseq
	r.wmu.Unlock()
	strs := make([]string, len(b.cases))
	for i, c := range b.cases {
		strs[i] = strconv.Itoa(c)
	}
	cmd := exec.Command(r.exe, "worker", r.p.ID(), r.tier, strconv.FormatInt(r.seed, 10), strings.Join(strs, ","))
	pr, pw, err := os.Pipe()
	if err != nil {
		r.a.addInconclusive("pipe: " + err.Error())
		return
	}
	errPath := filepath.Join(r.workdir, fmt.Sprintf("w%d.stderr", id))
	errFile, _ := os.Create(errPath)
	cmd.Stdout = errFile
	cmd.Stderr = errFile
	cmd.ExtraFiles = []*os.File{pw}
	cmd.Env = append(os.Environ(), "GOTRACEBACK=single")
	if r.race {
		cmd.Env = append(cmd.Env, "GORACE=halt_on_error=0 history_size=5 log_path="+filepath.Join(r.workdir, fmt.Sprintf("race.w%d", id)))
	}
	if err := cmd.Start(); err != nil {
		r.a.addInconclusive("start worker: " + err.Error())
		pw.Close()
		pr.Close()
		errFile.Close()
		return
	}
	pw.Close()
	r.a.mu.Lock()
	r.a.workerStart++
	r.a.mu.Unlock()

	// wall clock watchdog: generous; firing is inconclusive, never a violation.
	wall := 15 * time.Minute
	if r.tier == "thorough" {
		wall = 60 * time.Minute
	}
	timer := time.AfterFunc(wall, func() { cmd.Process.Kill() })

	inflight := -1
	doneIdx := 0 // number of completed cases
	var hang *HangMsg
	finished := false
	sc := bufio.NewScanner(pr)
	sc.Buffer(make([]byte, 1<<20), 64<<20)
	for sc.Scan() {
		line := sc.Bytes()
		if len(line) == 0 {
			continue
		}
		var m Message
		if err := json.Unmarshal(line, &m); err != nil {
			continue
		}
		switch {
		case m.Begin != nil:
			inflight = *m.Begin
		case m.Result != nil:
			r.a.addResult(m.Result)
			inflight = -1
			doneIdx++
		case m.Hang != nil:
			hang = m.Hang
		case m.Done:
			finished = true
		}
	}
	pr.Close()
	werr := cmd.Wait()
	fired := !timer.Stop()
	errFile.Close()
	if finished {
		os.Remove(errPath)
		if b.alone && !r.replay {
			r.a.addInconclusive(fmt.Sprintf("case %v exceeded its budget once but not when re-run alone", b.cases))
		}
		return
	}
	r.a.mu.Lock()
	r.a.workerLost++
	r.a.mu.Unlock()
	// worker died. attribute.
	rest := b.cases[doneIdx:]
	if inflight >= 0 && len(rest) > 0 && rest[0] == inflight {
		rest = rest[1:]
	}
	stderrB, _ := os.ReadFile(errPath)
	stderr := string(stderrB)
	if len(stderr) > 200000 {
		stderr = stderr[:100000] + "\n...\n" + stderr[len(stderr)-100000:]
	}
	switch {
	case fired:
		r.a.addInconclusive(fmt.Sprintf("wall-clock watchdog fired on worker %d (case in flight %d)", id, inflight))
	case hang != nil:
		if b.alone {
			r.a.addViolation(r.p.ID()+"/hang/"+hang.Kind, fmt.Sprintf("case %d exceeded the %s budget twice (alone in a fresh worker too): cpu=%dms rss=%dMB", hang.Case, hang.Kind, hang.CPUms, hang.RSSMB), hang.Case)
		} else {
			requeue(batch{cases: []int{hang.Case}, alone: true})
		}
	case inflight >= 0:
		if sig, ok := fatalSig(stderr); ok {
			r.a.addViolation(r.p.ID()+"/"+sig, fmt.Sprintf("worker died while running case %d: %v\n%s", inflight, werr, head(stderr, 3000)), inflight)
		} else {
			r.a.addInconclusive(fmt.Sprintf("worker %d lost in case %d without recognisable fatal error: %v: %s", id, inflight, werr, head(stderr, 300)))
		}
	default:
		r.a.addInconclusive(fmt.Sprintf("worker %d lost outside any case: %v: %s", id, werr, head(stderr, 300)))
	}
	os.Remove(errPath)
	if len(rest) > 0 && !b.alone {
		requeue(batch{cases: rest})
	}
}

func head(s string, n int) string {
	if len(s) > n {
		return s[:n] + "..."
	}
	return s
}

type Evidence struct {
	PropertyID  string                 `json:"property_id"`
	Tier        string                 `json:"tier"`
	Seed        int64                  `json:"seed"`
	Level       string                 `json:"level"`
	Coverage    map[string]interface{} `json:"coverage"`
	Assumptions []string               `json:"assumptions,omitempty"`
	WallS       float64                `json:"wall_s"`
	Violations  int                    `json:"violations"`
}

func sanitize(s string) string {
	var b strings.Builder
	for _, r := range s {
		if (r >= 'a' && r <= 'z') || (r >= 'A' && r <= 'Z') || (r >= '0' && r <= '9') || r == '-' || r == '_' || r == '.' {
			b.WriteRune(r)
		} else {
			b.WriteRune('_')
		}
	}
	out := b.String()
	if len(out) > 100 {
		out = out[:100]
	}
	return out
}

type Replay struct {
	Property string `json:"property"`
	Tier     string `json:"tier"`
	Seed     int64  `json:"seed"`
	Case     int    `json:"case"`
	Sig      string `json:"sig"`
	Detail   string `json:"detail"`
	Count    int    `json:"count_in_run"`
}

// RunMain is `vcheck run <prop> [--tier t]`.
func RunMain(args []string) int {
	if len(args) < 1 {
		fmt.Fprintln(os.Stderr, "usage: vcheck run <prop> [--tier quick|thorough]")
		return 2
	}
	p := core.Lookup(args[0])
	if p == nil {
		fmt.Fprintln(os.Stderr, "unknown property", args[0])
		return 2
	}
	tier := "quick"
	for i := 1; i < len(args); i++ {
		if args[i] == "--tier" && i+1 < len(args) {
			tier = args[i+1]
			i++
		} else if args[i] == "quick" || args[i] == "thorough" {
			tier = args[i]
		}
	}
	if t := os.Getenv("VERIF_TIER"); t == "quick" || t == "thorough" {
		tier = t
	}
	seed := int64(1)
	if s := os.Getenv("VERIF_SEED"); s != "" {
		if n, err := strconv.ParseInt(s, 10, 64); err == nil {
			seed = n
		}
	}
	start := time.Now()
	known, err := loadKnown()
	if err != nil {
		fmt.Fprintln(os.Stderr, "harness error: known_findings.json:", err)
		return 3
	}
	exe, _ := os.Executable()
	workdir := filepath.Dir(exe)
	a := &agg{shapes: map[uint64]struct{}{}, counters: map[string]int{}, sigs: map[string]*sigAgg{}}
	r := &runner{p: p, tier: tier, seed: seed, workdir: workdir, exe: exe, a: a, race: os.Getenv("VERIF_RACE") == "1"}

	n := p.NumCases(tier, seed)
	workers := runtime.NumCPU()
	if workers > 16 {
		workers = 16
	}
	if w := os.Getenv("VERIF_WORKERS"); w != "" {
		if k, err := strconv.Atoi(w); err == nil && k > 0 {
			workers = k
		}
	}
	bs := (n + workers*4 - 1) / (workers * 4)
	if bb, ok := p.(core.Batcher); ok {
		bs = bb.Batch(tier)
	}
	if bs < 1 {
		bs = 1
	}
	var queue []batch
	for i := 0; i < n; i += bs {
		var cs []int
		for j := i; j < i+bs && j < n; j++ {
			cs = append(cs, j)
		}
		queue = append(queue, batch{cases: cs})
	}
	var qmu sync.Mutex
	pending := len(queue)
	cond := sync.NewCond(&qmu)
	requeue := func(b batch) {
		qmu.Lock()
		queue = append(queue, b)
		pending++
		qmu.Unlock()
		cond.Broadcast()
	}
	var wg sync.WaitGroup
	for w := 0; w < workers; w++ {
		wg.Add(1)
		go func() {
			defer wg.Done()
			for {
				qmu.Lock()
				for len(queue) == 0 && pending > 0 {
					cond.Wait()
				}
				if pending == 0 {
					qmu.Unlock()
					cond.Broadcast()
					return
				}
				b := queue[0]
				queue = queue[1:]
				qmu.Unlock()
				r.runBatch(b, requeue)
				qmu.Lock()
				pending--
				qmu.Unlock()
				cond.Broadcast()
			}
		}()
	}
	wg.Wait()

	// race reports (C20)
	if r.race {
		collectRaces(r)
	}
	if pp, ok := p.(PostProcessor); ok {
		pp.PostProcess(&PostCtx{r: r})
	}

	// verdict
	var sigs []string
	for s := range a.sigs {
		sigs = append(sigs, s)
	}
	sort.Strings(sigs)
	exit := 0
	knownHit := []string{}
	unknown := []string{}
	for _, s := range sigs {
		if k, ok := known[s]; ok && k.Property == p.ID() {
			fmt.Printf("KNOWN-FINDING: property=%s %s: %s (seen %d times)\n", p.ID(), s, k.What, a.sigs[s].Count)
			knownHit = append(knownHit, s)
			continue
		}
		unknown = append(unknown, s)
		dir := filepath.Join(root(), "replays", p.ID())
		os.MkdirAll(dir, 0o755)
		path := filepath.Join(dir, sanitize(strings.TrimPrefix(s, p.ID()+"/"))+".json")
		sa := a.sigs[s]
		rp := Replay{Property: p.ID(), Tier: tier, Seed: seed, Case: sa.Cases[0], Sig: s, Detail: strings.Join(sa.Details, "\n-----\n"), Count: sa.Count}
		b, _ := json.MarshalIndent(rp, "", " ")
		os.WriteFile(path, b, 0o644)
		fmt.Printf("VIOLATION property=%s replay=%s\n", p.ID(), path)
		fmt.Printf("  signature: %s (seen %d times)\n  %s\n", s, sa.Count, head(strings.ReplaceAll(sa.Details[0], "\n", "\n  "), 1500))
		exit = 1
	}
	for _, s := range a.inconcl {
		fmt.Printf("INCONCLUSIVE: %s\n", head(s, 500))
	}

	// evidence
	cov := map[string]interface{}{
		"evaluations":         a.evals,
		"cases":               a.cases,
		"cases_planned":       n,
		"distinct_nontrivial": len(a.shapes),
		"rule":                p.Rule(),
		"samples":             a.samples,
		"counters":            a.counters,
		"known_findings_hit":  knownHit,
		"unlisted_signatures": unknown,
		"inconclusive":        len(a.inconcl),
		"worker_processes":    a.workerStart,
		"workers_lost":        a.workerLost,
		"max_case_cpu_ms":     a.maxCPUms,
	}
	if len(a.inconcl) > 0 {
		k := a.inconcl
		if len(k) > 10 {
			k = k[:10]
		}
		cov["inconclusive_details"] = k
	}
	if ex, ok := p.(core.Exhaustive); ok && ex.Exhaustive(tier) && a.cases == n {
		cov["exhaustive"] = true
	}
	ev := Evidence{PropertyID: p.ID(), Tier: tier, Seed: seed, Level: p.Level(), Coverage: cov,
		WallS: time.Since(start).Seconds(), Violations: len(unknown)}
	if as, ok := p.(core.Assumer); ok {
		ev.Assumptions = as.Assumptions()
	}
	if len(a.samples) == 0 {
		cov["samples"] = []interface{}{"(no case reported a sample)"}
	}
	os.MkdirAll(filepath.Join(root(), "evidence"), 0o755)
	b, _ := json.MarshalIndent(ev, "", " ")
	if err := os.WriteFile(filepath.Join(root(), "evidence", p.ID()+".json"), b, 0o644); err != nil {
		fmt.Fprintln(os.Stderr, "harness error: cannot write evidence:", err)
		return 3
	}
	floor := 1
	if me, ok := p.(core.MinEvals); ok {
		floor = me.MinEvals(tier)
	}
	fmt.Printf("%s tier=%s seed=%d cases=%d/%d evaluations=%d distinct_nontrivial=%d known=%d unlisted=%d inconclusive=%d wall=%.1fs\n",
		p.ID(), tier, seed, a.cases, n, a.evals, len(a.shapes), len(knownHit), len(unknown), len(a.inconcl), time.Since(start).Seconds())
	if exit == 0 && (a.evals < floor || len(a.shapes) < 2) {
		fmt.Fprintf(os.Stderr, "harness error: run observed too little (evaluations=%d floor=%d distinct=%d)\n", a.evals, floor, len(a.shapes))
		return 3
	}
	return exit
}

// PostProcessor lets a property add run-level observations (e.g. race logs).
type PostProcessor interface{ PostProcess(pc *PostCtx) }

type PostCtx struct{ r *runner }

// Counters returns a copy of the aggregated counters.
func (pc *PostCtx) Counters() map[string]int {
	pc.r.a.mu.Lock()
	defer pc.r.a.mu.Unlock()
	out := make(map[string]int, len(pc.r.a.counters))
	for k, v := range pc.r.a.counters {
		out[k] = v
	}
	return out
}

// DropCounters removes bookkeeping counters (by prefix) from the evidence.
func (pc *PostCtx) DropCounters(prefix string) {
	pc.r.a.mu.Lock()
	defer pc.r.a.mu.Unlock()
	for k := range pc.r.a.counters {
		if strings.HasPrefix(k, prefix) {
			delete(pc.r.a.counters, k)
		}
	}
}

func (pc *PostCtx) Workdir() string                    { return pc.r.workdir }
func (pc *PostCtx) Violate(sig, detail string, c int)  { pc.r.a.addViolation(pc.r.p.ID()+"/"+sig, detail, c) }
func (pc *PostCtx) Count(key string, n int)            { pc.r.a.mu.Lock(); pc.r.a.counters[key] += n; pc.r.a.mu.Unlock() }

// ReplayMain re-runs the case named by a replay file and reports whether the signature reappears.
func ReplayMain(args []string) int {
	if len(args) < 1 {
		fmt.Fprintln(os.Stderr, "usage: vcheck replay <file>")
		return 2
	}
	b, err := os.ReadFile(args[0])
	if err != nil {
		fmt.Fprintln(os.Stderr, err)
		return 2
	}
	var rp Replay
	if err := json.Unmarshal(b, &rp); err != nil {
		fmt.Fprintln(os.Stderr, err)
		return 2
	}
	p := core.Lookup(rp.Property)
	if p == nil {
		fmt.Fprintln(os.Stderr, "unknown property", rp.Property)
		return 2
	}
	exe, _ := os.Executable()
	a := &agg{shapes: map[uint64]struct{}{}, counters: map[string]int{}, sigs: map[string]*sigAgg{}}
	r := &runner{p: p, tier: rp.Tier, seed: rp.Seed, workdir: filepath.Dir(exe), exe: exe, a: a, race: os.Getenv("VERIF_RACE") == "1", replay: true}
	r.runBatch(batch{cases: []int{rp.Case}, alone: true}, func(batch) {})
	if r.race {
		collectRaces(r)
	}
	found := false
	for s, sa := range a.sigs {
		fmt.Printf("signature %s (x%d)\n%s\n", s, sa.Count, sa.Details[0])
		if s == rp.Sig {
			found = true
		}
	}
	if found {
		fmt.Printf("VIOLATION property=%s replay=%s\n", rp.Property, args[0])
		return 1
	}
	fmt.Println("signature did not reappear:", rp.Sig)
	return 0
}
