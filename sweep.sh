#!/bin/bash
# sweep.sh <tier> <seed...>: every check at the given tier and seeds; prints one line per run, exits 1 if any run is not clean
cd /verif
tier=$1; shift
bad=0
for s in "$@"; do
  for i in 01 02 03 04 05 06 07 08 09 10 11 12 13 14 15 16 17 18 19 20; do
    out=$(VERIF_SEED=$s ./check.sh C$i $tier 2>&1); rc=$?
    line=$(echo "$out" | grep -E "tier=$tier" | tail -1)
    viol=$(echo "$out" | grep -c '^VIOLATION')
    echo "rc=$rc viol=$viol $line"
    if [ $rc -ne 0 ] || [ $viol -ne 0 ]; then bad=1; echo "$out" | grep -E "^VIOLATION|signature" | head -5; fi
  done
done
exit $bad
